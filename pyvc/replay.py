"""Native replay of counterexamples against the real code (DESIGN.md section 2.10).

A replay kind is a function args -> (violated: bool, text).  `violated` is True when the real
code, executed by CPython, exhibits the reported violation for the concrete input.
"""
import importlib
import os
import pkgutil

REGISTRY = {}


def register(kind):
    def deco(fn):
        REGISTRY[kind] = fn
        return fn
    return deco


def _load_all():
    import contracts
    for m in pkgutil.iter_modules(contracts.__path__):
        importlib.import_module(f"contracts.{m.name}")


def run(kind, args):
    if kind not in REGISTRY:
        _load_all()
    cwd = os.getcwd()
    try:
        os.chdir(os.environ.get("RZIL_REPO", "/repo"))  # Conf resolves paths via `git rev-parse`
        return REGISTRY[kind](args)
    finally:
        os.chdir(cwd)
