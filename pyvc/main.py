"""bin/check driver."""
import argparse
import importlib
import json
import os
import sys
import traceback

HERE = os.path.dirname(os.path.dirname(os.path.abspath(__file__)))
sys.path.insert(0, HERE)
REPO = os.environ.get("RZIL_REPO", "/repo")
sys.path.insert(0, REPO)
sys.setrecursionlimit(20000)


def main():
    ap = argparse.ArgumentParser()
    ap.add_argument("prop", nargs="?")
    ap.add_argument("--tier", default=os.environ.get("VERIF_TIER", "quick"), choices=["quick", "thorough"])
    ap.add_argument("--replay")
    a = ap.parse_args()
    os.environ.setdefault("RZIL_COMPILER_VERIF", "1")
    # the real compiler resolves resource paths with `git rev-parse --show-toplevel`
    os.chdir(REPO)
    if a.replay:
        from pyvc import replay
        with open(a.replay) as f:
            rec = json.load(f)
        if not rec.get("replay"):
            print(f"replay file names obligation {rec['obligation']} [{rec['instance']}]; no failing input "
                  f"(structural obligation). verifier output: {rec.get('detail')}")
            return 1
        violated, text = replay.run(rec["replay"]["kind"], rec["replay"]["args"])
        print(text)
        print("REPRODUCED" if violated else "NOT-REPRODUCED")
        return 1 if violated else 0
    if not a.prop:
        ap.error("property id required")
    seed = int(os.environ.get("VERIF_SEED", "0") or 0)
    from pyvc.vc import Check
    try:
        mod = importlib.import_module(f"contracts.{a.prop.lower()}")
    except ModuleNotFoundError:
        print(f"no check for {a.prop}")
        return 3
    chk = Check(a.prop, a.tier, seed)
    # engine differential self-test (pyvc/selftest.py): the interpreter must agree with CPython on the regression suite
    from pyvc import selftest
    try:
        bad = selftest.run()
    except Exception:
        traceback.print_exc()
        bad = ["engine self-test crashed"]
    if bad:
        for b in bad:
            print(f"CHECKER-FAULT property={a.prop} engine self-test: {b}")
        return 3
    chk.extra["engine_selftest"] = {"cases": len(selftest.CASES), "mismatches": 0, "outside_subset": getattr(selftest.run, "skipped", [])}
    chk.trust("engine self-test: %d small programs executed by CPython and by pyvc with identical results (pyvc/selftest.py), every run" % len(selftest.CASES))
    try:
        return mod.run(chk)
    except Exception:
        traceback.print_exc()
        print(f"CHECKER-FAULT property={a.prop} uncaught exception in checker")
        return 3


if __name__ == "__main__":
    sys.exit(main())
