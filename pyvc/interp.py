"""Path-forking symbolic interpreter over the Python AST of the real repository source.

Hosted: everything whose operands are concrete is computed by CPython itself.  Supported
subset and what is dropped: DESIGN.md section 2.1.  Reaching anything else raises Unsupported
(-> the obligation is *undecided*, never a violation).
"""
from __future__ import annotations
import ast
import builtins as _builtins
import copy as _copy
import enum
import math
import z3

from .values import (SInt, SBool, SFloat, Tpl, Atom, Obj, ExcVal, AbsList, Unsupported, EngineFault,
                     is_sym, to_z3_int, to_z3_bool, tpl_of, is_strlike)
from .loader import Loader, FuncInfo, ClassInfo, PropInfo, ModuleInfo


class Infeasible(Exception):
    pass


class PyRaise(Exception):
    def __init__(self, exc):
        self.exc = exc


class PathEnd(Exception):
    """The path was explored only to discharge a loop-step (preservation) obligation; nothing follows."""


class _Return(Exception):
    def __init__(self, v):
        self.v = v


class _Break(Exception):
    pass


class _Continue(Exception):
    pass


class BoundMethod:
    __slots__ = ("self_", "func")

    def __init__(self, s, f):
        self.self_ = s
        self.func = f

    def __repr__(self):
        return f"<bound {self.func.qualname} of {self.self_!r}>"


class NativeMethod:
    """A method of a concrete/native value (list.append, str.join, dict.pop ...)."""
    __slots__ = ("recv", "name")

    def __init__(self, recv, name):
        self.recv = recv
        self.name = name


class Closure:
    def __init__(self, func: FuncInfo, env):
        self.func = func
        self.env = env


class LambdaV:
    def __init__(self, node, env):
        self.node = node
        self.env = env


class Env:
    __slots__ = ("vars", "parent", "module")

    def __init__(self, module, parent=None):
        self.vars = {}
        self.parent = parent
        self.module = module

    def lookup(self, name):
        e = self
        while e is not None:
            if name in e.vars:
                return True, e.vars[name]
            e = e.parent
        return False, None


MUTATING = {"append", "extend", "insert", "pop", "remove", "clear", "update", "add", "discard", "setdefault", "sort",
            "reverse", "popitem"}

LOG_NOOPS = {"log", "print"}


class Ctx:
    """One path run."""

    def __init__(self, loader: Loader, prefix=None, timeout_ms=20000):
        self.loader = loader
        self.prefix = list(prefix or [])
        self.decisions = []
        self.alternatives = []
        self.solver = z3.Solver()
        self.solver.set("timeout", timeout_ms)
        self.pc = []
        self.writes = []           # (obj, field, old, new)
        self.cwrites = []          # container ids mutated
        self.reads = []            # (obj, field)
        self.obligations = []      # filled by contracts (requires at call sites, ...)
        self.contracts = {"rzilcompiler.Helper.log": _log_noop}   # qualname -> stub(interp, func, args, kwargs)
        self.target = None
        self.class_state = {}
        self.stats = {"nodes": {}, "inlined": set(), "assumed_calls": {}, "contract_calls": {}, "natives": set()}
        self.fresh_counter = 0
        self.pre_containers = {}
        self.notes = []
        self.depth = 0
        self.track_reads = False
        self._ncount = {}

    # -- symbolic constants ------------------------------------------------
    def fresh_name(self, base):
        self.fresh_counter += 1
        return f"{base}!{self.fresh_counter}"

    def int(self, name):
        return SInt(z3.Int(name))

    def bool(self, name):
        return SBool(z3.Bool(name))

    # -- path condition ----------------------------------------------------
    def assume(self, t):
        if isinstance(t, bool):
            if not t:
                raise Infeasible()
            return
        self.pc.append(t)
        self.solver.add(t)

    def check(self, *extra):
        if getattr(self, "assume_feasible", False):
            return True
        r = self.solver.check(*extra)
        if r == z3.unknown:
            raise Unsupported(f"solver unknown on path condition: {self.solver.reason_unknown()}")
        return r == z3.sat

    def branch(self, t) -> bool:
        if isinstance(t, bool):
            return t
        t = z3.simplify(t)
        if z3.is_true(t):
            return True
        if z3.is_false(t):
            return False
        pos = len(self.decisions)
        if pos < len(self.prefix):
            d = self.prefix[pos]
        elif getattr(self, "assume_feasible", False):
            # theories the path solver cannot decide quickly (strings): explore both sides; an infeasible
            # side only yields obligations with an unsatisfiable path condition
            d = True
            self.alternatives.append(self.decisions + [False])
        else:
            can_t = self.check(t)
            can_f = self.check(z3.Not(t))
            if can_t and can_f:
                d = True
                self.alternatives.append(self.decisions + [False])
            elif can_t:
                d = True
            elif can_f:
                d = False
            else:
                raise Infeasible()
        self.decisions.append(d)
        c = t if d else z3.Not(t)
        self.pc.append(c)
        self.solver.add(c)
        return d

    # -- heap ----------------------------------------------------------------
    def mark_pre(self, *roots):
        """Marks everything reachable from roots as pre-existing (for frame clauses)."""
        seen = set()

        def walk(v):
            if isinstance(v, Obj):
                if v.oid in seen:
                    return
                seen.add(v.oid)
                v.pre = True
                for x in list(v.fields.values()):
                    walk(x)
            elif isinstance(v, (list, tuple, set)):
                if isinstance(v, (list, set)):
                    if id(v) in self.pre_containers:
                        return
                    self.pre_containers[id(v)] = v
                for x in v:
                    walk(x)
            elif isinstance(v, dict):
                if id(v) in self.pre_containers:
                    return
                self.pre_containers[id(v)] = v
                for x in v.values():
                    walk(x)
        for r in roots:
            walk(r)
        # writes performed while the harness built the pre-state do not count
        self.pre_mark = len(self.writes)
        self.pre_cmark = len(self.cwrites)

    def pre_writes(self):
        out = [(o, f, old, new) for (o, f, old, new) in self.writes[getattr(self, "pre_mark", 0):] if o.pre]
        return out

    def pre_container_writes(self):
        return [c for c in self.cwrites[getattr(self, "pre_cmark", 0):] if c in self.pre_containers]

    def count(self, node):
        d = self._ncount
        t = node.__class__
        d[t] = d.get(t, 0) + 1

    def finalize_stats(self):
        for t, n in self._ncount.items():
            self.stats["nodes"][t.__name__] = self.stats["nodes"].get(t.__name__, 0) + n
        self._ncount = {}


def _log_noop(it, f, args, kwargs):
    it.ctx.stats["assumed_calls"]["log/print (A-LOG)"] = 1
    return None


def is_concrete(v, depth=0):
    if isinstance(v, (SInt, SBool, SFloat, Tpl, Atom, Obj, ExcVal, AbsList, BoundMethod, Closure, LambdaV, FuncInfo,
                      ClassInfo, NativeMethod)):
        return False
    if isinstance(v, (list, tuple, set, frozenset)):
        return depth < 6 and all(is_concrete(x, depth + 1) for x in v)
    if isinstance(v, dict):
        return depth < 6 and all(is_concrete(x, depth + 1) for x in v.values())
    return True


class Interp:
    def __init__(self, ctx: Ctx):
        self.ctx = ctx
        self.loader = ctx.loader
        self.max_depth = 200

    # ------------------------------------------------------------------ exceptions
    def raise_(self, cls, *args):
        raise PyRaise(ExcVal(cls, list(args)))

    # ------------------------------------------------------------------ truthiness
    def truth_term(self, v):
        """Returns python bool or z3 Bool term."""
        if isinstance(v, SBool):
            return v.t
        if isinstance(v, SInt):
            return v.t != 0
        if isinstance(v, Obj):
            owner, m = v.cls.lookup("__bool__")
            if isinstance(m, FuncInfo):
                return self.truth_term(self.call(BoundMethod(v, m), [], {}))
            owner, m = v.cls.lookup("__len__")
            if isinstance(m, FuncInfo):
                return self.truth_term(self.call(BoundMethod(v, m), [], {}))
            return True
        if isinstance(v, Tpl):
            terms = []
            for p in v.parts:
                if isinstance(p, str):
                    if p:
                        return True
                elif isinstance(p, Atom):
                    if p.nonempty is True:
                        return True
                    if p.nonempty is not False:
                        terms.append(p.nonempty)
                else:
                    return True
            if not terms:
                return False
            return z3.Or(*terms) if len(terms) > 1 else terms[0]
        if isinstance(v, Atom):
            return v.nonempty
        if isinstance(v, AbsList):
            return v.length > 0
        if isinstance(v, AbsSeq):
            return v.length > 0
        if isinstance(v, NativeAbs) and hasattr(v, "truth_term"):
            return v.truth_term(self)
        if isinstance(v, AbsAcc):
            return (v.ghost_len + len(v.tail)) > 0
        if isinstance(v, (ExcVal, BoundMethod, Closure, FuncInfo, ClassInfo, LambdaV)):
            return True
        if isinstance(v, SFloat):
            raise Unsupported("truth of float")
        return bool(v)

    def truth(self, v) -> bool:
        t = self.truth_term(v)
        if isinstance(t, bool):
            return t
        return self.ctx.branch(t)

    # ------------------------------------------------------------------ equality
    def eq_term(self, a, b):
        """Python `a == b` -> bool or z3 term (may call __eq__ of repository classes)."""
        if a is b:
            if isinstance(a, Obj):
                owner, m = a.cls.lookup("__eq__")
                if not isinstance(m, FuncInfo):
                    return True
            else:
                return True
        if isinstance(a, NativeAbs) and hasattr(a, "eq_term"):
            return a.eq_term(self, b)
        if isinstance(b, NativeAbs) and hasattr(b, "eq_term"):
            return b.eq_term(self, a)
        if isinstance(a, Obj):
            owner, m = a.cls.lookup("__eq__")
            if isinstance(m, FuncInfo):
                return self.truth_term(self.call(BoundMethod(a, m), [b], {}))
            if isinstance(b, Obj):
                owner, m = b.cls.lookup("__eq__")
                if isinstance(m, FuncInfo):
                    return self.truth_term(self.call(BoundMethod(b, m), [a], {}))
            return a is b
        if isinstance(b, Obj):
            owner, m = b.cls.lookup("__eq__")
            if isinstance(m, FuncInfo):
                return self.truth_term(self.call(BoundMethod(b, m), [a], {}))
            return False
        if is_sym(a) or is_sym(b):
            if isinstance(a, (SBool,)) or isinstance(b, (SBool,)):
                if isinstance(a, (SBool, bool)) and isinstance(b, (SBool, bool)):
                    return to_z3_bool(a) == to_z3_bool(b)
            if isinstance(a, (SInt, SBool, int, bool)) and isinstance(b, (SInt, SBool, int, bool)):
                return to_z3_int(a) == to_z3_int(b)
            return False  # symbolic scalar vs. non-number
        if isinstance(a, Tpl) or isinstance(b, Tpl):
            ta, tb = (tpl_of(a) if is_strlike(a) else None), (tpl_of(b) if is_strlike(b) else None)
            if ta is None or tb is None:
                return False
            if len(ta.parts) == len(tb.parts) and all(
                    (x is y) or (isinstance(x, str) and x == y) for x, y in zip(ta.parts, tb.parts)):
                return True
            raise Unsupported(f"equality of templates {ta} == {tb}")
        if isinstance(a, (list, tuple)) and isinstance(b, (list, tuple)) and type(a) is type(b):
            if len(a) != len(b):
                return False
            terms = [self.eq_term(x, y) for x, y in zip(a, b)]
            if all(isinstance(t, bool) for t in terms):
                return all(terms)
            return z3.And(*[t if not isinstance(t, bool) else z3.BoolVal(t) for t in terms])
        if isinstance(a, (ExcVal, AbsList)) or isinstance(b, (ExcVal, AbsList)):
            return a is b
        return a == b

    def contains(self, item, coll):
        if isinstance(coll, dict):
            return self.dict_has(coll, item)
        if isinstance(coll, (list, tuple, set, frozenset)):
            terms = []
            for x in coll:
                t = self.eq_term(x, item) if (x is not item) else True
                if t is True:
                    return True
                if t is not False:
                    terms.append(t)
            if not terms:
                return False
            return z3.Or(*terms) if len(terms) > 1 else terms[0]
        if isinstance(coll, range):
            if isinstance(item, SInt):
                return z3.And(item.t >= coll.start, item.t < coll.stop) if coll.step == 1 else self._unsup("range step")
            return item in coll
        if isinstance(coll, str):
            if isinstance(item, str):
                return item in coll
            raise Unsupported("template in str")
        if isinstance(coll, Tpl):
            if isinstance(item, str):
                for p in coll.parts:
                    if isinstance(p, str) and item in p:
                        return True
                hook = getattr(self.ctx, "tpl_contains_hook", None)
                if hook:
                    return hook(item, coll)
                raise Unsupported(f"substring test {item!r} in template with atoms")
            raise Unsupported("template in template")
        if isinstance(coll, Obj):
            owner, m = coll.cls.lookup("__contains__")
            if isinstance(m, FuncInfo):
                return self.truth_term(self.call(BoundMethod(coll, m), [item], {}))
        if isinstance(coll, NativeAbs):
            return coll.contains(self, item)
        raise Unsupported(f"'in' on {type(coll).__name__}")

    def _unsup(self, what):
        raise Unsupported(what)

    def dict_has(self, d, key):
        """membership with possibly templated keys: structural match, and refusal (undecided) when a
        non-structural alias is possible (same literal skeleton, different symbolic parts)."""
        if isinstance(key, Obj) or is_sym(key) or (isinstance(key, tuple) and any(is_sym(x) or isinstance(x, Obj) for x in key)):
            # (a tuple key with symbolic components would be compared by object identity: equality is not decidable here)
            raise Unsupported("symbolic key lookup in concrete dict")
        if isinstance(key, Atom):
            key = Tpl([key])
        if key in d:
            return True
        if isinstance(key, Tpl):
            sk = key.skeleton()
            for k in d:
                if isinstance(k, Tpl) and k.skeleton() == sk:
                    # same literal skeleton: the names are equal iff all symbolic integer parts are equal
                    eqs = []
                    ok = True
                    for a, b in zip(key.parts, k.parts):
                        if isinstance(a, str):
                            continue
                        if isinstance(a, SInt) and isinstance(b, SInt):
                            eqs.append(a.t == b.t)
                        elif a is not b:
                            ok = False
                    if ok and eqs and not self.ctx.check(z3.And(*eqs)):
                        continue      # provably different names
                    raise Unsupported(f"dict lookup of {key} may alias key {k}")
                if isinstance(k, str) and len(sk) > 0 and isinstance(sk[0], str) and k.startswith(sk[0]) and len(k) > len(sk[0]):
                    rest = k[len(sk[0]):]
                    if len(sk) == 2 and sk[1] is None and isinstance(key.parts[1], SInt) and not rest.lstrip("-").isdigit():
                        continue      # "<prefix><int>" can never equal "<prefix><non-digits>"
                    raise Unsupported(f"dict lookup of {key} may alias key {k!r}")
        else:
            for k in d:
                if isinstance(k, Tpl):
                    sk = k.skeleton()
                    if isinstance(key, str) and sk and isinstance(sk[0], str) and key.startswith(sk[0]) and len(key) > len(sk[0]):
                        raise Unsupported(f"dict lookup of {key!r} may alias key {k}")
        return False

    # ------------------------------------------------------------------ attribute access
    def class_attr(self, cls: ClassInfo, owner, name, expr):
        key = (owner.qualname, name)
        st = self.ctx.class_state
        if key not in st:
            env = Env(owner.module)
            st[key] = self.eval(expr, env)
        return st[key]

    def getattr_(self, v, name, node=None):
        ctx = self.ctx
        if isinstance(v, Obj):
            if name in v.stubs:
                return StubMethod(v, name, v.stubs[name])
            if name in v.fields:
                # data descriptors (properties) take precedence over instance dict
                owner, m = v.cls.lookup(name)
                if isinstance(m, PropInfo):
                    return self.call(BoundMethod(v, m.getter), [], {})
                if ctx.track_reads:
                    ctx.reads.append((v, name))
                return v.fields[name]
            if name == "__class__":
                return v.cls
            if name == "__dict__":
                raise Unsupported("__dict__")
            owner, m = v.cls.lookup(name)
            if m is None:
                hook = v.ghost.get("getattr_hook")
                if hook:
                    return hook(self, v, name)
                self.raise_(AttributeError, f"'{v.cls.name}' object has no attribute '{name}'")
            if isinstance(m, FuncInfo):
                if m.kind == "staticmethod":
                    return m
                if m.kind == "classmethod":
                    return BoundMethod(v.cls, m)
                return BoundMethod(v, m)
            if isinstance(m, PropInfo):
                if m.getter is None:
                    raise Unsupported("property without getter")
                return self.call(BoundMethod(v, m.getter), [], {})
            if m[0] == "attr":
                if ctx.track_reads:
                    ctx.reads.append((v, name))
                return self.class_attr(v.cls, owner, name, m[1])
            if m[0] == "real":
                rv = m[1]
                if callable(rv):
                    return RealMethodOnObj(v, owner, name, rv)
                return rv
        if isinstance(v, ClassInfo):
            owner, m = v.lookup(name)
            if m is None:
                if name == "__name__":
                    return v.name
                self.raise_(AttributeError, f"type object '{v.name}' has no attribute '{name}'")
            if isinstance(m, FuncInfo):
                if m.kind == "classmethod":
                    return BoundMethod(v, m)
                return m  # plain function accessed through the class (e.g. PureExec.__init__)
            if isinstance(m, PropInfo):
                return m
            if m[0] == "attr":
                return self.class_attr(v, owner, name, m[1])
            return m[1]
        if isinstance(v, ModuleInfo):
            if name in v.globals:
                return self.loader.resolve_lazy(v.globals[name])
            self.raise_(AttributeError, f"module has no attribute {name}")
        if isinstance(v, ExcVal):
            if name == "args":
                return tuple(v.args)
            if name == "__class__":
                return v.cls
            raise Unsupported(f"attribute {name} of exception value")
        if isinstance(v, Tpl):
            return NativeMethod(v, name)
        if isinstance(v, (list, dict, set, str, tuple)) and not isinstance(v, enum.Enum):
            base = next(b for b in (list, dict, set, str, tuple) if isinstance(v, b))
            if hasattr(base, name):
                return NativeMethod(v, name)
            # attribute of a subclass instance (lark.Token.type / .value ...)
        if isinstance(v, NativeAbs):
            return v.getattr(self, name)
        if isinstance(v, (SInt, SBool)):
            raise Unsupported(f"attribute {name} on symbolic scalar")
        if isinstance(v, Atom):
            return NativeMethod(Tpl([v]), name)
        # real python object (enum member, Token, module, re.Match, ...)
        try:
            return getattr(v, name)
        except AttributeError as e:
            self.raise_(AttributeError, str(e))

    def setattr_(self, v, name, val):
        if isinstance(v, Obj):
            owner, m = v.cls.lookup(name)
            if isinstance(m, PropInfo):
                if m.setter is None:
                    self.raise_(AttributeError, f"can't set attribute {name}")
                self.call(BoundMethod(v, m.setter), [val], {})
                return
            old = v.fields.get(name, _MISSING)
            v.fields[name] = val
            self.ctx.writes.append((v, name, old, val))
            return
        if isinstance(v, ClassInfo):
            # class-level assignment (rare); stored in class_state
            owner, m = v.lookup(name)
            key = ((owner or v).qualname, name)
            self.ctx.class_state[key] = val
            self.ctx.cwrites.append(("class", key))
            return
        if isinstance(v, NativeAbs):
            return v.setattr(self, name, val)
        if is_concrete(v) and is_concrete(val):
            setattr(v, name, val)
            return
        raise Unsupported(f"setattr on {type(v).__name__}")

    # ------------------------------------------------------------------ calls
    def bind(self, f: FuncInfo, args, kwargs, env):
        a = f.node.args
        params = [p.arg for p in a.posonlyargs + a.args]
        defaults = a.defaults
        n = len(params)
        if len(args) > n and a.vararg is None:
            self.raise_(TypeError, f"{f.name}() takes {n} positional arguments but {len(args)} were given")
        for i, p in enumerate(params):
            if i < len(args):
                env.vars[p] = args[i]
        if a.vararg is not None:
            env.vars[a.vararg.arg] = tuple(args[n:])
        kw = dict(kwargs)
        for i, p in enumerate(params):
            if p in kw:
                if p in env.vars:
                    self.raise_(TypeError, f"{f.name}() got multiple values for argument '{p}'")
                env.vars[p] = kw.pop(p)
        first_default = n - len(defaults)
        menv = Env(f.module)
        for i, p in enumerate(params):
            if p not in env.vars:
                if i >= first_default:
                    env.vars[p] = self.eval(defaults[i - first_default], menv)
                else:
                    self.raise_(TypeError, f"{f.name}() missing required positional argument: '{p}'")
        for p, d in zip(a.kwonlyargs, a.kw_defaults):
            if p.arg in kw:
                env.vars[p.arg] = kw.pop(p.arg)
            elif d is not None:
                env.vars[p.arg] = self.eval(d, menv)
            else:
                self.raise_(TypeError, f"missing keyword-only argument {p.arg}")
        if a.kwarg is not None:
            env.vars[a.kwarg.arg] = kw
        elif kw:
            self.raise_(TypeError, f"{f.name}() got an unexpected keyword argument '{next(iter(kw))}'")

    def call_function(self, f: FuncInfo, args, kwargs, closure_env=None):
        ctx = self.ctx
        if f.kind == "unsupported-decorator":
            raise Unsupported(f"decorator on {f.qualname}")
        stub = ctx.contracts.get(f.qualname)
        # the function under verification is interpreted once; its recursive calls use its own contract
        if stub is not None and (f.qualname != ctx.target or getattr(ctx, "target_active", False)):
            ctx.stats["contract_calls"][f.qualname] = ctx.stats["contract_calls"].get(f.qualname, 0) + 1
            return stub(self, f, args, kwargs)
        if f.qualname == ctx.target:
            ctx.target_active = True
        else:
            ctx.stats["inlined"].add(f.qualname)
        if f.cached:
            # memoisation decorator: the first result is kept for the whole process (here: the whole path) and returned again
            try:
                key = (f.qualname, tuple(args), tuple(sorted(kwargs.items())))
                hash(key)
            except TypeError:
                raise Unsupported(f"memoised function {f.qualname} called with unhashable arguments")
            cache = ctx.__dict__.setdefault("memo", {})
            if key in cache:
                return cache[key]
            ctx.stats["assumed_calls"][f"memoised: {f.qualname}"] = 1
            cache[key] = self._call_body(f, args, kwargs, closure_env)
            return cache[key]
        return self._call_body(f, args, kwargs, closure_env)

    def _call_body(self, f, args, kwargs, closure_env=None):
        ctx = self.ctx
        if ctx.depth > self.max_depth:
            raise Unsupported("recursion depth")
        env = Env(f.module, closure_env)
        self.bind(f, args, kwargs, env)
        ctx.depth += 1
        try:
            self.exec_block(f.node.body, env)
        except _Return as r:
            return r.v
        finally:
            ctx.depth -= 1
        return None

    def instantiate(self, cls: ClassInfo, args, kwargs):
        o = Obj(cls)
        owner, init = cls.lookup("__init__")
        if isinstance(init, FuncInfo):
            self.call_function(init, [o] + list(args), kwargs)
        elif init is not None and init[0] == "real" and owner is not object:
            # real base class __init__ (lark.Transformer): assumed to have no effect on our fields
            self.ctx.stats["assumed_calls"][f"{owner.__name__}.__init__"] = 1
        return o

    def call(self, callee, args, kwargs):
        ctx = self.ctx
        if isinstance(callee, BoundMethod):
            return self.call_function(callee.func, [callee.self_] + list(args), kwargs)
        if isinstance(callee, FuncInfo):
            return self.call_function(callee, list(args), kwargs)
        if isinstance(callee, Closure):
            return self.call_function(callee.func, list(args), kwargs, closure_env=callee.env)
        if isinstance(callee, LambdaV):
            env = Env(callee.env.module, callee.env)
            for p, a in zip(callee.node.args.args, args):
                env.vars[p.arg] = a
            return self.eval(callee.node.body, env)
        if isinstance(callee, ClassInfo):
            stub = ctx.contracts.get(callee.qualname)
            if stub is not None:
                return stub(self, callee, args, kwargs)
            return self.instantiate(callee, args, kwargs)
        if isinstance(callee, StubMethod):
            return callee.fn(self, callee.obj, args, kwargs)
        if isinstance(callee, NativeMethod):
            return self.call_native_method(callee.recv, callee.name, args, kwargs)
        if isinstance(callee, RealMethodOnObj):
            key = f"{getattr(callee.owner, '__name__', callee.owner)}.{callee.name}"
            stub = ctx.contracts.get(key)
            if stub is not None:
                ctx.stats["assumed_calls"][key] = ctx.stats["assumed_calls"].get(key, 0) + 1
                return stub(self, callee, [callee.obj] + list(args), kwargs)
            if callee.name == "__init__":
                ctx.stats["assumed_calls"][key] = 1
                return None
            raise Unsupported(f"call of external method {key} on heap object")
        if isinstance(callee, NativeAbs):
            return callee.call(self, args, kwargs)
        return self.call_native(callee, args, kwargs)

    # -- native (hosted) calls ------------------------------------------------
    def call_native(self, fn, args, kwargs):
        ctx = self.ctx
        name = getattr(fn, "__name__", None)
        qual = f"{getattr(fn, '__module__', '')}.{getattr(fn, '__qualname__', name)}"
        stub = ctx.contracts.get(qual) or (ctx.contracts.get(name) if name in NATIVE_STUBBABLE else None)
        if stub is not None:
            ctx.stats["assumed_calls"][qual] = ctx.stats["assumed_calls"].get(qual, 0) + 1
            return stub(self, fn, args, kwargs)
        if name in LOG_NOOPS and (fn is _builtins.print or getattr(fn, "__module__", "").startswith("rzilcompiler")):
            ctx.stats["assumed_calls"]["log/print (A-LOG)"] = 1
            return None
        if isinstance(fn, type) and issubclass(fn, BaseException):
            return ExcVal(fn, list(args))
        if isinstance(fn, type) and issubclass(fn, enum.Enum) and len(args) == 1 and isinstance(args[0], (Obj, ExcVal, list, dict, ClassInfo)):
            # Enum lookup by value: no member equals an IR object
            self.raise_(ValueError, f"{args[0]!r} is not a valid {fn.__name__}")
        h = BUILTIN_HANDLERS.get(fn)
        if h is not None:
            return h(self, args, kwargs)
        if is_concrete(args) and is_concrete(kwargs):
            try:
                ctx.stats["natives"].add(qual)
                return fn(*args, **kwargs)
            except Exception as e:  # a real python exception from hosted code
                raise PyRaise(ExcVal(type(e), list(e.args)))
        raise Unsupported(f"native call {qual} with symbolic arguments")

    def join_abstract(self, sep, seq):
        """sep.join(f(x) for x in xs) over an abstract sequence of any length: an atom that denotes 'the texts f(x_0) sep f(x_1) ...
        of ALL elements, each once, in order'.  f is applied here to one arbitrary element of every admissible kind, so the
        contract can inspect what is joined per element (meta['elements'])."""
        c = seq.contract
        if c is None:
            raise Unsupported(f"join over abstract sequence {seq.name} without a loop contract")
        elems = {}
        for kind in c.element_kinds():
            el = c.make_element(self, kind, seq)
            for f in seq.maps:
                el = f(self, el)
            if not (is_strlike(el) or isinstance(el, Atom)):
                self.raise_(TypeError, "sequence item: expected str instance")
            elems[kind] = el
        self.ctx.stats["assumed_calls"][f"join rule applied: {c.name}"] = 1
        return Tpl([Atom(f"join!{seq.name}", 0, kind="join", meta={"sep": sep, "elements": elems, "length": seq.length, "seq": seq})])

    def call_native_method(self, recv, name, args, kwargs):
        ctx = self.ctx
        if isinstance(recv, Tpl):
            return self.tpl_method(recv, name, args, kwargs)
        if isinstance(recv, str) and name == "join" and isinstance(args[0], AbsSeq):
            return self.join_abstract(recv, args[0])
        if isinstance(recv, str) and name == "join":
            (seq,) = args
            seq = list(self.iterate(seq))
            if all(isinstance(x, str) for x in seq):
                return recv.join(seq)
            parts = []
            for i, x in enumerate(seq):
                if i:
                    parts.append(recv)
                if not is_strlike(x) and not isinstance(x, Atom):
                    self.raise_(TypeError, "sequence item: expected str instance")
                parts.append(x)
            return Tpl(parts)
        if isinstance(recv, str) and name in ("replace", "startswith", "endswith") and not is_concrete(args):
            raise Unsupported(f"str.{name} with symbolic argument")
        if isinstance(recv, (list, set, dict)) and name in MUTATING:
            ctx.cwrites.append(id(recv))
        if isinstance(recv, list):
            if name == "remove":
                (x,) = args
                for i, y in enumerate(recv):
                    t = True if y is x else self.eq_term(y, x)
                    if isinstance(t, bool):
                        if t:
                            del recv[i]
                            return None
                    elif ctx.branch(t):
                        del recv[i]
                        return None
                self.raise_(ValueError, "list.remove(x): x not in list")
            if name == "index":
                (x,) = args
                for i, y in enumerate(recv):
                    t = True if y is x else self.eq_term(y, x)
                    if (t is True) or (not isinstance(t, bool) and ctx.branch(t)):
                        return i
                self.raise_(ValueError, "x not in list")
            if name == "extend":
                recv.extend(list(self.iterate(args[0])))
                return None
            if name == "sort":
                raise Unsupported("list.sort")
            if name == "copy":
                return list(recv)
            if name == "count":
                (x,) = args
                n_ = 0
                for y in recv:
                    t = True if y is x else self.eq_term(y, x)
                    if (t is True) or (not isinstance(t, bool) and ctx.branch(t)):
                        n_ += 1
                return n_
            if name in ("append", "insert", "pop", "clear", "reverse"):
                if name == "pop" and args and is_sym(args[0]):
                    raise Unsupported("pop symbolic index")
                try:
                    return getattr(recv, name)(*args)
                except Exception as e:
                    raise PyRaise(ExcVal(type(e), list(e.args)))
        if isinstance(recv, dict):
            if name in ("keys", "values", "items"):
                return list(getattr(recv, name)())
            if name in ("get", "pop", "setdefault"):
                k = args[0]
                if isinstance(k, Obj) or is_sym(k):
                    raise Unsupported("symbolic dict key")
                self.dict_has(recv, k)   # raises Unsupported on possible non-structural aliasing
                try:
                    return getattr(recv, name)(*args)
                except Exception as e:
                    raise PyRaise(ExcVal(type(e), list(e.args)))
            if name == "update":
                other = args[0]
                if isinstance(other, dict):
                    recv.update(other)
                    return None
            if name in ("clear", "copy"):
                return getattr(recv, name)()
            if name == "popitem" and not args:
                if not recv:
                    self.raise_(KeyError, "popitem(): dictionary is empty")
                return recv.popitem()
        if isinstance(recv, set):
            if name in ("add", "remove", "discard"):
                (x,) = args
                if isinstance(x, Obj):
                    o2, m2 = x.cls.lookup("__hash__")
                    o3, m3 = x.cls.lookup("__eq__")
                    if isinstance(m3, FuncInfo) and not isinstance(m2, FuncInfo):
                        self.raise_(TypeError, "unhashable type")
                try:
                    return getattr(recv, name)(x)
                except Exception as e:
                    raise PyRaise(ExcVal(type(e), list(e.args)))
            if name in ("clear", "copy"):
                return getattr(recv, name)()
            if name == "popitem" and not args:
                if not recv:
                    self.raise_(KeyError, "popitem(): dictionary is empty")
                return recv.popitem()
        if is_concrete(recv) and is_concrete(args) and is_concrete(kwargs):
            try:
                return getattr(recv, name)(*args, **kwargs)
            except Exception as e:
                raise PyRaise(ExcVal(type(e), list(e.args)))
        raise Unsupported(f"method {type(recv).__name__}.{name} with symbolic arguments")

    def tpl_method(self, t: Tpl, name, args, kwargs):
        if name == "replace" and len(args) == 2 and all(isinstance(a, str) for a in args):
            # applied to literal chunks; atoms are assumed not to contain the pattern (recorded)
            self.ctx.stats["assumed_calls"]["Tpl.replace leaves atoms unchanged"] = 1
            return Tpl([p.replace(args[0], args[1]) if isinstance(p, str) else p for p in t.parts])
        if name in ("strip",) and not args:
            parts = list(t.parts)
            if parts and isinstance(parts[0], str):
                parts[0] = parts[0].lstrip()
            if parts and isinstance(parts[-1], str):
                parts[-1] = parts[-1].rstrip()
            return Tpl(parts)
        if name in ("upper", "lower") and not t.atoms() and all(isinstance(p, str) for p in t.parts):
            return getattr("".join(t.parts), name)()
        if name == "startswith" and isinstance(args[0], str) and t.parts and isinstance(t.parts[0], str) and len(
                t.parts[0]) >= len(args[0]):
            return t.parts[0].startswith(args[0])
        if name == "join":
            seq = list(self.iterate(args[0]))
            parts = []
            for i, x in enumerate(seq):
                if i:
                    parts.append(t)
                parts.append(x)
            return Tpl(parts)
        hook = getattr(self.ctx, "tpl_method_hook", None)
        if hook:
            return hook(self, t, name, args, kwargs)
        raise Unsupported(f"str method {name} on template")

    # ------------------------------------------------------------------ iteration
    def iterate(self, v):
        if isinstance(v, (list, tuple, range, set, frozenset)):
            return list(v)
        if isinstance(v, dict):
            return list(v.keys())
        if isinstance(v, str):
            return list(v)
        if isinstance(v, (zip, enumerate, map, filter)):
            return list(v)
        if isinstance(v, NativeAbs):
            return v.iterate(self)
        if isinstance(v, AbsList):
            raise Unsupported(f"iteration over abstract list {v.name} without a loop contract")
        if isinstance(v, Tpl):
            raise Unsupported("iteration over template characters")
        if isinstance(v, Obj):
            raise Unsupported("iteration over heap object")
        try:
            return list(v)
        except TypeError:
            self.raise_(TypeError, f"'{type(v).__name__}' object is not iterable")

    # ------------------------------------------------------------------ statements
    def exec_block(self, stmts, env):
        for s in stmts:
            self.exec(s, env)

    def exec(self, s, env):
        ctx = self.ctx
        ctx.count(s)
        T = type(s)
        if T is ast.Expr:
            if isinstance(s.value, ast.Constant):
                return  # docstring
            self.eval(s.value, env)
        elif T is ast.Assign:
            v = self.eval(s.value, env)
            for t in s.targets:
                self.assign(t, v, env)
        elif T is ast.AnnAssign:
            if s.value is not None:
                self.assign(s.target, self.eval(s.value, env), env)
        elif T is ast.AugAssign:
            cur = self.eval(_load(s.target), env)
            v = self.binop(s.op, cur, self.eval(s.value, env), inplace=True)
            self.assign(s.target, v, env)
        elif T is ast.Return:
            raise _Return(self.eval(s.value, env) if s.value is not None else None)
        elif T is ast.If:
            if self.truth(self.eval(s.test, env)):
                self.exec_block(s.body, env)
            else:
                self.exec_block(s.orelse, env)
        elif T is ast.For:
            itv = self.eval(s.iter, env)
            if isinstance(itv, AbsSeq):
                return self.exec_for_abstract(s, itv, env)
            if isinstance(itv, AbsCat):
                # abstract part by the loop rule (its exit state is the state before the first concrete item), then the known items
                if itv.head:
                    raise Unsupported("iteration over an abstract list with concrete items in front")
                self.exec_for_abstract(s, itv.base, env, orelse=False)
                itv = list(itv.tail)
            broke = False
            for x in self.iterate(itv):
                self.assign(s.target, x, env)
                try:
                    self.exec_block(s.body, env)
                except _Break:
                    broke = True
                    break
                except _Continue:
                    continue
            if not broke:
                self.exec_block(s.orelse, env)
        elif T is ast.While:
            hook = getattr(ctx, "while_hook", None)
            if hook is not None and hook(self, s, env):
                return
            n = 0
            broke = False
            while self.truth(self.eval(s.test, env)):
                n += 1
                if n > getattr(ctx, "while_bound", 64):
                    raise Unsupported("while loop exceeds unrolling bound without invariant")
                try:
                    self.exec_block(s.body, env)
                except _Break:
                    broke = True
                    break
                except _Continue:
                    continue
            if not broke:
                self.exec_block(s.orelse, env)
        elif T is ast.Raise:
            if s.exc is None:
                cur = env.lookup("__active_exc__")[1]
                raise PyRaise(cur)
            e = self.eval(s.exc, env)
            if isinstance(e, type) and issubclass(e, BaseException):
                e = ExcVal(e, [])
            if not isinstance(e, ExcVal):
                raise Unsupported(f"raise of {e!r}")
            raise PyRaise(e)
        elif T is ast.Try:
            self.exec_try(s, env)
        elif T is ast.Assert:
            if not self.truth(self.eval(s.test, env)):
                self.raise_(AssertionError)
        elif T is ast.Pass:
            return
        elif T is ast.Break:
            raise _Break()
        elif T is ast.Continue:
            raise _Continue()
        elif T is ast.FunctionDef:
            f = FuncInfo(s, env.module, f"<local>.{s.name}")
            env.vars[s.name] = Closure(f, env)
        elif T in (ast.Import, ast.ImportFrom):
            g = {}
            self.loader._do_import(s, g)
            for k, v in g.items():
                env.vars[k] = self.loader.resolve_lazy(v)
        elif T is ast.Match:
            self.exec_match(s, env)
        elif T is ast.With:
            hook = getattr(ctx, "with_hook", None)
            if hook is None:
                raise Unsupported("with statement")
            hook(self, s, env)
        elif T is ast.Delete:
            for t in s.targets:
                if isinstance(t, ast.Subscript):
                    c = self.eval(t.value, env)
                    k = self.eval(t.slice, env)
                    if isinstance(c, (list, dict)) and is_concrete(k):
                        ctx.cwrites.append(id(c))
                        del c[k]
                        continue
                raise Unsupported("del")
        else:
            raise Unsupported(f"statement {T.__name__}")

    def exec_for_abstract(self, s, seq, env, orelse=True):
        """Hoare rule for `for x in seq` over an abstract sequence of unknown length (DESIGN.md 2.5).
        The loop contract (seq.contract) supplies the fold invariant:
          * step: havoc the accumulators to 'fold of an arbitrary prefix', bind x to an arbitrary element of
            every admissible kind, run the body ONCE, and check the accumulators equal step_spec(prefix, x);
            the path ends there (PathEnd).
          * exit: havoc the accumulators to 'fold of the whole sequence' and continue after the loop."""
        ctx = self.ctx
        c = seq.contract
        if c is None:
            raise Unsupported(f"loop over abstract sequence {seq.name} without a loop contract")
        ctx.stats["assumed_calls"][f"loop rule applied: {c.name}"] = ctx.stats["assumed_calls"].get(f"loop rule applied: {c.name}", 0) + 1
        c.check_entry(self, env, seq)
        kinds = c.element_kinds()
        # choose: verify preservation for one element kind, or take the exit
        for ki, kind in enumerate(kinds):
            if ctx.branch(z3.Bool(f"loop!{c.name}!step!{ki}")):
                c.havoc_prefix(self, env, seq)
                ctx.loop_kind = (c.name, kind)
                elem = c.make_element(self, kind, seq)
                for f in seq.maps:
                    elem = f(self, elem)
                self.assign(s.target, elem, env)
                broke = False
                try:
                    self.exec_block(s.body, env)
                except _Continue:
                    pass
                except _Break:
                    broke = True
                c.check_step(self, env, seq, kind, elem, broke)
                raise PathEnd()
        c.havoc_exit(self, env, seq)
        if orelse:
            self.exec_block(s.orelse, env)

    def exec_try(self, s, env):
        try:
            try:
                self.exec_block(s.body, env)
            except PyRaise as pr:
                exc = pr.exc
                for h in s.handlers:
                    if h.type is None:
                        match = True
                    else:
                        hc = self.eval(h.type, env)
                        hcs = hc if isinstance(hc, tuple) else (hc,)
                        match = any(isinstance(c, type) and issubclass(exc.cls, c) for c in hcs)
                    if match:
                        if h.name:
                            env.vars[h.name] = exc
                        env.vars["__active_exc__"] = exc
                        self.exec_block(h.body, env)
                        break
                else:
                    raise
            else:
                self.exec_block(s.orelse, env)
        finally:
            if s.finalbody:
                self.exec_block(s.finalbody, env)

    def exec_match(self, s, env):
        subj = self.eval(s.subject, env)
        for case in s.cases:
            if self.match_pattern(case.pattern, subj, env):
                if case.guard is not None and not self.truth(self.eval(case.guard, env)):
                    continue
                self.exec_block(case.body, env)
                return

    def match_pattern(self, p, subj, env):
        if isinstance(p, ast.MatchValue):
            v = self.eval(p.value, env)
            t = self.eq_term(subj, v)
            return t if isinstance(t, bool) else self.ctx.branch(t)
        if isinstance(p, ast.MatchOr):
            return any(self.match_pattern(q, subj, env) for q in p.patterns)
        if isinstance(p, ast.MatchAs):
            if p.pattern is not None and not self.match_pattern(p.pattern, subj, env):
                return False
            if p.name:
                env.vars[p.name] = subj
            return True
        if isinstance(p, ast.MatchSingleton):
            return subj is p.value
        raise Unsupported(f"match pattern {type(p).__name__}")

    def assign(self, t, v, env):
        T = type(t)
        if T is ast.Name:
            env.vars[t.id] = v
        elif T is ast.Attribute:
            self.setattr_(self.eval(t.value, env), t.attr, v)
        elif T in (ast.Tuple, ast.List):
            vals = self.iterate(v)
            if len(vals) != len(t.elts):
                self.raise_(ValueError, "unpack mismatch")
            for tt, vv in zip(t.elts, vals):
                self.assign(tt, vv, env)
        elif T is ast.Subscript:
            c = self.eval(t.value, env)
            if isinstance(t.slice, ast.Slice):
                if isinstance(c, list) and t.slice.lower is None and t.slice.upper is None:
                    self.ctx.cwrites.append(id(c))
                    c[:] = self.iterate(v)
                    return
                raise Unsupported("slice assignment")
            k = self.eval(t.slice, env)
            if isinstance(c, Obj):
                owner, m = c.cls.lookup("__setitem__")
                if isinstance(m, FuncInfo):
                    self.call(BoundMethod(c, m), [k, v], {})
                    return
            if isinstance(c, NativeAbs):
                return c.setitem(self, k, v)
            if isinstance(c, (list, dict)):
                if isinstance(k, Obj) or is_sym(k) or (isinstance(c, list) and isinstance(k, Tpl)) or \
                        (isinstance(k, tuple) and any(is_sym(x) or isinstance(x, Obj) for x in k)):
                    raise Unsupported("symbolic subscript store")
                if isinstance(c, dict):
                    self.dict_has(c, k)
                self.ctx.cwrites.append(id(c))
                try:
                    c[k] = v
                except Exception as e:
                    raise PyRaise(ExcVal(type(e), list(e.args)))
                return
            raise Unsupported(f"subscript store on {type(c).__name__}")
        else:
            raise Unsupported(f"assignment target {T.__name__}")

    # ------------------------------------------------------------------ expressions
    def eval(self, e, env):
        ctx = self.ctx
        ctx.count(e)
        T = type(e)
        if T is ast.Constant:
            return e.value
        if T is ast.Name:
            found, v = env.lookup(e.id)
            if found:
                return v
            g = env.module.globals
            if e.id in g:
                v = self.loader.resolve_lazy(g[e.id])
                if isinstance(v, tuple) and v and v[0] == "unevaluated":
                    v = self.eval(v[1], Env(env.module))
                    g[e.id] = v
                return v
            if hasattr(_builtins, e.id):
                return getattr(_builtins, e.id)
            self.raise_(NameError, f"name '{e.id}' is not defined")
        if T is ast.Attribute:
            return self.getattr_(self.eval(e.value, env), e.attr, e)
        if T is ast.Call:
            return self.eval_call(e, env)
        if T is ast.BoolOp:
            return self.eval_boolop(e, env)
        if T is ast.UnaryOp:
            v = self.eval(e.operand, env)
            if isinstance(e.op, ast.Not):
                t = self.truth_term(v)
                return (not t) if isinstance(t, bool) else SBool(z3.Not(t))
            if isinstance(e.op, ast.USub):
                return SInt(-to_z3_int(v)) if is_sym(v) else -v
            if isinstance(e.op, ast.UAdd):
                return SInt(to_z3_int(v)) if is_sym(v) else +v
            if isinstance(e.op, ast.Invert):
                return SInt(-to_z3_int(v) - 1) if is_sym(v) else ~v
        if T is ast.BinOp:
            return self.binop(e.op, self.eval(e.left, env), self.eval(e.right, env))
        if T is ast.Compare:
            return self.eval_compare(e, env)
        if T is ast.IfExp:
            return self.eval(e.body, env) if self.truth(self.eval(e.test, env)) else self.eval(e.orelse, env)
        if T is ast.JoinedStr:
            return self.eval_fstring(e, env)
        if T is ast.List:
            return self.eval_elts(e.elts, env)
        if T is ast.Tuple:
            return tuple(self.eval_elts(e.elts, env))
        if T is ast.Set:
            return set(self.eval_elts(e.elts, env))
        if T is ast.Dict:
            d = {}
            for k, v in zip(e.keys, e.values):
                if k is None:
                    d.update(self.eval(v, env))
                else:
                    d[self.eval(k, env)] = self.eval(v, env)
            return d
        if T is ast.Subscript:
            return self.eval_subscript(e, env)
        if T in (ast.ListComp, ast.GeneratorExp) and len(e.generators) == 1 and not e.generators[0].ifs:
            src = self.eval(e.generators[0].iter, env)
            if isinstance(src, AbsSeq):
                g = e.generators[0]

                def fn(it, x, g=g, e=e, env=env):
                    en = Env(env.module, env)
                    it.assign(g.target, x, en)
                    return it.eval(e.elt, en)
                return src.derive(fn)
            return self._listcomp(e, env, src)
        if T in (ast.ListComp, ast.GeneratorExp, ast.SetComp):
            out = []
            self.comp(e.generators, 0, env, lambda en: out.append(self.eval(e.elt, en)))
            return set(out) if T is ast.SetComp else out
        if T is ast.DictComp:
            d = {}

            def add(en):
                d[self.eval(e.key, en)] = self.eval(e.value, en)
            self.comp(e.generators, 0, env, add)
            return d
        if T is ast.Lambda:
            return LambdaV(e, env)
        if T is ast.Starred:
            raise Unsupported("starred expression")
        raise Unsupported(f"expression {T.__name__}")

    def _listcomp(self, e, env, src):
        out = []
        g = e.generators[0]
        for x in self.iterate(src):
            en = Env(env.module, env)
            self.assign(g.target, x, en)
            out.append(self.eval(e.elt, en))
        return out

    def eval_elts(self, elts, env):
        out = []
        for x in elts:
            if isinstance(x, ast.Starred):
                out.extend(self.iterate(self.eval(x.value, env)))
            else:
                out.append(self.eval(x, env))
        return out

    def comp(self, gens, i, env, emit):
        if i == len(gens):
            emit(env)
            return
        g = gens[i]
        for x in self.iterate(self.eval(g.iter, env)):
            en = Env(env.module, env)
            self.assign(g.target, x, en)
            if all(self.truth(self.eval(c, en)) for c in g.ifs):
                self.comp(gens, i + 1, en, emit)

    def eval_call(self, e, env):
        callee = self.eval(e.func, env)
        args = []
        for a in e.args:
            if isinstance(a, ast.Starred):
                args.extend(self.iterate(self.eval(a.value, env)))
            else:
                args.append(self.eval(a, env))
        kwargs = {}
        for k in e.keywords:
            if k.arg is None:
                kwargs.update(self.eval(k.value, env))
            else:
                kwargs[k.arg] = self.eval(k.value, env)
        return self.call(callee, args, kwargs)

    def eval_boolop(self, e, env):
        is_and = isinstance(e.op, ast.And)
        v = None
        for i, x in enumerate(e.values):
            v = self.eval(x, env)
            if i == len(e.values) - 1:
                return v
            t = self.truth(v)
            if is_and and not t:
                return v
            if (not is_and) and t:
                return v
        return v

    def eval_compare(self, e, env):
        left = self.eval(e.left, env)
        result = True
        for op, rn in zip(e.ops, e.comparators):
            right = self.eval(rn, env)
            r = self.compare(op, left, right)
            if len(e.ops) == 1:
                return r
            if not self.truth(r):
                return False
            left = right
            result = r
        return result

    def compare(self, op, a, b):
        T = type(op)
        if T is ast.Is:
            return self.identical(a, b)
        if T is ast.IsNot:
            return not self.identical(a, b)
        if T is ast.Eq:
            return self._wrap(self.eq_term(a, b))
        if T is ast.NotEq:
            if isinstance(a, Obj):
                owner, m = a.cls.lookup("__ne__")
                if isinstance(m, FuncInfo):
                    return self.call(BoundMethod(a, m), [b], {})
            t = self.eq_term(a, b)
            return (not t) if isinstance(t, bool) else SBool(z3.Not(t))
        if T is ast.In:
            return self._wrap(self.contains(a, b))
        if T is ast.NotIn:
            t = self.contains(a, b)
            return (not t) if isinstance(t, bool) else SBool(z3.Not(t))
        dunder = {ast.Lt: "__lt__", ast.Gt: "__gt__", ast.LtE: "__le__", ast.GtE: "__ge__"}[T]
        if isinstance(a, Obj):
            owner, m = a.cls.lookup(dunder)
            if isinstance(m, FuncInfo):
                return self.call(BoundMethod(a, m), [b], {})
            raise Unsupported(f"ordering of {a.cls.name}")
        if isinstance(b, Obj):
            refl = {"__lt__": "__gt__", "__gt__": "__lt__", "__le__": "__ge__", "__ge__": "__le__"}[dunder]
            owner, m = b.cls.lookup(refl)
            if isinstance(m, FuncInfo):
                return self.call(BoundMethod(b, m), [a], {})
            raise Unsupported("ordering")
        if is_sym(a) or is_sym(b):
            if isinstance(a, SFloat) or isinstance(b, SFloat):
                raise Unsupported("float ordering")
            x, y = to_z3_int(a), to_z3_int(b)
            return SBool({ast.Lt: x < y, ast.Gt: x > y, ast.LtE: x <= y, ast.GtE: x >= y}[T])
        if isinstance(a, SFloat) or isinstance(b, SFloat):
            raise Unsupported("float ordering")
        try:
            return {ast.Lt: lambda: a < b, ast.Gt: lambda: a > b, ast.LtE: lambda: a <= b, ast.GtE: lambda: a >= b}[T]()
        except TypeError as ex:
            self.raise_(TypeError, str(ex))

    @staticmethod
    def _wrap(t):
        return t if isinstance(t, bool) else SBool(t)

    @staticmethod
    def identical(a, b):
        if isinstance(a, (SInt, SBool)) or isinstance(b, (SInt, SBool)):
            if a is None or b is None:
                return False
            raise Unsupported("identity of symbolic scalars")
        return a is b

    def binop(self, op, a, b, inplace=False):
        T = type(op)
        if isinstance(a, NativeAbs) and hasattr(a, "binop"):
            return a.binop(self, T, b, False)
        if isinstance(b, NativeAbs) and hasattr(b, "binop"):
            if inplace and isinstance(a, list) and isinstance(b, (AbsSeq, AbsCat)):
                raise Unsupported("in-place extension of a list by an abstract sequence")
            return b.binop(self, T, a, True)
        if isinstance(a, (list,)) and T is ast.Add:
            if inplace:
                self.ctx.cwrites.append(id(a))
                a.extend(self.iterate(b))
                return a
            if not isinstance(b, list):
                self.raise_(TypeError, "can only concatenate list to list")
            return a + b
        if (is_strlike(a) or isinstance(a, Atom)) and T is ast.Add:
            if not (is_strlike(b) or isinstance(b, Atom)):
                self.raise_(TypeError, "can only concatenate str to str")
            if isinstance(a, str) and isinstance(b, str):
                return a + b
            return Tpl([a, b])
        if isinstance(a, str) and T is ast.Mult and isinstance(b, int):
            return a * b
        if isinstance(a, Obj) or isinstance(b, Obj):
            raise Unsupported("operator on heap objects")
        if isinstance(a, SFloat) or isinstance(b, SFloat) or isinstance(a, float) or isinstance(b, float):
            if is_sym(a) or is_sym(b) or isinstance(a, SFloat) or isinstance(b, SFloat):
                return SFloat()
        if is_sym(a) or is_sym(b):
            if T is ast.Div:
                d = to_z3_int(b)
                if self.ctx.branch(d == 0):
                    self.raise_(ZeroDivisionError, "division by zero")
                return SFloat()
            x, y = to_z3_int(a), to_z3_int(b)
            if T is ast.Add:
                return SInt(x + y)
            if T is ast.Sub:
                return SInt(x - y)
            if T is ast.Mult:
                return SInt(x * y)
            if T in (ast.FloorDiv, ast.Mod):
                if self.ctx.branch(y == 0):
                    self.raise_(ZeroDivisionError, "integer division or modulo by zero")
                # python floor semantics: z3 div/mod are Euclidean; for y>0 they coincide with floor
                # division, for y<0 use floor(x/y) = floor((-x)/(-y)).
                if T is ast.FloorDiv:
                    return SInt(z3.If(y > 0, x / y, (-x) / (-y)))
                return SInt(z3.If(y > 0, x % y, -((-x) % (-y))))
            if T is ast.BitAnd:
                # x & (2^k - 1) == x mod 2^k for Python's unbounded two's-complement ints (also for negative x); other masks are outside the subset
                for v, m in ((a, b), (b, a)):
                    if isinstance(m, int) and not isinstance(m, bool) and m >= 0 and (m & (m + 1)) == 0:
                        return SInt(to_z3_int(v) % (m + 1))
            raise Unsupported(f"symbolic operator {T.__name__}")
        try:
            if T is ast.Add:
                return a + b
            if T is ast.Sub:
                return a - b
            if T is ast.Mult:
                return a * b
            if T is ast.Div:
                return a / b
            if T is ast.FloorDiv:
                return a // b
            if T is ast.Mod:
                return a % b
            if T is ast.BitAnd:
                return a & b
            if T is ast.BitOr:
                return a | b
            if T is ast.BitXor:
                return a ^ b
            if T is ast.LShift:
                return a << b
            if T is ast.RShift:
                return a >> b
            if T is ast.Pow:
                return a ** b
        except Exception as ex:
            raise PyRaise(ExcVal(type(ex), list(ex.args)))
        raise Unsupported(f"operator {T.__name__}")

    def eval_fstring(self, e, env):
        parts = []
        for v in e.values:
            if isinstance(v, ast.Constant):
                parts.append(v.value)
            else:
                val = self.eval(v.value, env)
                spec = ""
                if v.format_spec is not None:
                    sp = self.eval_fstring(v.format_spec, env)
                    if not isinstance(sp, str):
                        raise Unsupported("symbolic format spec")
                    spec = sp
                parts.append(self.format_value(val, v.conversion, spec))
        if all(isinstance(p, str) for p in parts):
            return "".join(parts)
        return Tpl(parts)

    def format_value(self, val, conversion, spec):
        if conversion == ord("r"):
            val = self.repr_(val)
        elif conversion == ord("s"):
            val = self.str_(val)
        if isinstance(val, SFloat):
            if spec and spec[-1] in "xXdobc":
                self.raise_(ValueError, f"Unknown format code '{spec[-1]}' for object of type 'float'")
            return Atom("float", kind="str")
        if isinstance(val, SInt):
            if spec in ("", "d"):
                return val
            return Atom("int", meta={"term": val.t, "spec": spec}, kind="fmtint")
        if isinstance(val, SBool):
            if spec:
                raise Unsupported("format spec on symbolic bool")
            return Atom("bool", meta={"term": val.t}, kind="fmtbool")
        if is_strlike(val) or isinstance(val, Atom):
            if spec:
                raise Unsupported("format spec on string")
            return val
        if isinstance(val, NativeAbs):
            if spec:
                raise Unsupported("format spec on abstract value")
            return self.str_(val)
        if isinstance(val, (Obj, ExcVal, list, tuple, dict, ClassInfo)) and not is_concrete(val):
            if spec:
                raise Unsupported("format spec on object")
            return self.str_(val)
        try:
            return format(val, spec)
        except Exception as ex:
            raise PyRaise(ExcVal(type(ex), list(ex.args)))

    def str_(self, v):
        if isinstance(v, (str, Tpl, Atom)):
            return v
        if isinstance(v, NativeAbs) and hasattr(v, "to_str"):
            return v.to_str(self)
        if isinstance(v, Obj):
            if "__str__" in v.stubs:
                return v.stubs["__str__"](self, v, [], {})
            owner, m = v.cls.lookup("__str__")
            if isinstance(m, FuncInfo):
                return self.call(BoundMethod(v, m), [], {})
            return Atom(f"str({v!r})", kind="str")
        if isinstance(v, SInt):
            return Tpl([v])
        if isinstance(v, SBool):
            return Tpl([Atom("bool", meta={"term": v.t}, kind="fmtbool")])
        if isinstance(v, (list, tuple)) and not is_concrete(v):
            return Atom("str(list)", kind="str")
        if isinstance(v, ExcVal) and len(v.args) == 1 and isinstance(v.args[0], str) and not issubclass(v.cls, KeyError):
            return v.args[0]          # str(e) of an exception built with one message string
        if isinstance(v, (ExcVal, dict, ClassInfo, SFloat)):
            return Atom("str(obj)", kind="str")
        return str(v)

    def repr_(self, v):
        if is_concrete(v):
            return repr(v)
        return Atom("repr", kind="str")

    def eval_subscript(self, e, env):
        c = self.eval(e.value, env)
        if isinstance(e.slice, ast.Slice):
            lo = self.eval(e.slice.lower, env) if e.slice.lower is not None else None
            hi = self.eval(e.slice.upper, env) if e.slice.upper is not None else None
            st = self.eval(e.slice.step, env) if e.slice.step is not None else None
            if isinstance(c, (list, tuple, str)) and is_concrete([lo, hi, st]):
                return c[lo:hi:st]
            if isinstance(c, Tpl):
                hook = getattr(self.ctx, "tpl_slice_hook", None)
                if hook:
                    return hook(self, c, lo, hi, st)
            if isinstance(c, NativeAbs) and hasattr(c, "getslice"):
                return c.getslice(self, lo, hi, st)
            raise Unsupported("slice of symbolic value")
        k = self.eval(e.slice, env)
        if isinstance(c, Obj):
            owner, m = c.cls.lookup("__getitem__")
            if isinstance(m, FuncInfo):
                return self.call(BoundMethod(c, m), [k], {})
            raise Unsupported("subscript on heap object")
        if isinstance(c, NativeAbs):
            return c.getitem(self, k)
        if isinstance(c, ClassInfo) or c is list or c is dict or c is tuple:
            return c  # typing subscript like dict[str:SubRoutine]
        if isinstance(c, Tpl):
            if isinstance(k, int) and c.parts and isinstance(c.parts[0], str) and 0 <= k < len(c.parts[0]):
                return c.parts[0][k]
            if isinstance(k, int) and k < 0 and isinstance(c.parts[-1], str) and -k <= len(c.parts[-1]):
                return c.parts[-1][k]
            raise Unsupported("index into template")
        if isinstance(c, dict) and isinstance(k, (Tpl, Atom)):
            if isinstance(k, Atom):
                k = Tpl([k])
            if not self.dict_has(c, k):
                self.raise_(KeyError, k)
            return c[k]
        if isinstance(k, (Tpl, Obj, Atom)) or is_sym(k):
            raise Unsupported(f"symbolic subscript on {type(c).__name__}")
        if isinstance(c, dict):
            self.dict_has(c, k)
        try:
            return c[k]
        except Exception as ex:
            raise PyRaise(ExcVal(type(ex), list(ex.args)))


_MISSING = object()


def _load(t):
    t2 = _copy.copy(t)
    t2.ctx = ast.Load()
    return t2


class StubMethod:
    def __init__(self, obj, name, fn):
        self.obj = obj
        self.name = name
        self.fn = fn


class RealMethodOnObj:
    def __init__(self, obj, owner, name, fn):
        self.obj = obj
        self.owner = owner
        self.name = name
        self.fn = fn


class NativeAbs:
    """Base class for sidecar abstract values (abstract dicts, havocked files ...)."""
    pytype = None

    def getattr(self, it, name):
        raise Unsupported(f"{type(self).__name__}.{name}")

    def setattr(self, it, name, v):
        raise Unsupported(f"set {type(self).__name__}.{name}")

    def call(self, it, args, kwargs):
        raise Unsupported(f"call {type(self).__name__}")

    def iterate(self, it):
        raise Unsupported(f"iterate {type(self).__name__}")

    def getitem(self, it, k):
        raise Unsupported(f"getitem {type(self).__name__}")

    def setitem(self, it, k, v):
        raise Unsupported(f"setitem {type(self).__name__}")

    def contains(self, it, x):
        raise Unsupported(f"contains {type(self).__name__}")


class AbsSeq(NativeAbs):
    """Abstract sequence of unknown length n >= 0 (e.g. an argument list, the lines of a file); can only be
    iterated through a loop contract."""
    pytype = list

    def getitem(self, it, k):
        # xs[k] for a concrete k: an arbitrary element of the first admissible kind (the contract decides what an element is);
        # IndexError unless k < len(xs) on this path
        if not isinstance(k, int) or k < 0 or self.contract is None:
            raise Unsupported(f"subscript {k!r} on abstract sequence {self.name}")
        if not it.ctx.branch(self.length > k):
            it.raise_(IndexError, "list index out of range")
        el = self.contract.make_element(it, self.contract.element_kinds()[0], self)
        for f in self.maps:
            el = f(it, el)
        return el

    def __init__(self, name, contract=None, length=None):
        self.name = name
        self.length = z3.Int(f"len!{name}") if length is None else length
        self.contract = contract
        self.maps = []      # element-wise functions applied to the base element (comprehensions, imap, ...)
        self.meta = {}      # provenance (sorted_of / sorted_key / reverse) for contracts

    def hasattr(self, it, name):
        return hasattr([], name)

    def binop(self, it, T, other, reflected):
        # [items] + xs / xs + [items]: a new list with the known items in front / behind
        if T is not ast.Add or not isinstance(other, list):
            raise Unsupported("operator on abstract sequence")
        return AbsCat(self, [], list(other)) if reflected else AbsCat(self, list(other), [])

    def derive(self, fn, name=None):
        d = AbsSeq(name or (self.name + "'"), self.contract, self.length)
        d.maps = self.maps + [fn]
        return d

    def getattr(self, it, name):
        if name == "__len__":
            return SInt(self.length)
        raise Unsupported(f"{name} on abstract sequence {self.name}")

    def iterate(self, it):
        raise Unsupported(f"iteration over abstract sequence {self.name} outside a for statement")


class AbsAcc(NativeAbs):
    """List accumulator 'Fold(prefix) ++ tail': an opaque part described by ghost terms plus the concrete items
    appended during the iteration under verification."""
    pytype = list

    def __init__(self, name, ghost_len, ghost=None):
        self.name = name
        self.ghost_len = ghost_len      # z3 Int: length of the opaque part
        self.ghost = ghost or {}
        self.tail = []

    def getattr(self, it, name):
        if name == "append":
            return _AccMethod(self, "append")
        if name == "extend":
            return _AccMethod(self, "extend")
        if name == "__len__":
            return SInt(self.ghost_len + len(self.tail))
        raise Unsupported(f"list.{name} on accumulator {self.name}")

    def iterate(self, it):
        raise Unsupported(f"iteration over accumulator {self.name}")

    def binop(self, it, T, other, reflected):
        # acc + other / acc += other: an accumulator denoting the concatenation (ghost)
        if T is not ast.Add:
            raise Unsupported("operator on accumulator")
        parts = [other, self] if reflected else [self, other]
        r = AbsAcc(f"({parts[0]!r}++{parts[1]!r})", z3.IntVal(0), {"concat": parts})
        return r


class _AccMethod(NativeAbs):
    def __init__(self, acc, name):
        self.acc = acc
        self.name = name

    def call(self, it, args, kwargs):
        it.ctx.cwrites.append(id(self.acc))
        if self.name == "append":
            self.acc.tail.append(args[0])
        elif isinstance(args[0], AbsAcc):
            self.acc.tail.append(("splice", args[0]))
        else:
            self.acc.tail.extend(it.iterate(args[0]))
        return None


class AbsAccDict(NativeAbs):
    """dict accumulator: opaque part (ghost) plus the entries written during the iteration under verification"""
    pytype = dict

    def __init__(self, name, ghost=None):
        self.name = name
        self.ghost = ghost or {}
        self.tail = []      # list of (key, value) in write order

    def getattr(self, it, name):
        if name == "update":
            return _AccDictUpdate(self)
        raise Unsupported(f"dict.{name} on accumulator {self.name}")

    def setitem(self, it, k, v):
        it.ctx.cwrites.append(id(self))
        self.tail.append((k, v))


class _AccDictUpdate(NativeAbs):
    def __init__(self, acc):
        self.acc = acc

    def call(self, it, args, kwargs):
        it.ctx.cwrites.append(id(self.acc))
        d = args[0]
        if isinstance(d, dict):
            self.acc.tail.extend(d.items())
            return None
        raise Unsupported("update of accumulator with abstract dict")


class AbsCat(NativeAbs):
    """Abstract list `base ++ tail`: an abstract sequence of unknown length followed by concretely known items
    (what `xs = sorted(abstract); xs.append(e)` builds).  xs[-k] reads the tail, xs[:-k] drops it; the list can only be
    iterated once the tail has been sliced off (then it is the base sequence and its loop contract applies)."""
    pytype = list

    def __init__(self, base, tail=(), head=()):
        self.base = base
        self.tail = list(tail)
        self.head = list(head)      # concretely known items in front (what `[x] + abstract` builds)

    def binop(self, it, T, other, reflected):
        if T is not ast.Add or not isinstance(other, list):
            raise Unsupported("operator on abstract list")
        if reflected:
            return AbsCat(self.base, self.tail, list(other) + self.head)
        return AbsCat(self.base, self.tail + list(other), self.head)

    def getattr(self, it, name):
        if name == "append":
            return _NativeFn(lambda it_, args, kw: self.tail.append(args[0]))
        raise Unsupported(f"list.{name} on abstract list {self.base.name} ++ {len(self.tail)} items")

    def getitem(self, it, k):
        if isinstance(k, int) and k < 0 and -k <= len(self.tail):
            return self.tail[k]
        if isinstance(k, int) and 0 <= k < len(self.head):
            return self.head[k]
        raise Unsupported(f"subscript {k!r} on abstract list {self.base.name} ++ {len(self.tail)} items")

    def getslice(self, it, lo, hi, st):
        if lo is None and st is None and isinstance(hi, int) and hi < 0 and -hi <= len(self.tail):
            rest = self.tail[:hi]
            return AbsCat(self.base, rest, self.head) if (rest or self.head) else self.base
        raise Unsupported(f"slice [{lo}:{hi}:{st}] of abstract list {self.base.name} ++ {len(self.tail)} items")

    def iterate(self, it):
        raise Unsupported("iteration over an abstract list with a concrete tail")

    def __repr__(self):
        return f"AbsCat({self.head!r} ++ {self.base.name} ++ {self.tail!r})"


class _NativeFn(NativeAbs):
    def __init__(self, fn):
        self.fn = fn

    def call(self, it, args, kwargs):
        return self.fn(it, args, kwargs)


class LoopContract:
    """Fold invariant of one loop; subclassed in the sidecar contracts."""
    name = "loop"

    def element_kinds(self):
        return ["any"]

    def check_entry(self, it, env, seq):
        pass

    def havoc_prefix(self, it, env, seq):
        raise NotImplementedError

    def make_element(self, it, kind, seq):
        raise NotImplementedError

    def check_step(self, it, env, seq, kind, elem, broke):
        raise NotImplementedError

    def havoc_exit(self, it, env, seq):
        raise NotImplementedError

    def oblige(self, it, name, inst, goal, detail=""):
        it.ctx.obligations.append((name, inst, goal, detail))


NATIVE_STUBBABLE = {"deepcopy"}


# ---------------------------------------------------------------------- builtins
def _b_len(it, args, kw):
    (v,) = args
    if isinstance(v, AbsList):
        return SInt(v.length)
    if isinstance(v, NativeAbs):
        return v.getattr(it, "__len__")
    if isinstance(v, Tpl):
        hook = getattr(it.ctx, "tpl_len_hook", None)
        if hook:
            return hook(it, v)
        raise Unsupported("len of template")
    if isinstance(v, Obj):
        owner, m = v.cls.lookup("__len__")
        if isinstance(m, FuncInfo):
            return it.call(BoundMethod(v, m), [], {})
        it.raise_(TypeError, "object has no len()")
    try:
        return len(v)
    except TypeError as e:
        it.raise_(TypeError, str(e))


def _isinstance1(it, v, c):
    if isinstance(c, ClassInfo):
        return isinstance(v, Obj) and v.cls.is_subclass_of(c)
    if isinstance(c, PropInfo):
        return False
    if not isinstance(c, type):
        # typing constructs such as list[str]
        origin = getattr(c, "__origin__", None)
        if origin is None:
            raise Unsupported(f"isinstance with {c!r}")
        c = origin
    if isinstance(v, Obj):
        return any(b is c for b in v.cls.compute_mro() if not isinstance(b, ClassInfo))
    if isinstance(v, (Tpl, Atom)):
        return issubclass(str, c)
    if isinstance(v, SInt):
        return issubclass(int, c)
    if isinstance(v, SBool):
        return issubclass(bool, c)
    if isinstance(v, SFloat):
        return issubclass(float, c)
    if isinstance(v, ExcVal):
        return issubclass(v.cls, c)
    if isinstance(v, AbsList):
        return issubclass(list, c)
    if isinstance(v, NativeAbs):
        py = getattr(v, "pytype", None)
        return py is not None and issubclass(py, c)
    if isinstance(v, (BoundMethod, Closure, LambdaV, FuncInfo, ClassInfo)):
        return False
    return isinstance(v, c)


def _b_isinstance(it, args, kw):
    v, c = args
    cs = c if isinstance(c, tuple) else (c,)
    return any(_isinstance1(it, v, x) for x in cs)


def _b_hasattr(it, args, kw):
    v, name = args
    if isinstance(v, Obj):
        if name in v.fields or name in v.stubs:
            return True
        owner, m = v.cls.lookup(name)
        if m is not None:
            return True
        hook = v.ghost.get("hasattr_hook")
        if hook:
            return hook(it, v, name)
        return False
    if isinstance(v, (Tpl, Atom)):
        return hasattr("", name)
    if isinstance(v, (SInt, SBool)):
        return hasattr(0, name)
    if isinstance(v, NativeAbs):
        h = getattr(v, "hasattr", None)
        if h:
            return h(it, name)
        raise Unsupported("hasattr on abstract value")
    if isinstance(v, list) or isinstance(v, tuple) or isinstance(v, dict):
        return hasattr(type(v)(), name)
    return hasattr(v, name)


def _b_getattr(it, args, kw):
    if len(args) == 3:
        v, name, d = args
        if not _b_hasattr(it, [v, name], {}):
            return d
        return it.getattr_(v, name)
    v, name = args
    return it.getattr_(v, name)


def _b_setattr(it, args, kw):
    v, name, val = args
    it.setattr_(v, name, val)


def _b_str(it, args, kw):
    if not args:
        return ""
    return it.str_(args[0])


def _b_int(it, args, kw):
    if args and isinstance(args[0], NativeAbs) and hasattr(args[0], "as_int"):
        return args[0].as_int(it, *args[1:])
    if len(args) == 1 and isinstance(args[0], (SInt, SBool)):
        return SInt(to_z3_int(args[0]))
    if any(isinstance(a, (Tpl, Atom)) for a in args):
        hook = getattr(it.ctx, "int_hook", None)
        if hook:
            return hook(it, args)
        raise Unsupported("int() of template")
    if isinstance(args[0], SFloat):
        raise Unsupported("int(float)")
    try:
        return int(*args)
    except Exception as e:
        raise PyRaise(ExcVal(type(e), list(e.args)))


def _b_bool(it, args, kw):
    if not args:
        return False
    t = it.truth_term(args[0])
    return t if isinstance(t, bool) else SBool(t)


def _b_hex(it, args, kw):
    (v,) = args
    if isinstance(v, SFloat) or isinstance(v, float):
        it.raise_(TypeError, "'float' object cannot be interpreted as an integer")
    if isinstance(v, SInt):
        return Tpl([Atom("int", meta={"term": v.t, "spec": "hex"}, kind="fmtint")])
    return hex(v)


def _b_sorted(it, args, kw):
    if isinstance(args[0], AbsSeq):
        # sorted(abstract): a new list, a permutation of the argument ordered by the key; only its provenance is known
        src = args[0]
        out = AbsSeq(f"sorted({src.name})", src.contract, src.length)
        out.maps = list(src.maps)
        out.meta = {"sorted_of": src, "sorted_key": kw.get("key"), "reverse": kw.get("reverse", False)}
        return AbsCat(out, [])
    seq = list(it.iterate(args[0]))
    key = kw.get("key")
    rev = kw.get("reverse", False)
    if key is None:
        if is_concrete(seq):
            return sorted(seq, reverse=rev)
        raise Unsupported("sorted of symbolic values without key")
    keys = [it.call(key, [x], {}) for x in seq]
    if not is_concrete(keys):
        hook = getattr(it.ctx, "sorted_hook", None)
        if hook:
            return hook(it, seq, keys, rev)
        raise Unsupported("sorted with symbolic keys")
    idx = sorted(range(len(seq)), key=lambda i: keys[i], reverse=rev)
    return [seq[i] for i in idx]


def _b_minmax(which):
    def f(it, args, kw):
        vals = list(args) if len(args) > 1 else list(it.iterate(args[0]))
        if is_concrete(vals):
            return which(vals)
        r = vals[0]
        for v in vals[1:]:
            x, y = to_z3_int(r), to_z3_int(v)
            r = SInt(z3.If(x <= y, x, y) if which is min else z3.If(x >= y, x, y))
        return r
    return f


def _b_list(it, args, kw):
    if not args:
        return []
    if isinstance(args[0], AbsSeq):
        src = args[0]
        out = AbsSeq(f"list({src.name})", src.contract, src.length)
        out.maps = list(src.maps)
        out.meta = {"copy_of": src}
        return AbsCat(out, [])
    return list(it.iterate(args[0]))


def _b_tuple(it, args, kw):
    if not args:
        return ()
    return tuple(it.iterate(args[0]))


def _b_set(it, args, kw):
    if not args:
        return set()
    return set(it.iterate(args[0]))


def _b_dict(it, args, kw):
    d = {}
    if args:
        src = args[0]
        if isinstance(src, dict):
            d.update(src)
        else:
            for k, v in it.iterate(src):
                d[k] = v
    d.update(kw)
    return d


def _b_any(it, args, kw):
    for x in it.iterate(args[0]):
        if it.truth(x):
            return True
    return False


def _b_all(it, args, kw):
    for x in it.iterate(args[0]):
        if not it.truth(x):
            return False
    return True


def _b_sum(it, args, kw):
    acc = args[1] if len(args) > 1 else 0
    for x in it.iterate(args[0]):
        acc = it.binop(ast.Add(), acc, x)
    return acc


def _b_enumerate(it, args, kw):
    start = args[1] if len(args) > 1 else kw.get("start", 0)
    if isinstance(args[0], AbsSeq):
        seq = args[0]
        c = seq.contract
        if c is None or not hasattr(c, "index_term"):
            raise Unsupported("enumerate over an abstract sequence whose contract has no index term")
        return seq.derive(lambda it_, x: (SInt(c.index_term() + start) if start else SInt(c.index_term()), x), seq.name + ".enum")
    return [(i + start, x) for i, x in enumerate(it.iterate(args[0]))]


def _b_zip(it, args, kw):
    seqs = [a.abs_seq if hasattr(a, "abs_seq") else a for a in args]
    if any(isinstance(a, AbsSeq) for a in seqs):
        # zip of abstract sequences that share one loop contract: the contract's element is the zipped tuple
        if not all(isinstance(a, AbsSeq) for a in seqs) or len({id(a.contract) for a in seqs}) != 1:
            raise Unsupported("zip of abstract sequences with different loop contracts")
        z = AbsSeq("zip(" + ",".join(a.name for a in seqs) + ")", seqs[0].contract, seqs[0].length)
        return z
    return list(zip(*[it.iterate(a) for a in args]))


def _b_range(it, args, kw):
    if not is_concrete(args):
        return SymRange(args)
    return range(*args)


class SymRange(NativeAbs):
    def __init__(self, args):
        self.args = args

    def contains(self, it, x):
        a = self.args
        lo, hi = (0, a[0]) if len(a) == 1 else (a[0], a[1])
        return z3.And(to_z3_int(x) >= to_z3_int(lo), to_z3_int(x) < to_z3_int(hi))


def _b_dir(it, args, kw):
    (v,) = args
    if isinstance(v, Obj):
        names = set(v.fields) | set(v.stubs)
        for c in v.cls.compute_mro():
            if isinstance(c, ClassInfo):
                names |= set(c.methods) | set(c.attr_exprs)
            else:
                names |= set(dir(c))
        return sorted(names)
    if isinstance(v, (Tpl, Atom)):
        return dir("")
    return dir(v)


def _b_type(it, args, kw):
    (v,) = args
    if isinstance(v, Obj):
        return v.cls
    if isinstance(v, ExcVal):
        return v.cls
    if isinstance(v, (Tpl, Atom)):
        return str
    if isinstance(v, SInt):
        return int
    if isinstance(v, SBool):
        return bool
    return type(v)


def _b_deepcopy(it, args, kw):
    memo = {}

    def cp(v):
        if isinstance(v, Obj):
            if v.oid in memo:
                return memo[v.oid]
            o = Obj(v.cls)
            memo[v.oid] = o
            o.stubs = dict(v.stubs)
            o.ghost = dict(v.ghost)
            for k, x in v.fields.items():
                o.fields[k] = cp(x)
            return o
        if isinstance(v, list):
            return [cp(x) for x in v]
        if isinstance(v, tuple):
            return tuple(cp(x) for x in v)
        if isinstance(v, dict):
            return {k: cp(x) for k, x in v.items()}
        if isinstance(v, set):
            return {cp(x) for x in v}
        if isinstance(v, (SInt, SBool, Tpl, Atom, str, int, bool, type(None), float)):
            return v
        if isinstance(v, enum.Enum):
            return v
        return _copy.deepcopy(v)
    return cp(args[0])


def _b_ceil(it, args, kw):
    (v,) = args
    if isinstance(v, SFloat):
        raise Unsupported("ceil of symbolic float")
    return math.ceil(v)


def _b_issubclass(it, args, kw):
    a, b = args
    if isinstance(a, ClassInfo):
        bs = b if isinstance(b, tuple) else (b,)
        return any(x in a.compute_mro() for x in bs)
    return issubclass(a, b)


def _b_abs(it, args, kw):
    (v,) = args
    if isinstance(v, SInt):
        return SInt(z3.If(v.t >= 0, v.t, -v.t))
    return abs(v)


def _b_divmod(it, args, kw):
    a, b = args
    if is_concrete([a, b]):
        try:
            return divmod(a, b)
        except ZeroDivisionError as e:
            it.raise_(ZeroDivisionError, str(e))
    # Python's definition: (a // b, a % b), through the interpreter's own floor-division and modulo (they raise for b == 0)
    return (it.binop(ast.FloorDiv(), a, b), it.binop(ast.Mod(), a, b))


class _SuperInit(NativeAbs):
    def call(self, it, args, kwargs):
        it.ctx.stats["assumed_calls"]["super().__init__ of an external base class has no effect on repository state (T-LARK)"] = 1
        return None


class _SuperProxy(NativeAbs):
    def getattr(self, it, name):
        if name == "__init__":
            return _SuperInit()
        raise Unsupported(f"super().{name}")


def _b_super(it, args, kw):
    # zero-argument super() is only used by RZILTransformer.__init__ -> lark.Transformer.__init__
    if args:
        raise Unsupported("super(args)")
    return _SuperProxy()


BUILTIN_HANDLERS = {
    len: _b_len, isinstance: _b_isinstance, hasattr: _b_hasattr, getattr: _b_getattr, setattr: _b_setattr,
    str: _b_str, int: _b_int, bool: _b_bool, hex: _b_hex, sorted: _b_sorted, min: _b_minmax(min),
    max: _b_minmax(max), list: _b_list, tuple: _b_tuple, set: _b_set, dict: _b_dict, any: _b_any, all: _b_all,
    sum: _b_sum, enumerate: _b_enumerate, zip: _b_zip, range: _b_range, dir: _b_dir, type: _b_type,
    _copy.deepcopy: _b_deepcopy, math.ceil: _b_ceil, issubclass: _b_issubclass, abs: _b_abs, super: _b_super, divmod: _b_divmod,
}


# ---------------------------------------------------------------------- driver
class Path:
    def __init__(self, ctx, state, outcome, value):
        self.ctx = ctx
        self.state = state
        self.outcome = outcome   # "return" | "raise"
        self.value = value


class Exploration:
    def __init__(self):
        self.paths = []
        self.undecided = []   # (decisions, reason)
        self.infeasible = 0
        self.capped = False


def explore(loader, setup, run, contracts=None, target=None, max_paths=4096, configure=None) -> Exploration:
    """Enumerates all feasible paths of run(it, state) where state = setup(it).

    setup/run are sidecar harness functions; `run` normally calls the function under
    verification through it.call(...).
    """
    ex = Exploration()
    work = [[]]
    while work:
        if len(ex.paths) + len(ex.undecided) >= max_paths:
            ex.capped = True
            break
        prefix = work.pop()
        ctx = Ctx(loader, prefix)
        ctx.contracts.update(contracts or {})
        ctx.target = target
        if configure:
            configure(ctx)
        it = Interp(ctx)
        try:
            state = setup(it)
            try:
                v = run(it, state)
                p = Path(ctx, state, "return", v)
            except PyRaise as pr:
                p = Path(ctx, state, "raise", pr.exc)
            if not ctx.check():
                ex.infeasible += 1
            else:
                ex.paths.append(p)
        except PathEnd:
            if ctx.check():
                ex.paths.append(Path(ctx, None, "loop-step", None))
            else:
                ex.infeasible += 1
        except Infeasible:
            ex.infeasible += 1
        except Unsupported as u:
            ex.undecided.append((list(ctx.decisions), str(u)))
        except (_Return, _Break, _Continue) as e:
            ex.undecided.append((list(ctx.decisions), f"stray control flow {type(e).__name__}"))
        ctx.finalize_stats()
        work.extend(ctx.alternatives)
    return ex
