"""Reads the real sources under /repo on every invocation and builds the class table.

Nothing is copied or rewritten: the interpreter executes the `ast` of the files as they are in
the working tree.  `overlay` (path -> source text) is used only by the in-memory mutant
self-test (DESIGN.md section 2.9).
"""
from __future__ import annotations
import ast
import enum
import hashlib
import importlib
import os
import sys

REPO = os.environ.get("RZIL_REPO", "/repo")
PKG = "rzilcompiler"


def _is_cache_decorator(d):
    """functools.cache / functools.lru_cache(...) / cache / lru_cache: memoisation (process-wide hidden state)"""
    if isinstance(d, ast.Call):
        d = d.func
    name = d.attr if isinstance(d, ast.Attribute) else (d.id if isinstance(d, ast.Name) else None)
    return name in ("cache", "lru_cache", "cached_property")


class FuncInfo:
    cached = False

    def __init__(self, node, module, qualname, cls=None, kind="function"):
        self.node = node
        self.module = module
        self.qualname = qualname
        self.cls = cls
        self.kind = kind  # function | staticmethod | classmethod | getter | setter
        self.name = node.name

    def __repr__(self):
        return f"<func {self.qualname}>"


class PropInfo:
    def __init__(self, name):
        self.name = name
        self.getter = None
        self.setter = None


class ClassInfo:
    def __init__(self, node, module):
        self.node = node
        self.module = module
        self.name = node.name
        self.qualname = f"{module.name}.{node.name}"
        self.bases = []        # ClassInfo or real python classes
        self.methods = {}      # name -> FuncInfo | PropInfo
        self.attr_exprs = {}   # name -> ast expr (class-level assignments)
        self.mro = None
        self.real = None

    def __repr__(self):
        return f"<class {self.qualname}>"

    def compute_mro(self):
        if self.mro is not None:
            return self.mro
        seqs = []
        for b in self.bases:
            if isinstance(b, ClassInfo):
                seqs.append(list(b.compute_mro()))
            else:
                seqs.append([c for c in b.__mro__])
        seqs.append(list(self.bases))
        res = [self]
        seqs = [s for s in seqs if s]
        while seqs:
            for s in seqs:
                cand = s[0]
                if not any(cand in t[1:] for t in seqs):
                    break
            else:
                raise TypeError(f"inconsistent MRO for {self.name}")
            res.append(cand)
            seqs = [[c for c in s if c is not cand] for s in seqs]
            seqs = [s for s in seqs if s]
        self.mro = res
        return res

    def lookup(self, name):
        """Returns (owner, member) following the MRO; member is FuncInfo/PropInfo/('attr', expr)
        or ('real', value) for attributes of real base classes."""
        for c in self.compute_mro():
            if isinstance(c, ClassInfo):
                if name in c.methods:
                    return c, c.methods[name]
                if name in c.attr_exprs:
                    return c, ("attr", c.attr_exprs[name])
            else:
                if name in c.__dict__:
                    return c, ("real", c.__dict__[name])
        return None, None

    def is_subclass_of(self, other):
        return other in self.compute_mro()


class ModuleInfo:
    def __init__(self, name, path, source):
        self.name = name
        self.path = path
        self.source = source
        self.sha = hashlib.sha256(source.encode()).hexdigest()[:16]
        self.tree = ast.parse(source, filename=path)
        self.globals = {}
        self.real = None
        self.loaded = False


class Loader:
    def __init__(self, repo=REPO, overlay=None, import_real=True, real_modules=None):
        self.repo = repo
        self.overlay = overlay or {}
        self.modules = {}
        self.import_real = import_real
        self.real_modules = real_modules or {}     # name -> already imported module (engine self-test)
        if repo not in sys.path:
            sys.path.insert(0, repo)

    def module_path(self, modname):
        rel = modname.replace(".", "/")
        p = os.path.join(self.repo, rel + ".py")
        if os.path.exists(p):
            return p
        p = os.path.join(self.repo, rel, "__init__.py")
        if os.path.exists(p):
            return p
        return None

    def is_repo_module(self, modname):
        return modname == PKG or modname.startswith(PKG + ".")

    def load(self, modname) -> ModuleInfo:
        if modname in self.modules:
            return self.modules[modname]
        path = self.module_path(modname)
        if path is None:
            raise ImportError(f"no repo module {modname}")
        rel = os.path.relpath(path, self.repo)
        if rel in self.overlay:
            src = self.overlay[rel]
        else:
            with open(path) as f:
                src = f.read()
        m = ModuleInfo(modname, path, src)
        self.modules[modname] = m
        if modname in self.real_modules:
            m.real = self.real_modules[modname]
        elif self.import_real:
            try:
                m.real = importlib.import_module(modname)
            except Exception as e:  # pragma: no cover
                m.real = None
                m.real_error = e
        self._populate(m)
        return m

    # ------------------------------------------------------------------
    def _populate(self, m: ModuleInfo):
        g = m.globals
        g["__name__"] = m.name
        # first pass: classes and functions (so that forward references inside bodies work)
        for node in m.tree.body:
            if isinstance(node, (ast.Import, ast.ImportFrom)):
                self._do_import(node, g)
            elif isinstance(node, ast.FunctionDef):
                fi = FuncInfo(node, m, f"{m.name}.{node.name}")
                for d in node.decorator_list:
                    if _is_cache_decorator(d):
                        fi.cached = True
                    else:
                        fi.kind = "unsupported-decorator"
                g[node.name] = fi
            elif isinstance(node, ast.ClassDef):
                g[node.name] = self._make_class(node, m)
            elif isinstance(node, ast.Assign):
                # module level constants: evaluated natively when possible
                real = m.real
                for t in node.targets:
                    if isinstance(t, ast.Name):
                        if real is not None and hasattr(real, t.id):
                            g[t.id] = getattr(real, t.id)
                        else:
                            try:
                                g[t.id] = ast.literal_eval(node.value)
                            except Exception:
                                g[t.id] = ("unevaluated", node.value)
            elif isinstance(node, ast.AnnAssign) and isinstance(node.target, ast.Name) and node.value is not None:
                try:
                    g[node.target.id] = ast.literal_eval(node.value)
                except Exception:
                    g[node.target.id] = ("unevaluated", node.value)
        m.loaded = True

    def _do_import(self, node, g):
        if isinstance(node, ast.Import):
            for a in node.names:
                name = a.asname or a.name.split(".")[0]
                if self.is_repo_module(a.name):
                    g[name] = self.load(a.name)
                else:
                    g[name] = importlib.import_module(a.name if a.asname else a.name.split(".")[0])
        else:
            modname = node.module
            if self.is_repo_module(modname):
                sub = self.load(modname)
                for a in node.names:
                    if a.name in sub.globals:
                        g[a.asname or a.name] = sub.globals[a.name]
                    else:
                        # circular import in progress: resolve lazily
                        g[a.asname or a.name] = ("lazy", modname, a.name)
            else:
                mod = importlib.import_module(modname)
                for a in node.names:
                    g[a.asname or a.name] = getattr(mod, a.name)

    def resolve_lazy(self, v):
        if isinstance(v, tuple) and len(v) == 3 and v[0] == "lazy":
            return self.load(v[1]).globals[v[2]]
        return v

    def _make_class(self, node, m):
        real_cls = getattr(m.real, node.name, None) if m.real is not None else None
        if real_cls is not None and isinstance(real_cls, type) and issubclass(real_cls, (enum.Enum, BaseException)):
            return real_cls  # hosted: enums and exception classes are the real ones
        c = ClassInfo(node, m)
        c.real = real_cls
        for b in node.bases:
            bv = self._eval_base(b, m)
            c.bases.append(bv)
        for st in node.body:
            if isinstance(st, ast.FunctionDef):
                kind = "function"
                prop = None
                cached = False
                for d in st.decorator_list:
                    if _is_cache_decorator(d):
                        cached = True
                    elif isinstance(d, ast.Name) and d.id == "staticmethod":
                        kind = "staticmethod"
                    elif isinstance(d, ast.Name) and d.id == "classmethod":
                        kind = "classmethod"
                    elif isinstance(d, ast.Name) and d.id == "property":
                        kind = "getter"
                    elif isinstance(d, ast.Attribute) and d.attr == "setter":
                        kind = "setter"
                    else:
                        kind = "unsupported-decorator"
                f = FuncInfo(st, m, f"{m.name}.{node.name}.{st.name}", cls=c, kind=kind)
                f.cached = cached
                if kind == "getter":
                    p = c.methods.get(st.name)
                    if not isinstance(p, PropInfo):
                        p = PropInfo(st.name)
                    p.getter = f
                    c.methods[st.name] = p
                elif kind == "setter":
                    p = c.methods.get(st.name)
                    if not isinstance(p, PropInfo):
                        p = PropInfo(st.name)
                    p.setter = f
                    c.methods[st.name] = p
                else:
                    c.methods[st.name] = f
            elif isinstance(st, ast.Assign):
                for t in st.targets:
                    if isinstance(t, ast.Name):
                        c.attr_exprs[t.id] = st.value
            elif isinstance(st, ast.AnnAssign) and isinstance(st.target, ast.Name):
                if st.value is not None:
                    c.attr_exprs[st.target.id] = st.value
        return c

    def _eval_base(self, b, m):
        if isinstance(b, ast.Name):
            v = m.globals.get(b.id)
            if v is None:
                import builtins
                v = getattr(builtins, b.id)
            v = self.resolve_lazy(v)
            return v
        if isinstance(b, ast.Attribute) and isinstance(b.value, ast.Name):
            base = m.globals[b.value.id]
            return getattr(base, b.attr)
        raise NotImplementedError(ast.dump(b))

    # convenience -------------------------------------------------------
    def get(self, dotted):
        """'rzilcompiler.Transformer.ValueType.c11_cast' or '...Cast.Cast.il_exec'"""
        parts = dotted.split(".")
        for i in range(len(parts), 0, -1):
            modname = ".".join(parts[:i])
            if self.module_path(modname) and not os.path.isdir(os.path.join(self.repo, modname.replace(".", "/"))):
                m = self.load(modname)
                v = m
                for p in parts[i:]:
                    if isinstance(v, ModuleInfo):
                        v = self.resolve_lazy(v.globals[p])
                    elif isinstance(v, ClassInfo):
                        owner, mem = v.lookup(p)
                        v = mem
                    else:
                        v = getattr(v, p)
                return v
        raise KeyError(dotted)

    def func_source_info(self, f: FuncInfo):
        seg = ast.get_source_segment(f.module.source, f.node) or ""
        return {
            "function": f.qualname,
            "file": os.path.relpath(f.module.path, self.repo),
            "lines": [f.node.lineno, f.node.end_lineno],
            "sha256": hashlib.sha256(seg.encode()).hexdigest()[:16],
        }
