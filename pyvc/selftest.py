"""Differential self-test of the engine (T-VCGEN): small Python programs that use the language features the contracts rely on
are executed (a) by CPython and (b) by the pyvc interpreter on the same concrete inputs; results, raised exception classes and the
final state of the returned objects must be identical.  Run at the start of every check (~0.3 s); a mismatch is exit 3 - the
interpreter misreads Python, nothing it proves can be believed.  This complements the native audit (real functions, sampled
models) with a fixed regression suite for the semantics that earlier rounds got wrong or that are easy to get wrong:
MRO / super-less base calls, properties, closures, try/finally, dict and tuple keys, default arguments, augmented assignment on
attributes, comprehensions, f-strings with side effects in evaluation order, enumerate / zip / sorted / min, string methods.
"""
from __future__ import annotations
import os
import shutil
import tempfile

SRC = r'''
import re
from enum import Enum, Flag, auto
from copy import deepcopy


class Color(Enum):
    RED = "r"
    BLUE = "b"


class G(Flag):
    A = auto()
    B = auto()
    C = auto()


class Base:
    registry = dict()

    def __init__(self, name, n=3):
        self.name = name
        self._n = n
        self.reads = 0
        self.log = list()

    @property
    def n(self):
        return self._n

    @n.setter
    def n(self, v):
        self.log.append(("set", v))
        self._n = v

    def read(self):
        self.reads += 1
        if self.reads <= 1:
            return self.name
        return f"DUP({self.name})"

    def kind(self):
        return "base"

    def describe(self):
        return f"{self.kind()}:{self.name}:{self.n}"

    def __eq__(self, other):
        return isinstance(other, Base) and self.name == other.name and self.n == other.n

    def __str__(self):
        return f"<{self.name}>"


class Mixin:
    def kind(self):
        return "mixin"

    def extra(self):
        return "x"


class Child(Mixin, Base):
    def __init__(self, name, m):
        Base.__init__(self, name, n=m * 2)
        self.m = m

    def describe(self):
        return "child/" + Base.describe(self) + "/" + self.extra()


class Other(Base):
    def kind(self):
        return "other"


def f_order(a):
    """left-to-right evaluation inside f-strings and call arguments (read counters)"""
    return f"{a.read()}+{a.read()}|{a.reads}" + ",".join([a.read() for _ in range(2)])


def f_mro(name, m):
    c = Child(name, m)
    o = Other(name)
    return [c.describe(), o.describe(), c.kind(), isinstance(c, Base), isinstance(c, Mixin), isinstance(o, Mixin), c == Child(name, m), c == o, c != o]


def f_prop(v):
    b = Base("p")
    b.n = v
    b.n += 2
    return b.n, b.log, b._n


def f_try(x):
    log = []
    try:
        try:
            if x == 0:
                raise ValueError("zero")
            if x == 1:
                raise KeyError("one")
            log.append("body")
        except ValueError as e:
            log.append("ve:" + str(e))
            if x == 0:
                raise NotImplementedError("re")
        finally:
            log.append("fin")
    except NotImplementedError:
        log.append("outer")
    except Exception as e:
        log.append("exc:" + type(e).__name__)
    return log


def f_raise(x):
    if x > 2:
        raise IndexError("big")
    return [1, 2, 3][x]


def f_dict(keys):
    d = dict()
    for i, k in enumerate(keys):
        if k in d:
            d[k] += i
        else:
            d[k] = i
    t = {(1, True): "a", (1, False): "b"}
    return d, list(d.keys()), t.get((1, bool(len(keys) % 2))), sorted(d.items(), key=lambda kv: -kv[1])[:2], min(d.values()) if d else None


def f_default(a, b=[], *, c=5):
    b = list(b)
    b.append(a + c)
    return b


def f_closure(n):
    acc = []

    def add(x):
        acc.append(x * n)
        return len(acc)
    r = [add(i) for i in range(3)]
    return r, acc, (lambda y: y + n)(1)


def f_str(s):
    m = re.search(r"(\w+)_(\d+)$", s)
    return s.upper(), s.replace(":", "_"), s.split("_"), s.startswith("op"), s[1:-1], s[-1], (m.group(1), int(m.group(2))) if m else None, "%s-%d" % (s, 3), s.lower().strip()


def f_enum(x):
    c = Color(x)
    g = G.A | G.C
    return c, c == Color.RED, c.name, bool(g & G.A), bool(g & G.B), (g | G.B) & ~G.A == G.B | G.C


def f_copy(n):
    a = Base("a", n)
    b = deepcopy(a)
    b.n = n + 1
    c = a
    c.name = "c"
    return a.name, a.n, b.name, b.n, a is c, a is b, a == b


def f_zip(xs, ys):
    out = []
    for i, (x, y) in enumerate(zip(xs, ys)):
        if i > 0 and x == y:
            continue
        if x < 0:
            break
        out.append((i, x + y))
    else:
        out.append("done")
    return out, [x for x in xs if x % 2 == 0], {x: y for x, y in zip(xs, ys)}, any(x > 2 for x in xs), all(y for y in ys), sum(xs), max(xs + [0])


def f_int(a, b):
    return a // b, a % b, -a // b, a >> 1, a << 2, a & b, a | b, a ^ b, ~a, divmod(a, b), abs(-a), int("0x1f", 16), int("17"), hex(a), a ** 2, bool(a), a / b == a // b


def f_aug(xs):
    b = Base("z", 1)
    for x in xs:
        b.reads += x
        b.log += [x]
    s = ""
    for x in xs:
        if x:
            s += ", "
        s += str(x)
    return b.reads, b.log, s


def f_match(tok):
    match tok:
        case "a" | "b":
            return 1
        case Color.RED:
            return 2
        case _:
            return 3


def f_classattr(k):
    Base.registry[k] = k * 2
    x = Other("o")
    return x.registry is Base.registry, sorted(Base.registry.items()), hasattr(x, "extra"), "read" in dir(x), getattr(x, "missing", 7)


_memo = dict()


def f_memo(a, b):
    key = (a > 0, b > 0, max(a, b))
    if key in _memo:
        return ("hit", _memo[key])
    _memo[key] = a + b
    return ("miss", a + b)


def f_memo2(pairs):
    return [f_memo(a, b) for a, b in pairs], sorted(_memo.items())


def f_set(xs):
    s = set()
    out = []
    for x in xs:
        if x in s:
            out.append(("dup", x))
        s.add(x)
    fs = frozenset(xs)
    return out, sorted(s), len(fs), 3 in s, s & {1, 2}, sorted(s - {1}), sorted(s | {99})


def f_objs(n):
    xs = [Base("a", 1), Base("b", 2), Other("a", 1)]
    probe = Base("a", n)
    return probe in xs, xs.index(Base("b", 2)), xs.count(Base("a", 1)), [str(x) for x in xs if x == probe], xs[-1].kind(), xs[1:][0].name, len(xs[:-1]), sorted(xs, key=lambda o: (o.n, o.name))[0].name


def f_fmt(v, name):
    return f"{v:#x}", f"{v:>6}|{name:<5}|", f"{v!r}", "%#x" % v, "{} {}".format(name, v), f"{v if v > 3 else -v}", f"{name!s:>4}", str(v) + name * 2, f"{'IL_TRUE' if v else 'IL_FALSE'}"


def f_cmp(a, b, c):
    x = None if a == b else a
    return a < b < c, a < b > c, x is None, x is not None, a if a > b else b, not (a and b), (a or c), (a and c), a == b == c, [a, b] < [b, c], (a, "x") == (a, "x"), min(a, b, c), max([a, b, c])


def f_while(n):
    i, out = 0, []
    while i < n:
        i += 1
        if i == 2:
            continue
        if i == 5:
            break
        out.append(i)
    else:
        out.append("end")
    return out, i


def f_nested(d):
    r = {}
    for k, v in d.items():
        r.setdefault(len(k), []).append(v)
    flat = [y for x in r.values() for y in x]
    keys = [k for k in d if k not in ("skip",)]
    d2 = dict(d)
    d2.update({"new": 1})
    d2.pop(keys[0])
    last = d2.popitem()
    r["last"] = [last]
    return r, flat, keys, sorted(d2), list(reversed(keys)), dict(zip(keys, range(len(keys)))), tuple(d.values())


class Holder:
    def __init__(self):
        self.ops = dict()
        self.count = 0

    def add(self, op):
        if op.name in self.ops:
            return self.ops[op.name]
        op.num = self.count
        self.count += 1
        self.ops[op.name] = op
        return op

    def clear(self):
        self.ops.clear()
        self.count = 0


def f_lists(xs, a, b):
    st = []
    for x in xs:
        st.append(sorted([x + 2, x, x + 1], key=lambda v: -v))
        st[-1].append(x * 10)
    heads = [s[:-1] for s in st]
    lasts = [s[-1] for s in st]
    flat = [a] + [v * 2 for v in xs]
    txt = ", ".join(str(o) for o in xs) + "|" + "; ".join([str(o) for o in list(xs)])
    q = abs(a) // abs(b)
    if (a < 0) != (b < 0):
        q = -q
    return heads, lasts, flat, txt, q, xs[::2], list(reversed(xs))


def f_holder(names):
    h = Holder()
    got = [h.add(Base(n)) for n in names]
    first = got[0]
    same = [g is first for g in got]
    nums = [g.num for g in got]
    h.clear()
    return same, nums, h.count, len(h.ops), first.num
'''

CASES = [("f_order", lambda m: [m.Base("v")]), ("f_mro", lambda m: ["q", 4]), ("f_prop", lambda m: [5]), ("f_try", lambda m: [0]), ("f_try", lambda m: [1]),
         ("f_try", lambda m: [2]), ("f_raise", lambda m: [1]), ("f_raise", lambda m: [3]), ("f_dict", lambda m: [["a", "b", "a", "c", "b", "a"]]),
         ("f_dict", lambda m: [[]]), ("f_default", lambda m: [1]), ("f_default", lambda m: [2, [9]]), ("f_closure", lambda m: [3]), ("f_str", lambda m: ["op_ADD:x_12"]),
         ("f_str", lambda m: ["plain"]), ("f_enum", lambda m: ["r"]), ("f_enum", lambda m: ["q"]), ("f_copy", lambda m: [4]), ("f_zip", lambda m: [[1, 2, 2, 4], [1, 5, 2, 0]]),
         ("f_zip", lambda m: [[1, -2, 3], [3, 3, 3]]), ("f_int", lambda m: [-7, 2]), ("f_int", lambda m: [12, 5]), ("f_aug", lambda m: [[0, 1, 2]]), ("f_match", lambda m: ["b"]),
         ("f_match", lambda m: ["zz"]), ("f_classattr", lambda m: [3]),
         ("f_memo2", lambda m: [[(1, 2), (2, 1), (1, 2), (-1, 2), (2, 2)]]), ("f_set", lambda m: [[3, 1, 3, 2, 1]]), ("f_objs", lambda m: [1]), ("f_objs", lambda m: [2]),
         ("f_fmt", lambda m: [255, "ab"]), ("f_fmt", lambda m: [0, "x"]), ("f_cmp", lambda m: [1, 2, 3]), ("f_cmp", lambda m: [2, 2, 0]), ("f_while", lambda m: [3]),
         ("f_while", lambda m: [9]), ("f_nested", lambda m: [{"a": 1, "bb": 2, "c": 3, "skip": 4}]), ("f_holder", lambda m: [["x", "y", "x", "z"]]),
         ("f_lists", lambda m: [[3, 1, 2], -7, 2]), ("f_lists", lambda m: [[], 7, -2]), ("f_lists", lambda m: [[5], -9, -4])]


def _norm(v, depth=0):
    """structural view that is comparable across the two executions"""
    from .values import Obj, Tpl, SInt, SBool
    if depth > 6:
        return "..."
    if isinstance(v, Obj):
        return ("obj", v.cls.name, {k: _norm(x, depth + 1) for k, x in sorted(v.fields.items())})
    if isinstance(v, Tpl):
        return v.render() if not v.atoms() else ("tpl", v.render())
    if isinstance(v, (SInt, SBool)):
        return ("sym", str(v))
    if isinstance(v, (list, tuple)):
        return [_norm(x, depth + 1) for x in v]
    if isinstance(v, dict):
        return {str(_norm(k, depth + 1)): _norm(x, depth + 1) for k, x in v.items()}
    if isinstance(v, (set, frozenset)):
        return sorted(str(_norm(x, depth + 1)) for x in v)
    if hasattr(v, "__dict__") and type(v).__module__ == "rzilcompiler._selftest":
        return ("obj", type(v).__name__, {k: _norm(x, depth + 1) for k, x in sorted(vars(v).items())})
    return v


def run():
    """-> list of mismatch descriptions (empty = the engine agrees with CPython on the suite)"""
    import importlib.util
    from .loader import Loader
    from .interp import explore
    tmp = tempfile.mkdtemp(prefix="pyvc_selftest_")
    bad = []
    skipped = []
    try:
        os.makedirs(os.path.join(tmp, "rzilcompiler"))
        open(os.path.join(tmp, "rzilcompiler", "__init__.py"), "w").close()
        path = os.path.join(tmp, "rzilcompiler", "_selftest.py")
        with open(path, "w") as f:
            f.write(SRC)
        spec = importlib.util.spec_from_file_location("rzilcompiler._selftest", path)
        real = importlib.util.module_from_spec(spec)
        spec.loader.exec_module(real)
        for name, mk in CASES:
            # native
            real.Base.registry.clear()
            real._memo.clear()
            try:
                want = ("return", _norm(getattr(real, name)(*mk(real))))
            except Exception as e:
                want = ("raise", type(e).__name__)
            real.Base.registry.clear()
            real._memo.clear()          # module-level objects are shared with the hosted module: start clean, as a fresh process does
            # interpreted (fresh loader: module-level state starts clean)
            loader = Loader(repo=tmp, import_real=False, real_modules={"rzilcompiler._selftest": real})   # enums are hosted, as for /repo
            m = loader.load("rzilcompiler._selftest")

            def setup(it, name=name, mk=mk):
                class _M:      # gives the case builders the interpreted classes
                    @staticmethod
                    def Base(*a):
                        return it.call(m.globals["Base"], list(a), {})
                return mk(_M)
            ex = explore(loader, setup, lambda it, args, name=name: it.call(m.globals[name], list(args), {}))
            if ex.undecided or len(ex.paths) != 1:
                got = ("undecided", [u[1] for u in ex.undecided][:2] or f"{len(ex.paths)} paths")
            else:
                p = ex.paths[0]
                got = ("return", _norm(p.value)) if p.outcome == "return" else ("raise", getattr(p.value.cls, "__name__", str(p.value.cls)))
            if got[0] == "undecided":
                skipped.append(f"{name}: {got[1]}")      # outside the subset: never unsound, only undecided
                continue
            if str(got) != str(want):
                bad.append(f"{name}: CPython {str(want)[:300]} / pyvc {str(got)[:300]}")
    finally:
        shutil.rmtree(tmp, ignore_errors=True)
    run.skipped = skipped
    return bad


if __name__ == "__main__":
    import sys
    r = run()
    for b in r:
        print("MISMATCH", b)
    print(f"{len(CASES)} cases, {len(r)} mismatches")
    sys.exit(1 if r else 0)
