"""Value domains of the pyvc symbolic interpreter (DESIGN.md section 2.2).

Concrete Python values stay concrete (hosted execution).  Symbolic scalars wrap z3 terms,
strings that contain opaque parts are templates, instances of repository classes are heap
records whose field reads/writes are logged (frame and footprint clauses).
"""
from __future__ import annotations
import z3


class Unsupported(Exception):
    """A construct outside the supported subset was reached on a feasible path -> undecided."""


class EngineFault(Exception):
    """Internal inconsistency of the checker (exit 3)."""


class SInt:
    __slots__ = ("t",)

    def __init__(self, t):
        self.t = t

    def __repr__(self):
        return f"SInt({self.t})"


class SBool:
    __slots__ = ("t",)

    def __init__(self, t):
        self.t = t

    def __repr__(self):
        return f"SBool({self.t})"


class SFloat:
    """Result of true division; only its existence matters (formatting it with :#x raises)."""

    def __repr__(self):
        return "SFloat"


def is_sym(v):
    return isinstance(v, (SInt, SBool))


def to_z3_int(v):
    if isinstance(v, SInt):
        return v.t
    if isinstance(v, SBool):
        return z3.If(v.t, z3.IntVal(1), z3.IntVal(0))
    if isinstance(v, bool):
        return z3.IntVal(1 if v else 0)
    if isinstance(v, int):
        return z3.IntVal(v)
    raise Unsupported(f"not an integer value: {v!r}")


def to_z3_bool(v):
    if isinstance(v, SBool):
        return v.t
    if isinstance(v, SInt):
        return v.t != 0
    if isinstance(v, bool):
        return z3.BoolVal(v)
    raise Unsupported(f"not a boolean value: {v!r}")


class Atom:
    """Opaque piece of text obtained from a callee's contract (e.g. operand.il_read()).

    tag     : identifies the producer (operand key) for ownership / linearity checks
    ordinal : which call on that producer produced it (1-based)
    meta    : ghost meaning (sort, den, ...), interpreted by spec.rzil
    nonempty: bool or z3 Bool term - whether the text is the empty string
    text    : optional concrete rendering used by the CPython audit
    """
    __slots__ = ("tag", "ordinal", "meta", "nonempty", "text", "kind")

    def __init__(self, tag, ordinal=1, meta=None, nonempty=True, text=None, kind="read"):
        self.tag = tag
        self.ordinal = ordinal
        self.meta = meta or {}
        self.nonempty = nonempty
        self.text = text
        self.kind = kind

    def __repr__(self):
        return f"@{self.kind}:{self.tag}#{self.ordinal}@"


class Tpl:
    """String template: sequence of literal chunks, Atoms and SInt (decimal rendering)."""
    __slots__ = ("parts",)

    def __init__(self, parts):
        out = []
        for p in parts:
            if isinstance(p, Tpl):
                ps = p.parts
            else:
                ps = [p]
            for q in ps:
                if isinstance(q, str):
                    if q == "":
                        continue
                    if out and isinstance(out[-1], str):
                        out[-1] += q
                        continue
                out.append(q)
        self.parts = out

    def atoms(self):
        return [p for p in self.parts if isinstance(p, Atom)]

    # structural identity (used for dict keys such as op names "<base>_<num_id>"): equal structure
    # implies equal strings; the interpreter refuses lookups that could alias non-structurally.
    def skey(self):
        out = []
        for p in self.parts:
            if isinstance(p, str):
                out.append(("s", p))
            elif isinstance(p, Atom):
                out.append(("a", p.tag, p.ordinal, p.kind, id(p) if p.kind not in ("read", "fmtint") else 0,
                            p.meta["term"].get_id() if "term" in p.meta and hasattr(p.meta["term"], "get_id") else 0))
            else:
                out.append(("i", p.t.get_id()))
        return tuple(out)

    def skeleton(self):
        return tuple(p if isinstance(p, str) else None for p in self.parts)

    def __hash__(self):
        return hash(self.skey())

    def __eq__(self, other):
        if isinstance(other, Tpl):
            return self.skey() == other.skey()
        if isinstance(other, str):
            return len(self.parts) == 1 and self.parts[0] == other
        return NotImplemented

    def render(self, atom_text=None, int_text=None):
        s = ""
        for p in self.parts:
            if isinstance(p, str):
                s += p
            elif isinstance(p, Atom):
                s += atom_text(p) if atom_text else repr(p)
            else:
                s += int_text(p) if int_text else f"<{p.t}>"
        return s

    def __repr__(self):
        return "Tpl(" + self.render() + ")"


def tpl_of(v):
    if isinstance(v, Tpl):
        return v
    if isinstance(v, str):
        return Tpl([v])
    raise Unsupported(f"not a string value {v!r}")


def is_strlike(v):
    return isinstance(v, (str, Tpl))


class Obj:
    """Heap record for an instance of a repository class."""
    _next = [0]

    def __init__(self, cls, ctx=None, label=None):
        self.cls = cls
        self.fields = {}
        Obj._next[0] += 1
        self.oid = Obj._next[0]
        self.pre = False          # existed before the function under verification was entered
        self.stubs = {}           # method name -> contract stub (abstract operand)
        self.label = label
        self.ghost = {}

    def __repr__(self):
        return f"<{self.cls.name}#{self.label or self.oid}>"


class ExcVal:
    """An exception instance of a real exception class, with interpreter-value args."""

    def __init__(self, cls, args):
        self.cls = cls
        self.args = args

    def __repr__(self):
        return f"ExcVal({self.cls.__name__})"


class AbsList:
    """Abstract list 'prefix ++ [concrete items]' is not needed; this is an abstract *opaque*
    list with a symbolic length and ghost content, usable only through contracts/stubs."""

    def __init__(self, name, length=None):
        self.name = name
        self.length = length if length is not None else z3.Int(f"len_{name}")
        self.ghost = {}

    def __repr__(self):
        return f"AbsList({self.name})"
