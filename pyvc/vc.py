"""Obligation records, discharge (z3, cvc5 cross-check), known findings, replay files, evidence."""
from __future__ import annotations
import fnmatch
import json
import os
import re
import sys
import time
import z3

VERIF = os.path.dirname(os.path.dirname(os.path.abspath(__file__)))

DISCHARGED, REFUTED, UNKNOWN, UNSUPPORTED = "discharged", "refuted", "unknown", "unsupported"


class Ob:
    __slots__ = ("observed_natively", "name", "instance", "pc", "goal", "status", "model", "solver_s", "backend", "replay", "detail",
                 "family", "bounded")

    def __init__(self, name, instance, pc, goal, replay=None, detail="", family=None, bounded=False, observed_natively=False):
        self.name = name
        self.instance = instance
        self.pc = list(pc or [])
        self.goal = goal
        self.status = None
        self.model = None
        self.solver_s = 0.0
        self.backend = "ground"
        self.replay = replay      # (kind, args-dict-builder(model) -> dict)
        self.detail = detail
        self.family = family or name.split("#")[0]
        self.bounded = bounded
        self.observed_natively = observed_natively   # run-time monitor finding: seen on the real code in this very run

    @property
    def key(self):
        return f"{self.name} [{self.instance}]"


def model_to_py(m):
    out = {}
    for d in m.decls():
        v = m[d]
        try:
            if z3.is_int_value(v):
                out[d.name()] = v.as_long()
            elif z3.is_bv_value(v):
                out[d.name()] = v.as_long()
            elif z3.is_string_value(v):
                out[d.name()] = v.as_string()
            elif z3.is_true(v):
                out[d.name()] = True
            elif z3.is_false(v):
                out[d.name()] = False
            else:
                out[d.name()] = str(v)
        except Exception:
            out[d.name()] = str(v)
    return out


def discharge_z3(ob: Ob, timeout_ms=20000):
    g = ob.goal
    t0 = time.time()
    if isinstance(g, bool) and not ob.pc:
        ob.status = DISCHARGED if g else REFUTED
        ob.backend = "ground"
        ob.model = {}
        return
    if isinstance(g, bool):
        g = z3.BoolVal(g)
    s = z3.Solver()
    s.set("timeout", timeout_ms)
    for c in ob.pc:
        s.add(c)
    s.add(z3.Not(g))
    r = s.check()
    ob.solver_s = time.time() - t0
    ob.backend = "z3"
    if r == z3.unsat:
        ob.status = DISCHARGED
    elif r == z3.sat:
        ob.status = REFUTED
        ob.model = model_to_py(s.model())
    else:
        ob.status = UNKNOWN
        ob.detail += f" z3: {s.reason_unknown()}"


def refute_with_length_bound(ob: Ob, bound, timeout_ms=15000):
    """A model is a model: search a counterexample among strings of length <= bound (never used to discharge)."""
    g = ob.goal if not isinstance(ob.goal, bool) else z3.BoolVal(ob.goal)
    s = z3.Solver()
    s.set("timeout", timeout_ms)
    for c in ob.pc:
        s.add(c)
    s.add(z3.Not(g))
    seen = set()

    def consts(t):
        if t.get_id() in seen:
            return
        seen.add(t.get_id())
        if z3.is_const(t) and t.decl().kind() == z3.Z3_OP_UNINTERPRETED and z3.is_string(t):
            s.add(z3.Length(t) <= bound)
        for c in t.children():
            consts(c)
    for a in s.assertions():
        consts(a)
    t0 = time.time()
    r = s.check()
    ob.solver_s += time.time() - t0
    if r == z3.sat:
        ob.status = REFUTED
        ob.backend = "z3(length-bounded model search)"
        ob.model = model_to_py(s.model())


def to_smt2(ob: Ob):
    s = z3.Solver()
    for c in ob.pc:
        s.add(c)
    g = ob.goal if not isinstance(ob.goal, bool) else z3.BoolVal(ob.goal)
    s.add(z3.Not(g))
    return s.to_smt2()


def discharge_cvc5(ob: Ob, timeout_ms=20000):
    """Second back end (thorough tier, and for z3 unknowns): cvc5 via its SMT-LIB input."""
    import cvc5
    t0 = time.time()
    text = to_smt2(ob)
    slv = cvc5.Solver()
    slv.setOption("tlimit-per", str(timeout_ms))
    slv.setOption("strings-exp", "true")
    slv.setLogic("ALL")
    ip = cvc5.InputParser(slv)
    ip.setStringInput(cvc5.InputLanguage.SMT_LIB_2_6, text, "ob")
    sm = ip.getSymbolManager()
    res = None
    while True:
        cmd = ip.nextCommand()
        if cmd.isNull():
            break
        out = cmd.invoke(slv, sm)
        o = str(out).strip()
        if o in ("sat", "unsat", "unknown"):
            res = o
    dt = time.time() - t0
    return res, dt


class Check:
    """One property check run: collects obligations, discharges, reports, writes evidence."""

    def __init__(self, prop, tier, seed=0):
        self.prop = prop
        self.tier = tier
        self.seed = seed
        self.obs = []
        self.functions = {}       # qualname -> source info
        self.assumptions = []
        self.notes = []
        self.undecided = []       # (where, reason)
        self.faults = []          # engine faults
        self.paths = 0
        self.node_counts = {}
        self.inlined = set()
        self.assumed_calls = {}
        self.bounded = []         # descriptions of bounded stand-ins
        self.t0 = time.time()
        self.instances_declared = 0
        self.instances_generated = 0
        self.mutants = []
        self.audits = 0
        self.audit_mismatch = []
        self.extra = {}
        self.trusted = []
        self.findings = load_findings()
        self.samples = []

    # -- collection -------------------------------------------------------
    def add(self, ob: Ob):
        flt = getattr(self, "ob_filter", None)
        if flt is not None:
            import re as _re
            if not _re.search(flt, ob.name):
                self.filtered = getattr(self, "filtered", 0) + 1
                return ob
        self.obs.append(ob)
        return ob

    def ob(self, name, instance, pc, goal, **kw):
        return self.add(Ob(name, instance, pc, goal, **kw))

    def under_contract(self, loader, *funcs):
        for f in funcs:
            self.functions[f.qualname] = loader.func_source_info(f)

    def absorb(self, ex, where):
        """Absorb an Exploration: statistics + undecided paths."""
        for p in ex.paths:
            self.paths += 1
            st = p.ctx.stats
            for k, v in st["nodes"].items():
                self.node_counts[k] = self.node_counts.get(k, 0) + v
            self.inlined |= st["inlined"]
            for k, v in st["assumed_calls"].items():
                self.assumed_calls[k] = self.assumed_calls.get(k, 0) + v
        for dec, reason in ex.undecided:
            self.undecided.append((where, reason))
        if ex.capped:
            self.undecided.append((where, "path cap reached"))

    def path_obligations(self, p, pi):
        """obligations recorded by loop contracts / call-site requires during the exploration of path p"""
        for (n, inst, goal, detail) in p.ctx.obligations:
            self.ob(n, f"{pi} {inst}".strip(), p.ctx.pc, goal, detail=detail)

    def assume(self, text):
        if text not in self.assumptions:
            self.assumptions.append(text)

    def trust(self, text):
        if text not in self.trusted:
            self.trusted.append(text)

    # -- discharge ----------------------------------------------------------
    def discharge(self, timeout_ms=None):
        timeout_ms = timeout_ms or getattr(self, "z3_timeout_ms", 20000)
        for ob in self.obs:
            if ob.status is not None:
                continue
            try:
                discharge_z3(ob, timeout_ms)
            except z3.Z3Exception as e:
                ob.status = UNKNOWN
                ob.detail += f" z3 exception: {e}"
            if ob.status == UNKNOWN:
                try:
                    res, dt = discharge_cvc5(ob, getattr(self, "cvc5_timeout_ms", 20000))
                    ob.solver_s += dt
                    if res == "unsat":
                        ob.status = DISCHARGED
                        ob.backend = "cvc5"
                    elif res == "sat" and getattr(self, "cvc5_models", False):
                        ob.status = REFUTED
                        ob.backend = "cvc5"
                        ob.model = getattr(self, "_last_cvc5_model", None) or {}
                except Exception as e:
                    ob.detail += f" cvc5: {e}"
        for ob in self.obs:
            if ob.status == UNKNOWN and getattr(self, "string_refute_bound", 0):
                refute_with_length_bound(ob, self.string_refute_bound)
        for ob in self.obs:
            if ob.status == REFUTED and ob.replay is not None and callable(ob.replay[1]):
                try:
                    args = ob.replay[1](ob.model or {})
                    if isinstance(args, dict):
                        args.setdefault("clause", ob.name.split("#", 1)[-1])
                    ob.replay = (ob.replay[0], args)
                except Exception as e:
                    ob.replay = (ob.replay[0], {"__builder_error__": f"{type(e).__name__}: {e}"})
        self.native_audit()
        if self.tier == "thorough":
            self.cross_check()

    def native_audit(self):
        """CPython cross-check of *discharged* obligations (defence against an unsound generator, DESIGN.md 2.9):
        for a sample of discharged obligations that carry a replay builder, a model of the path condition is turned into
        real objects, the REAL function is run natively and the replay's own comparison with the specification must
        report agreement.  A disagreement means the engine proved something the real code does not do: exit 3."""
        k = getattr(self, "audit_k", 6 if self.tier != "thorough" else 40)
        if self.tier == "mutant" or k <= 0:
            return
        import random
        rnd = random.Random(self.seed + len(self.obs))
        # only instances ALL of whose clauses were discharged are audited: a replay compares the real code with the whole
        # contract of its instance, not with one clause, and instances with a (known) refuted clause would disagree by design
        groups = {}
        for ob in self.obs:
            groups.setdefault((ob.name.split("#")[0], ob.instance), []).append(ob)
        clean = {k for k, g in groups.items() if all(o.status == DISCHARGED for o in g)}
        cand = [ob for ob in self.obs if ob.status == DISCHARGED and ob.replay is not None and callable(ob.replay[1]) and ob.pc
                and not isinstance(ob.goal, bool) and (ob.name.split("#")[0], ob.instance) in clean]
        rnd.shuffle(cand)
        seen = set()
        from . import replay as _rp
        for ob in cand:
            if len(seen) >= k:
                break
            fam = (ob.name, ob.replay[0])
            if fam in seen:
                continue
            sv = z3.Solver()
            sv.set("timeout", 2000)
            for c in ob.pc:
                sv.add(c)
            if sv.check() != z3.sat:
                continue
            seen.add(fam)
            try:
                args = ob.replay[1](model_to_py(sv.model()))
                if not isinstance(args, dict) or "__builder_error__" in args:
                    continue
                args.setdefault("clause", ob.name.split("#", 1)[-1])
                violated, text = _rp.run(ob.replay[0], args)
            except Exception as e:       # the replay harness could not build this situation: not an audit result
                self.notes.append(f"native audit skipped for {ob.key}: {type(e).__name__}: {str(e)[:120]}")
                continue
            if violated == "inconclusive":
                continue
            self.audits += 1
            if violated is True:
                self.audit_mismatch.append(f"{ob.key}: discharged by the solver but the real code disagrees natively: {text[:300]}")
        if self.audit_mismatch:
            self.faults.append(f"engine/CPython mismatch on discharged obligations: {self.audit_mismatch[:2]}")

    def cross_check(self, limit_s=600):
        """Thorough tier: every non-ground obligation is re-discharged on cvc5; disagreement = fault."""
        limit_s = getattr(self, "cross_check_limit_s", limit_s)
        t0 = time.time()
        n = 0
        for ob in self.obs:
            if ob.backend != "z3" or ob.status not in (DISCHARGED, REFUTED) or ob.goal is None:
                continue
            if time.time() - t0 > limit_s:
                self.notes.append(f"cvc5 cross-check stopped after {n} obligations (time budget)")
                break
            try:
                res, dt = discharge_cvc5(ob, 20000)
            except Exception as e:
                self.notes.append(f"cvc5 cross-check error on {ob.key}: {e}")
                continue
            n += 1
            if res in ("sat", "unsat"):
                agree = (res == "unsat") == (ob.status == DISCHARGED)
                if not agree:
                    self.faults.append(f"solver disagreement on {ob.key}: z3={ob.status} cvc5={res}")
                else:
                    ob.backend = "z3+cvc5"
        self.extra["cvc5_cross_checked"] = n

    # -- parallel generation ----------------------------------------------
    def export(self):
        """Plain (picklable) summary of this sink after discharge."""
        recs = []
        for ob in self.obs:
            rp = ob.replay
            if rp is not None and callable(rp[1]):
                rp = (rp[0], None) if ob.status != REFUTED else rp
            recs.append({"name": ob.name, "instance": ob.instance, "status": ob.status, "model": ob.model,
                         "solver_s": ob.solver_s, "backend": ob.backend, "replay": rp, "detail": ob.detail,
                         "family": ob.family, "bounded": ob.bounded, "has_pc": bool(ob.pc)})
        ex = dict(self.extra)
        for k, v in list(ex.items()):
            if isinstance(v, set):
                ex[k] = sorted(v)
        return {"obs": recs, "functions": self.functions, "undecided": self.undecided, "faults": self.faults,
                "paths": self.paths, "node_counts": self.node_counts, "inlined": sorted(self.inlined),
                "assumed_calls": self.assumed_calls, "declared": self.instances_declared,
                "generated": self.instances_generated, "samples": self.samples, "extra": ex, "notes": self.notes,
                "audits": self.audits, "audit_mismatch": self.audit_mismatch, "bounded": list(self.bounded)}

    def merge(self, d):
        for r in d["obs"]:
            ob = Ob(r["name"], r["instance"], [True] if r["has_pc"] else [], None, replay=r["replay"], detail=r["detail"],
                    family=r["family"], bounded=r["bounded"])
            ob.status, ob.model, ob.solver_s, ob.backend = r["status"], r["model"], r["solver_s"], r["backend"]
            self.obs.append(ob)
        self.functions.update(d["functions"])
        self.undecided.extend(tuple(x) for x in d["undecided"])
        self.faults.extend(d["faults"])
        self.paths += d["paths"]
        for k, v in d["node_counts"].items():
            self.node_counts[k] = self.node_counts.get(k, 0) + v
        self.inlined |= set(d["inlined"])
        for k, v in d["assumed_calls"].items():
            self.assumed_calls[k] = self.assumed_calls.get(k, 0) + v
        self.instances_declared += d["declared"]
        self.instances_generated += d["generated"]
        self.samples.extend(d["samples"])
        self.notes.extend(d["notes"])
        self.audits += d["audits"]
        self.audit_mismatch.extend(d["audit_mismatch"])
        for b in d.get("bounded", []):
            if b not in self.bounded:
                self.bounded.append(b)
        for k, v in d["extra"].items():
            if isinstance(v, list):
                cur = self.extra.setdefault(k, [])
                for x in v:
                    if x not in cur:
                        cur.append(x)
            else:
                self.extra[k] = v

    def run_parallel(self, module, func, tasks, workers=8, sink_attrs=None):
        """tasks: list of kwargs dicts for module.func(loader, sink, **kwargs); each runs in a forked
        worker with its own sink, discharges there, and the plain results are merged here."""
        import multiprocessing as mp
        if workers <= 1 or len(tasks) <= 1:
            for t in tasks:
                self.merge(_worker((self.prop, self.tier, module, func, t, sink_attrs)))
            return
        ctx = mp.get_context("fork")
        with ctx.Pool(min(workers, len(tasks))) as pool:
            for d in pool.imap_unordered(_worker, [(self.prop, self.tier, module, func, t, sink_attrs) for t in tasks]):
                self.merge(d)

    # -- findings -----------------------------------------------------------
    def match_finding(self, ob):
        for f in self.findings:
            props = f["property"] if isinstance(f["property"], list) else [f["property"]]
            if f.get("status") != "open" or (self.prop not in props and not getattr(self, "inherit_findings", False)):
                continue
            pats = f["instance"] if isinstance(f["instance"], list) else [f["instance"]]
            obpats = f["obligation"] if isinstance(f["obligation"], list) else [f["obligation"]]
            if any(fnmatch.fnmatchcase(ob.name, op) for op in obpats) and any(
                    fnmatch.fnmatchcase(ob.instance, ip) for ip in pats):
                return f
        return None

    # -- finish ---------------------------------------------------------------
    def finish(self, level="proof", rule="", checker_cmd=None, explanation=None):
        self.discharge()
        if os.environ.get("VERIF_DEBUG"):
            agg = {}
            for ob in self.obs:
                if ob.status != DISCHARGED:
                    agg.setdefault((ob.name, ob.status), []).append(ob)
            for (n, st), obs in sorted(agg.items()):
                print(f"DEBUG {st} {n}: {len(obs)}  e.g. [{obs[0].instance}] {obs[0].detail[:200]} model={obs[0].model}")
            if os.environ.get("VERIF_DEBUG") == "noreplay":
                return 9
        os.makedirs(os.path.join(VERIF, "evidence"), exist_ok=True)
        os.makedirs(os.path.join(VERIF, "replay"), exist_ok=True)
        violations = []
        replayed_per_finding = {}
        known = {}
        engine_faults = list(self.faults)
        undecided = list(self.undecided)
        for ob in self.obs:
            if ob.status == DISCHARGED:
                continue
            if ob.status in (UNKNOWN, UNSUPPORTED):
                undecided.append((ob.key, ob.detail or ob.status))
                continue
            # refuted: replay natively (every refutation outside the known findings; of each known finding the first
            # REPLAYS_PER_FINDING instances - the finding is already witnessed, replaying thousands of instances only costs time)
            confirmed, rtext, rargs = None, "", None
            f0 = self.match_finding(ob)
            if f0 is not None and ob.replay is not None and not getattr(ob, "observed_natively", False):
                n_rep = replayed_per_finding.get(f0["id"], 0)
                if n_rep >= REPLAYS_PER_FINDING:
                    known.setdefault(f0["id"], []).append(ob)
                    continue
                replayed_per_finding[f0["id"]] = n_rep + 1
            if ob.replay is not None and getattr(ob, "observed_natively", False):
                kind, rargs = ob.replay
                confirmed, rtext = True, ob.detail
            elif ob.replay is not None:
                kind, rargs = ob.replay
                try:
                    if "__builder_error__" in rargs:
                        raise RuntimeError(rargs["__builder_error__"])
                    from . import replay as _rp
                    confirmed, rtext = _rp.run(kind, rargs)
                except Exception as e:  # replay machinery failure is a checker fault
                    confirmed, rtext = None, f"replay raised {type(e).__name__}: {e}"
            f = self.match_finding(ob)
            inconclusive = confirmed == "inconclusive"
            if inconclusive:
                # the replay harness can only build a stand-in for this instance (e.g. a plain variable for an operand of another
                # class) and the stand-in does not show the failure: the refuted obligation is reported without a failing input
                confirmed = True
                rtext = "native replay inconclusive (stand-in operand): " + rtext
            if ob.replay is not None and confirmed is False:
                engine_faults.append(f"model of {ob.key} does not reproduce natively: {rtext}")
                continue
            if ob.replay is not None and confirmed is None:
                engine_faults.append(f"replay of {ob.key} failed: {rtext}")
                continue
            rec = {"property": self.prop, "obligation": ob.name, "instance": ob.instance, "model": ob.model,
                   "backend": ob.backend, "detail": ob.detail,
                   "replay": {"kind": ob.replay[0], "args": rargs} if ob.replay else None,
                   "native_replay_output": rtext,
                   "no_failing_input_found": ob.replay is None or inconclusive}
            if inconclusive:
                ob.replay = None
            if f is not None:
                known.setdefault(f["id"], []).append(ob)
                continue
            path = os.path.join(VERIF, "replay", _safe(f"{self.prop}_{ob.name}_{ob.instance}") + ".json")
            with open(path, "w") as fh:
                json.dump(rec, fh, indent=1, default=str)
            violations.append((ob, path))

        if violations:
            # modular reasoning: an obligation discharged under the contracts of other functions may disagree with the real code
            # once one of those contracts is itself violated in this run - then the audit's premise is gone and its disagreement
            # is explained by the reported violations, not by the engine
            kept = []
            for ft in engine_faults:
                if ft.startswith("engine/CPython mismatch on discharged obligations"):
                    self.notes.append("native audit disagreement, explained by the violations reported in this run (a contract the discharged "
                                      "obligation assumes is broken): " + ft[:400])
                else:
                    kept.append(ft)
            engine_faults = kept
        for fid, obs in sorted(known.items()):
            f = next(x for x in self.findings if x["id"] == fid)
            print(f"KNOWN-FINDING: property={self.prop} {fid}: {f['what']} ({len(obs)} refuted instance(s))")
        for ob, path in violations[:50]:
            tail = " no-failing-input-found" if ob.replay is None else ""
            print(f"VIOLATION property={self.prop} replay={path} obligation={ob.key}{tail}")
        if len(violations) > 50:
            print(f"... {len(violations) - 50} more violations")
        for w, r in undecided[:30]:
            print(f"UNDECIDED property={self.prop} {w}: {r}")
        for ft in engine_faults[:30]:
            print(f"CHECKER-FAULT property={self.prop} {ft}")

        known_ids = {id(o) for v in known.values() for o in v}
        expected = [ob for ob in self.obs if id(ob) not in known_ids]
        n_ob = len(expected)
        n_dis = sum(1 for ob in expected if ob.status == DISCHARGED)
        if n_ob == 0:
            engine_faults.append("zero obligations generated")
            print(f"CHECKER-FAULT property={self.prop} zero obligations generated")
        if self.instances_declared and self.instances_generated != self.instances_declared and not undecided:
            engine_faults.append(
                f"contract instances generated {self.instances_generated} != declared {self.instances_declared}")
            print(f"CHECKER-FAULT property={self.prop} {engine_faults[-1]}")

        by_family = {}
        for ob in self.obs:
            d = by_family.setdefault(ob.family, {"obligations": 0, "discharged": 0, "refuted": 0, "solver_s": 0.0,
                                                 "backends": {}})
            d["obligations"] += 1
            d["discharged"] += ob.status == DISCHARGED
            d["refuted"] += ob.status == REFUTED
            d["solver_s"] = round(d["solver_s"] + ob.solver_s, 4)
            d["backends"][ob.backend] = d["backends"].get(ob.backend, 0) + 1
        bounded_obs = [ob for ob in self.obs if ob.bounded]
        samples = self.samples[:6] or [{"obligation": ob.key, "status": ob.status, "backend": ob.backend}
                                       for ob in self.obs[:: max(1, len(self.obs) // 6)][:6]]
        cov = {
            "obligations": n_ob,
            "discharged": n_dis,
            "checker_cmd": checker_cmd or f".venv/bin/python bin/check {self.prop} --tier {self.tier}",
            "trusted_base": self.trusted,
            "samples": samples,
            "functions_under_contract": sorted(self.functions.values(), key=lambda x: x["function"]),
            "obligations_by_family": by_family,
            "solver_seconds": round(sum(ob.solver_s for ob in self.obs), 3),
            "paths_explored": self.paths,
            "ast_nodes_executed": self.node_counts,
            "inlined_helpers": sorted(self.inlined),
            "assumed_calls": self.assumed_calls,
            "known_finding_instances": {k: [o.key for o in v] for k, v in known.items()},
            "bounded_stand_ins": self.bounded,
            "bounded_obligations": len(bounded_obs),
            "undecided": [f"{w}: {r}" for w, r in undecided],
            "checker_faults": engine_faults,
            "cpython_audits": self.audits,
            "audit_mismatches": self.audit_mismatch,
            "mutant_self_test": self.mutants,
            "instances_declared": self.instances_declared,
            "instances_generated": self.instances_generated,
            "rule": rule,
            "evaluations": len(self.obs),
            "distinct_nontrivial": len({ob.key for ob in self.obs if ob.backend != "ground" or ob.pc}) or len(
                {ob.key for ob in self.obs}),
            "notes": self.notes,
        }
        if explanation:
            cov["explanation"] = explanation
        cov.update(self.extra)
        ev = {
            "property_id": self.prop,
            "tier": self.tier,
            "seed": self.seed,
            "level": level,
            "coverage": cov,
            "assumptions": self.assumptions,
            "wall_s": round(time.time() - self.t0, 2),
            "violations": len(violations),
        }
        with open(os.path.join(VERIF, "evidence", f"{self.prop}.json"), "w") as fh:
            json.dump(ev, fh, indent=1, default=str)
        print(f"{self.prop} [{self.tier}]: {n_dis}/{n_ob} obligations discharged, "
              f"{sum(len(v) for v in known.values())} known-finding instance(s), {len(violations)} violation(s), "
              f"{len(undecided)} undecided, {len(engine_faults)} checker fault(s), {ev['wall_s']} s")
        if violations:
            return 1      # an established violation stands whatever else went wrong in the run (faults are printed and recorded)
        if engine_faults:
            return 3
        if undecided:
            return 2
        return 0


def _worker(a):
    prop, tier, module, func, kwargs = a[:5]
    sink_attrs = a[5] if len(a) > 5 else None
    import importlib
    import traceback
    from .loader import Loader
    sink = Check(prop, tier)
    for k, v in (sink_attrs or {}).items():
        setattr(sink, k, v)
    try:
        mod = importlib.import_module(module)
        for attr in ("z3_timeout_ms", "cvc5_timeout_ms", "cvc5_models", "string_refute_bound"):
            if hasattr(mod, attr.upper()):
                setattr(sink, attr, getattr(mod, attr.upper()))
        getattr(mod, func)(Loader(), sink, **kwargs)
        sink.discharge()
    except Exception:
        sink.faults.append(f"worker {func}({kwargs}) crashed: {traceback.format_exc()[-600:]}")
    return sink.export()


def _safe(s):
    return re.sub(r"[^A-Za-z0-9_.=-]+", "_", s)[:150]


REPLAYS_PER_FINDING = 25


def load_findings():
    p = os.path.join(VERIF, "known_findings.json")
    if not os.path.exists(p):
        return []
    with open(p) as f:
        d = json.load(f)
    return d.get("findings", [])
