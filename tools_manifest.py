#!/usr/bin/env python3
"""Regenerates MANIFEST.json from the table below (keeps the file valid and consistent)."""
import json, os
HERE = os.path.dirname(os.path.abspath(__file__))

TRUST = ("Trusted base: pyvc VC generator (Python-subset interpreter, audited per path against CPython and by "
         "in-memory mutants), spec/c11.py, spec/rzil.py, z3/cvc5. ")

CHECKS = {
    "C04": dict(
        category="proof",
        text="Every clause of the property (common type == C11 usual arithmetic conversions with rank=width, totality, "
             "symmetry, argument immutability, determinism, promotion rule) is a postcondition/frame/reads clause on the "
             "real c11_cast / promoted_type / ValueType comparison dunders, discharged by z3 for ALL widths (symbolic "
             "Int >= 1) and both signednesses on every feasible path; path conditions are proved to cover the precondition."
             " History: ground two-call instances (every ordered pair of eight representative type pairs) show the rules are functions of their arguments - no memo or hidden state - with native replay.",
        design_ref="DESIGN.md section 3, C04",
        note=TRUST + "Integer ValueTypes only (group without EXTERNAL/VOID/FLOAT); copy.deepcopy and enum.Flag hosted by CPython.",
        technique="contract-based deductive verification: AST->z3 verification conditions (LIA) on the real functions, "
                  "path-complete symbolic execution, frame/reads clauses, native replay of counter-models"),
    "C03": dict(
        category="proof",
        text="Emission contract eval_RzIL(Cast.il_exec()) == C11 conversion for all source values (bit-vectors) over all type "
             "pairs and operand classes, the bool->int ITE lowering, conversion chains, and callback contracts for every "
             "conversion context of the property (explicit cast, usual-arithmetic helper, promotion, initialisation, assignment "
             "to variable/register, argument, return incl. the caller-side read lemma, store, jump target): result node is "
             "well-formed, has the sink type and denotes conv_C11(source). Refuted instances on the pinned tree are replayed "
             "natively and listed as known findings F1/F5/F21.",
        design_ref="DESIGN.md section 3, C03",
        note=TRUST + "RZILTransformer.add_op is used through its contract (A-NAMES); child il_read() through the operand "
             "contract; induction over expression depth (T-IND) is metatheory.",
        technique="contract-based deductive verification: AST->z3 verification conditions (bit-vector value clauses, ground "
                  "type/WF clauses) on the real emission functions and transformer callbacks, modular operand contracts, "
                  "native replay of counter-models"),
    "C02": dict(
        category="proof",
        text="Emission contracts (eval_RzIL(il_exec()) == den, well-sorted, operand texts used once) on the real ArithmeticOp/"
             "BitOp/CompareOp/BooleanOp/Ternary and callback contracts on every operator production (additive, multiplicative, "
             "bitwise, shift, unary, relational, equality, logical, conditional): for children of every IR class and all 8x8 "
             "integer type pairs the built node is well-formed, has the C11 result type and equals the C11 value for ALL "
             "operand values (z3 bit-vectors; C-side UB excluded by precondition). Depth by structural induction. Refuted "
             "instances on the pinned tree replay natively and are listed as known findings F2 F3 F4 F5b F21c F22 F23 F24."
             " Frame: no callback modifies the type objects of its operands (they may be shared with declarations and routine signatures). Every bit-vector node class is exercised as condition of ?: / operand of && also in the quick tier.",
        design_ref="DESIGN.md section 3, C02",
        note=TRUST + "add_op through its contract (A-NAMES); child il_read() through the operand contract; T-IND; literal-"
             "literal operand pairs are C09's folding contract; quick tier uses all type pairs for Variable operands and a "
             "4-type subset for the other operand-kind pairs, thorough tier is exhaustive over kinds^2 x T8^2.",
        technique="contract-based deductive verification: AST->z3 verification conditions (bit-vector value clauses, ground "
                  "type/WF clauses) on the real emission functions and transformer callbacks, modular operand contracts, "
                  "native replay of counter-models"),
    "C13": dict(
        category="proof",
        text="The attribute state machine of the real HexagonTransformerExtension is verified for every prior history: "
             "flags are symbolic Booleans and the written-predicate list ranges over all 65 duplicate-free lists over {0..3}. "
             "set_token_meta_data adds exactly the token's attribute (and nothing for any neutral/other token), reset_flags "
             "restores the initial state of every inventoried attribute, get_meta renders exactly the set (NONE iff empty), "
             "the attribute-bearing callbacks (mem_store, mem_load, new_reg, reg, explicit_reg, reg_alias, jump, selection_stmt, "
             "assignment_expr) set exactly their attribute from any prior state, all other callbacks pass only neutral tokens "
             "(mechanical scan), and transform_insn renders each part's meta from a reset state (no-op list -> NONE, "
             "unimplemented -> INVALID).",
        design_ref="DESIGN.md section 3, C13",
        note=TRUST + "Assumed contract for lark Transformer.transform (T-LARK): invokes only the callbacks of the given part; "
             "its precondition (state is reset) is a checked obligation. Attribute table transcribed from the property (T-HEX).",
        technique="contract-based deductive verification: AST->z3 verification conditions over a symbolic flag state, "
                  "path-complete symbolic execution of the real extension/callback/entry-point code, modular stubs for "
                  "transform/get_meta, native replay"),
    "C14": dict(
        category="proof",
        text="History independence as an inductive invariant over the real code: (1) mechanical inventory of all state of the "
             "transformer/holder/extension/compiler/preprocessor classes (class-level mutable containers must be re-bound per "
             "instance; unclassified attributes make the check undecided); (2) reset() restores the fresh value of every "
             "per-behaviour attribute from an arbitrary symbolic/dirty state; (3) every public entry point (transform_insn, "
             "compile_insn, compile_c_stmt, compile_sub_routine, add_sub_routine) leaves that state reset on normal AND "
             "exceptional exit, with parse/transform replaced by havocking stubs that may raise; (4) writes to shared resource "
             "objects are unobservable (two-state obligations); (5) numbering enters results only through the name h_tmp<N>."
             " reset() is verified from every partially dirty pre-state (each state component dirty alone); the order of the final sequence is independent of the numbering counters (0, 9, 99).",
        design_ref="DESIGN.md section 3, C14",
        note=TRUST + "Lark parse/transform as assumed contracts (T-LARK); induction over call history is metatheory (T-IND); "
             "per-callback write frames are the #modifies obligations of C02/C03 (add_op via contract).",
        technique="contract-based deductive verification: frame/reset postconditions on all exits by path-complete symbolic "
                  "execution of the real entry points with havocking stubs, mechanical state inventory, two-state obligations"),
    "C09": dict(
        category="proof",
        text="Folding contracts with literal values as symbolic mathematical integers (all magnitudes): literal typing equals "
             "C11 6.4.4.1 per spelling and magnitude class; rendered literals (get_rzil_val / il_read / il_init_var / il_op) "
             "denote value mod 2^w; folded unary/binary arithmetic and comparisons satisfy the same type+value postcondition as "
             "the unfolded C11 operator (integer-domain oracle, C-side UB excluded); constant-condition ?: selects the live arm; "
             "dead-operand removal keeps every operand of a registered effect registered; rm_op_by_name removes exactly the "
             "named op; sizeof value. Literal division: what is folded is the C quotient of the operands converted to their common "
             "type (truncation towards zero), a zero divisor is rejected, refusing to fold is allowed (defect F34 repaired). "
             "Refuted instances replay natively: known findings F11 F11b F12 F13 F27 F28.",
        design_ref="DESIGN.md section 3, C09",
        note=TRUST + "WF(Number) (value representable in its type) is the folding precondition; add_op via contract; 70 literal "
             "divisions are additionally compiled natively end to end (extra witnesses, not a stand-in).",
        technique="contract-based deductive verification: AST->z3 verification conditions in linear/non-linear integer arithmetic "
                  "over symbolic literal values on the real folding functions (unary, + - * /, comparisons, ?:, sizeof, literal typing and rendering)"),
    "C18": dict(
        category="proof",
        text="parse_single and Parser.parse are verified for any number of behaviour parts / instructions by fold invariants "
             "(base, preservation for an arbitrary element, exit): one entry per name, one tree per part in order, trees are a "
             "function of (grammar, text) only; a failure at an ARBITRARY part index with any Exception class yields the entry "
             "with no trees and the error's class name, never an exception, and touches nothing else. The schedule quantifier "
             "(pool sizes / interleavings) is NOT verified: it follows only from the assumed contract of Pool.imap (T-POOL)."
             " Bounded addition (labelled, not counted as proved): the real Parser.parse with the real pool on synthetic inputs whose sizes straddle pool and batch sizes.",
        design_ref="DESIGN.md section 3, C18",
        note=TRUST + "Assumed external contracts: Lark(...).parse deterministic, returns or raises (T-LARK); multiprocessing."
             "Pool.imap yields f(x) once per x for every schedule, pickling preserves values (T-POOL); tqdm is the identity.",
        technique="contract-based deductive verification: loop (fold) invariants over abstract sequences + path-complete symbolic "
                  "execution of the real functions with external calls replaced by assumed contracts"),
    "C19": dict(
        category="proof",
        text="String contracts over symbolic strings of any length: split_resolved_shortcode returns exactly (NAME, BODY) for every "
             "well-formed line (NAME in \\w+, BODY any non-newline text incl. parentheses/commas/braces, optional newline) because "
             "the regex decomposition is unique, and raises ValueError for every other line; split_compounds returns the marked "
             "block and the rest in braces and loses nothing when nothing precedes the first marker (the general case is refuted: "
             "known finding F20); load_insn_behavior is verified for files of any length by a fold invariant using the two helper "
             "contracts (only '#' lines are skipped, malformed lines raise). The real pattern strings are read from the source and "
             "translated mechanically; all 2181 bundled lines / 72 compounds are ground obligations."
             " The loader keeps no class- / module-level mutable state or memoisation (second instance loads the same), with a native two-instance replay; witnesses with several top-level items after the marker.",
        design_ref="DESIGN.md section 3, C19",
        note=TRUST + "T-RE: the sre-parse -> SMT-LIB regex translation and the leftmost-match rule; ASCII strings; cvc5 1.4 "
             "(strings) discharges what z3's sequence solver leaves unknown; counter-models come from a length-bounded model search.",
        technique="contract-based deductive verification: AST->SMT string/regex verification conditions (z3 seq + cvc5 strings) on "
                  "the real functions, fold invariant over file lines, modular helper contracts, native replay"),
    "C05": dict(
        category="proof",
        text="Structural and value contracts for statements: Sequence.__init__ keeps exactly the non-empty effects in source order "
             "for lists of ANY length and any element kind (fold invariant), flatten_list == flat(ls) for any nesting (fold invariant "
             "+ recursion through its own contract), Sequence/Branch/ForLoop/Assignment il_write emit SEQN/BRANCH/REPEAT/SETL/"
             "WRITE_REG with arms, order, count and C truth of the condition; selection_stmt / for_loop build if(-else) and "
             "init; while(c){body; step}; switch/while/do rejected; empty statements change nothing; emit_final_seq_return orders "
             "immediate initialisers then statements; all 11 assignment operators: exactly one Assignment to the target whose "
             "stored value equals (T)(target op source) for ALL values over 8x8 types (division decided structurally); chained "
             "assignment. Refuted instances replay natively: known findings F5c F6 F7 F29 F31 F31b."
             " Included from neighbouring contracts: all pending side effects of a statement are sequenced with it and a value-unused k++; inside an if / else arm runs in that arm only (C06); the operator of / and % follows the node's own type also for operands of different signedness (C01).",
        design_ref="DESIGN.md section 3, C05",
        note=TRUST + "SEQN/BRANCH/REPEAT denotation lemma (T-RZIL) and statement nesting by induction (T-IND) are metatheory; "
             "pending side effects (C06) excluded here; Sequence.il_write and emit_final_seq_return item lists are enumerated "
             "(lengths 1..6 / 4 shapes).",
        technique="contract-based deductive verification: fold invariants over abstract lists, structural postconditions and "
                  "bit-vector value clauses on the real effect classes and statement callbacks, native replay"),
    "C10": dict(
        category="proof",
        text="Well-sortedness decided on templates for all paths at once: every text-emitting function of the IR classes "
             "(il_read/il_exec/il_write/il_init_var; 112 functions) is executed symbolically on operands of every IR class and type, "
             "the emitted template is parsed and sort-checked against the RzIL typing rules with each operand text typed by its own "
             "contract, and must have sort(node); callbacks establish WF(node) and the state clauses (single width per local, "
             "register write / store / jump target / ret_val widths). Both BRANCH/ITE arms and loop bodies are sub-terms, so every "
             "path is covered. Refuted instances replay natively: known findings F4 F5 F5b F5c F6 F7 F21 F21b F21c F22 F23."
             " Postfix ++/-- keep the operand's width (INC/DEC(v, n) needs n = width of v) for all eight types."
             " Data: the declared helper prototypes (qemu_rzil_macros.json), from which argument widths and the sort of macro calls follow, equal the prototype table.",
        design_ref="DESIGN.md section 3, C10",
        note=TRUST + "Sort rules transcribed in spec/rzil.py (T-RZIL), plugin macro result sorts (T-PLUGIN), composition over depth (T-IND).",
        technique="contract-based deductive verification: emission contracts with a sort checker over symbolic templates (ground + "
                  "z3), callback WF postconditions, modular operand contracts, native replay"),
    "C12": dict(
        category="proof",
        text="Linearity as local contracts on the real code: variable-backed pures return the bare variable iff first use and DUP "
             "otherwise for every read history (symbolic counters); every emitting function embeds each operand text exactly once "
             "(atom linearity on symbolic templates); PureExec/Hybrid declare at most once; the emit loops append each non-empty "
             "il_init_var() exactly once for holder tables of ANY size (fold invariants); callbacks consume every operand they "
             "receive. The global one-raw-use conclusion follows by the linearity lemma (metatheory). Known finding F14."
             " Argument lists of sub-routine calls: value arguments are read exactly once; a borrowed pure parameter passed on goes through il_read (counter advances, first read raw, later reads DUP) - contracts shared with C08."
             " emit_stmt_blocks for any table and any number of operands per statement (three nested fold invariants; seven ground shapes in addition, incl. operand ids 9/10, 99/100 and two statements that print identically); the same operand node in both positions of a node is read twice with one raw use; printing a node (statement comments) reads no operand; no operand holder other than the reset one stays reachable after reset(); parameters of external type are bare names; arguments of plugin calls go through il_read; the dead arm of a folded ?: leaves nothing declared.",
        design_ref="DESIGN.md section 3, C12",
        note=TRUST + "Linearity lemma and induction over the tree are metatheory (T-IND).",
        technique="contract-based deductive verification: atom-linearity of symbolic templates, symbolic read counters (z3 LIA), fold "
                  "invariants over abstract holder tables, structural postconditions of callbacks"),
    "C15": dict(
        category="proof",
        text="Drop-freedom by production coverage: the grammar is loaded with lark on every run and every rule is classified "
             "(callback / transparent / Tree-producing; unknown rule -> undecided); rejecting contracts for goto/continue/break/"
             "return;, while/do/switch, unknown functions, array/member/pointer access, * and &; statement-list consumers "
             "(Sequence.__init__ for lists of ANY length by fold invariant, final instruction sequence) raise on the value of a "
             "rule without handler (labels, comma expressions); Tree-injection: each of 29 callbacks, given an unhandled value in "
             "any child position, raises or keeps it reachable in its result so that a later consumer/emission rejects it."
             " Statement lists of if / else / for bodies including blocks nested in blocks: every statement reaches the emitted sequence, in order (statement-list clauses shared with C05)."
             " A `?rule` with a callback has no alternative consisting of a single terminal (lark would inline it and bypass the rejecting callback).",
        design_ref="DESIGN.md section 3, C15",
        note=TRUST + "lark Transformer dispatch (T-LARK); a Tree still contained in a result is rejected by emission (T-IND); value "
             "placeholders with pending side effects are C06's.",
        technique="contract-based deductive verification: mechanical production inventory + rejecting (raises) contracts + fold "
                  "invariant on the item consumers + per-callback injection obligations, native source-level replay"),
    "C01": dict(
        category="proof",
        text="Lemma over contracts: leaves (C07, C09) -> expressions (C02, C03; here / and % incl. signedness of the emitted operator) -> "
             "statements (C05, C06; here nop, cancel_slot, boolean literals, statement-expression emitters, the type names of "
             "declarations applied bottom-up to the real parse tree of every supported and rejected spelling) -> routines (C08) -> "
             "behaviour (C11-C16) -> instruction: Compiler.transform_insn for ANY number of parts by fold invariant (text k is "
             "transform(ast_k) unchanged and in order, attributes taken after the part, reset before every part, no-op list -> "
             "'return NOP();', an exception of a part propagates and nothing is cached: rejected, never approximated). The "
             "constituent modules' reduced instance sets are re-generated and discharged inside this check; the coverage "
             "obligation is mechanical: each of the 43 callback productions of grammar.lark, every transformer helper and every "
             "non-trivial text-emitting method of every IR class is under contract in some module. Open findings of the "
             "constituents are inherited by reference. Thorough tier: the constituents' complete quick instance sets instead of the "
             "reduced ones, and a monitored compilation of all 2181 bundled definitions in "
             "both layouts and of the 13 bundled routines - structural clauses M1-M7 on the emitted text (declaration shape, sorts by "
             "fixpoint with one sort per local, declared-before-use, linear ownership, final return, layout agreement modulo DUP, "
             "no parser object in the text), M9 (each part's attribute list against that part's text: MEM_WRITE iff STOREW, MEM_READ iff "
             "LOADW, BRANCH iff the jump flag, NEW iff a .new operand, WPRED / WRITE_Pn iff predicate writes) and M8, the callbacks' WF postcondition on every real node registered - run-time "
             "checking, reported separately under monitored_corpus_run, never counted as proved; it shows which shipped "
             "instructions reach an open finding (F1r, F4r, F21d/e).",
        design_ref="DESIGN.md section 3, C01",
        note=TRUST + "The induction over the parse tree that turns per-production contracts into the end-to-end statement is metatheory "
             "(T-IND), as is lark's bottom-up callback order (T-LARK); plugin macros by assumed contracts (T-PLUGIN); a bare "
             "cancel_slot of a non-store has no architectural effect (T-CANCEL); float / HVX behaviours: text-level contracts only.",
        technique="contract-based deductive verification: composition lemma - per-production contracts discharged by z3/cvc5 over the "
                  "real callbacks and emitters, fold invariant for the instruction-level loop, mechanical coverage obligations "
                  "linking every production and emitter to a contract"),
    "C08": dict(
        category="proof",
        text="Calling convention: cast_arg_list for argument lists of ANY length (fold invariant over enumerate(zip(args, params)): "
             "position k alone is replaced, by a well-formed node of the parameter type denoting conv_C11(argument), external / "
             "untyped / string arguments pass through, count mismatch rejected); build_arg_list for ANY length (comma-joined, "
             "values read exactly once, operands of external type by operand variable / parameter name); sub_routine and "
             "macro_expr callbacks per type combination (call of the registered routine, placeholder of the declared return type, "
             "unknown names and count mismatch rejected); C type spelling table; add_sub_routine / compile_sub_routine "
             "(parameters in order, own transformer). Isolation: temporary naming contract <prefix>h_tmp<N> for symbolic N, "
             "compile_sub_routine passes '<name>_', and string lemmas (z3 seq, cvc5) that callee and caller temporaries differ "
             "for all names and numberings incl. nested calls; locals: ground over the 13 bundled bodies + API witness "
             "(known findings F10b F10c)."
             " Data: the 13 bundled routine sources are the reviewed ones (spec/bundled_data.py) and the helper prototypes in qemu_rzil_macros.json are the prototypes of spec/hexagon.MACRO_PROTOTYPES; a consumer of a call result does not retype the routine.",
        design_ref="DESIGN.md section 3, C08",
        note=TRUST + "IL locals and ret_val are instruction wide and hex_<routine>() runs the compiled body (T-RZIL/T-PLUGIN); the return "
             "path is C03's return lemma; 'the body computes what its C source computes' is C01's composition (T-IND); f-string "
             "rendering of ints as digit strings (T-STR).",
        technique="contract-based deductive verification: fold (loop) invariants for the argument loops, postconditions on the call "
                  "callbacks against conv_C11, naming contracts + string disjointness lemmas discharged by z3/cvc5, ground "
                  "obligations over the bundled routines, native replay"),
    "C07": dict(
        category="proof",
        text="Complete finite case analysis over the operand spellings the grammar terminals admit: every register class letter x "
             "access spelling x {plain, .new} (exhaustive), explicit registers single/pair with and without _NEW, aliases, every "
             "immediate letter, every load/store width and signedness, jump target, pc. For each spelling the real callback and "
             "the node's il_init_var()/il_read()/il_write are executed and compared with the architectural table: operand slot "
             "letter, register number, class enum, .new flag, width, signedness; READ_REG/WRITE_REG(bundle, <that operand>, v); "
             "LOADW width/address, STOREW, the access signedness drives widening; the access state machine for all states."
             " The binding does not depend on earlier uses of the same letter with the other .new-ness (history instances); the jump target is recorded at 32 bit with the C value (conversion-context contract shared with C03).",
        design_ref="DESIGN.md section 3, C07",
        note=TRUST + "Architectural table spec/hexagon.py (T-HEX) and plugin macro contracts (T-PLUGIN); alias names sampled (the name "
             "enters the text only through upper()/lower()); explicit numbers sampled in the quick tier, all 20x21 in thorough; "
             "pairs of classes without a pair class (P, M, Q) are outside the domain.",
        technique="contract-based deductive verification: path-complete symbolic execution of the real operand callbacks and emitters "
                  "over an exhaustively enumerated finite spelling domain, postconditions against an architectural table"),
    "C06": dict(
        category="proof",
        text="Ghost-state contracts over the pending table P (h_tmpN -> pending sequence) with SYMBOLIC temporary numbering: "
             "resolve_hybrid adds exactly one entry named by the old counter, orders [tmp-write, effect] for postfix operators "
             "(old value) and [effect, tmp-write] for calls/statement-expressions, leaves other entries untouched and sequences "
             "pending operands of the hybrid first; chk_hybrid_dep sequences exactly the entries named by the consumer's operands, "
             "in operand order, removing them (exactly once); every effect-producing callback routes through it; for-loop steps "
             "run after the body; statement-expression arms of ?: are guarded on the right side; dead arms lose their side "
             "effect. Top-level placement, ?: arms with ++/calls and && || short-circuit are refuted with source-level replays: "
             "known findings F8 F9 F9b."
             " Statement-expressions in both arms are each guarded on their own side; two unused value operations keep their source order also where temporary names do not sort like their numbers (9/10, 99/100); x++ / x-- keep the operand's type for all eight integer types."
             " A value-unused postfix statement inside an if / else arm runs exactly in that arm; statement-expressions whose statement is an if; dead arm and live arm both value-producing when a constant condition is folded; update_stmt keeps the hybrid's operand list in sync; the pending table is empty at the start of every behaviour also after a rejected one (reset / entry-point contracts).",
        design_ref="DESIGN.md section 3, C06",
        note=TRUST + "SEQN / SETL evaluation order (T-RZIL); composition over nesting (T-IND); user variables are not named h_tmp<digits>.",
        technique="contract-based deductive verification with ghost state: structural postconditions over the pending table under "
                  "symbolic numbering, path-complete symbolic execution of the real callbacks, source-level native replay"),
    "C11": dict(
        category="proof",
        text="Well-formedness of the emitted body and soundness of the companion record as contracts on the real code: every "
             "il_init_var() is empty, a comment or `<ctype> [*]<ident> = <expr>;` with valid identifier, balanced parentheses and a "
             "well-sorted initialiser; add_op (the contract all callback modules use) is verified against the real code for every "
             "op kind with a SYMBOLIC counter: num_id = old counter, unique names <base>_<num_id>, de-duplication of variables, "
             "inlined flag, registration table, parameter clash rejected; the emit loops append each initialiser exactly once for "
             "tables of any size (fold invariants) and callbacks number created nodes after their operands (declare before use); "
             "final `return instruction_sequence;` / `return NOP();`; string contracts over symbolic code: mention of hi/pkt => "
             "needs_hi/needs_pkt and => declaration in sub-routine bodies; one getter name/declaration per part; getter names unique "
             "over all 2181 bundled names (ground). Operand identifier clashes are a BOUNDED clause (finite spelling set)."
             " For every history of the compiler instance: the holder tables (registered operands, pending side effects, immediate copies) are empty before each text (reset / entry-point contracts shared with C14), so no stale, undeclared name can enter a later text."
             " Operand-list invariant: every operand an emitter reads is in the node's operand list (declaration order is computed from it); folding a constant ?: leaves no reference to an undeclared sequence.",
        design_ref="DESIGN.md section 3, C11",
        note=TRUST + "A-NAMES (user identifiers do not collide with internal base names) is the one assumption left about add_op; "
             "regex semantics T-RE; bottom-up callback order T-LARK.",
        technique="contract-based deductive verification: declaration-shape and sort obligations on symbolic templates, symbolic "
                  "counters (LIA), fold invariants, string/regex verification conditions (z3 seq + cvc5), ground corpus obligations"),
    "C16": dict(
        category="proof",
        text="Layout equivalence as a lemma over contracts of the real code: fbody composes READ++EXEC++WRITE++final resp. "
             "READ++statements++final (fold shapes; the per-block folds over tables of any size are C12's invariants); read texts "
             "denote the same value for every read history (variable or DUP of it, symbolic counters); get_exec_op_list returns "
             "exactly the reachable executable pures (structural induction: one unfolding per operand kind with the recursive calls "
             "through the function's own contract, flatten_list through its own proved contract; six ground tree shapes in addition); every node a callback creates is registered; a quantified coverage lemma "
             "(z3, uninterpreted node sort) concludes that both layouts initialise every node the final sequence reaches; only "
             "fbody/emit_final_seq_return read code_format (package scan), so IR and attributes are layout independent."
             " Emission frame: every text emitter under contract changes nothing but read / declaration counters, so the text of a node cannot depend on the emission order in which the layouts differ; registration obligations cover all ten compound assignment operators.",
        design_ref="DESIGN.md section 3, C16",
        note=TRUST + "den(DUP t) = den t and irrelevance of initialiser order under declare-before-use (T-RZIL, C11); the conclusion "
             "'equal den of instruction_sequence' is a metatheoretic composition (T-IND) of the discharged clauses.",
        technique="contract-based deductive verification: fold-shape postconditions, symbolic read counters, inductive contract of "
                  "get_exec_op_list, registration postconditions of callbacks, quantified set lemma discharged by z3"),
}

NOT_APPLICABLE = {
    "C17": "Decided by third-party Lark's Earley ambiguity resolution over the data file grammar.lark (rule order, terminal "
           "priorities, hash-seed dependent iteration); no repository function carries the property, so no contract can express it.",
    "C20": "Compares pcpp output with 'standard C preprocessing': needs an independent preprocessor as oracle and third-party "
           "pcpp run over files; only one conjunct (patch_macros) is within reach of contracts, which would not decide the property.",
}
PENDING = "contracts not completed yet in this round (see DESIGN.md section 6); not claimed rather than claimed with a weaker technique"


def main():
    props = [json.loads(l)["id"] for l in open(os.path.join(HERE, "properties.jsonl"))]
    checks = []
    for pid in props:
        if pid not in CHECKS:
            continue
        c = CHECKS[pid]
        checks.append({
            "property_id": pid,
            "quick_cmd": f"bin/check {pid} --tier quick",
            "thorough_cmd": f"bin/check {pid} --tier thorough",
            "evidence_file": f"evidence/{pid}.json",
            "replay_cmd_template": "bin/check --replay {path}",
            "engine": "pyvc",
            "level_claimed": {"category": c["category"], "text": c["text"], "design_ref": c["design_ref"]},
            "level_note": c["note"],
            "technique": c["technique"],
        })
    na = []
    for pid in props:
        if pid in CHECKS:
            continue
        na.append({"property_id": pid, "reason": NOT_APPLICABLE.get(pid, PENDING)})
    man = {
        "version": 1,
        "setup_cmd": "sh setup.sh",
        "hooks": {
            "guard": "RZIL_COMPILER_VERIF",
            "enable": "no source hooks: contracts, monitors and replay are sidecar code under /verif that reads /repo's working tree on every run",
            "baseline_off_cmd": "cd /repo && /venv/bin/python -m pytest -ra -q -p no:cacheprovider --timeout=900 --continue-on-collection-errors",
            "source_commits": [],
            "add_only": True,
        },
        "engines": [{
            "name": "pyvc", "path": "pyvc/",
            "serves_properties": sorted(CHECKS),
            "kind_free_text": "self-generated verification conditions: hosted symbolic interpreter over the ast of the real "
                              "/repo sources (re-read on every run), sidecar contracts in contracts/, z3 + cvc5 back ends, "
                              "native replay of counter-models",
        }],
        "checks": checks,
        "not_applicable": na,
        "notes": "Exit codes of bin/check: 0 held (KNOWN-FINDING lines allowed), 1 violation, 3 checker fault without violation, 2 undecided. "
                 "Known findings: known_findings.json.",
    }
    with open(os.path.join(HERE, "MANIFEST.json"), "w") as f:
        json.dump(man, f, indent=1)
        f.write("\n")
    import jsonschema
    jsonschema.validate(man, json.load(open("/root/.vp/MANIFEST.schema.json")))
    for c in checks:
        p = os.path.join(HERE, c["evidence_file"])
        if os.path.exists(p):
            jsonschema.validate(json.load(open(p)), json.load(open("/root/.vp/EVIDENCE.schema.json")))
    print("MANIFEST ok:", [c["property_id"] for c in checks])


if __name__ == "__main__":
    main()
