"""C01 - shipped behaviours are translated faithfully end to end.

Decided as a LEMMA OVER CONTRACTS (DESIGN.md section 3, C01), not by running programs:
  leaves (C07 operands, C09 literals) -> expressions (C02, C03, and here: / and %) -> statements (C05, C06; here: nop,
  cancel_slot, type names of declarations) -> routines (C08) -> whole behaviour (C11 fbody order, C12 linearity, C13
  attributes, C14 state, C15 rejection, C16 layouts) -> instruction (here: transform_insn for ANY number of parts).
The constituent contract modules are re-generated (their reduced instance sets) inside this check, so that a change
breaking any link fails here as well, and the *coverage obligation* is decided mechanically: every grammar production that
reaches a callback, and every text-emitting method of every IR class, is under contract in at least one module.
Every open finding of the constituents is a finding of C01 (inherited by reference).
The thorough tier adds a monitored compilation of the whole bundled corpus (run-time checking, reported separately,
never counted as proved).
"""
from __future__ import annotations
import ast
import importlib
import os
import re
import time
import z3
from lark import Token, Tree

from pyvc.interp import explore, AbsSeq, AbsAcc, LoopContract
from pyvc.loader import FuncInfo, ClassInfo
from pyvc.values import Obj, Tpl, Atom, SInt, Unsupported
from pyvc.vc import Check
from pyvc import replay
from spec import c11, ir
from . import irkit, tkit, emit, c02
from .common import WORKERS, T8, tname, conc_vt, run_mutants

PROP = "C01"
M_X = "rzilcompiler.HexagonExtensions"

CONSTITUENTS = ["c02", "c03", "c05", "c06", "c07", "c08", "c09", "c11", "c12", "c13", "c14", "c15", "c16", "c18", "c19"]

MUTANTS = [
    {"name": "ArithmeticOp.il_exec: / emits MOD", "file": "rzilcompiler/Transformer/Pures/ArithmeticOp.py",
     "old": '            code = f"DIV("', "new": '            code = f"MOD("'},
    {"name": "multiplicative_expr: / operands not converted to the common type", "file": "rzilcompiler/Transformer/RZILTransformer.py",
     "old": "        a, b = self.cast_operands(a=a, b=b, immutable_a=False)\n        v = ArithmeticOp(name, a, b, op_type)", "new": "        v = ArithmeticOp(name, a, b, op_type)"},
    {"name": "ArithmeticOp.il_exec: signed division emitted with the unsigned operator", "file": "rzilcompiler/Transformer/Pures/ArithmeticOp.py",
     "old": "            and self.value_type.signed\n", "new": "            and False\n"},
    {"name": "multiplicative_expr: % operands not promoted", "file": "rzilcompiler/Transformer/RZILTransformer.py",
     "old": "        a = self.promotion_cast(a)\n        b = self.promotion_cast(b)\n        a, b = self.cast_operands(a=a, b=b, immutable_a=False)\n        v = ArithmeticOp(name, a, b, op_type)",
     "new": "        if op_type != ArithmeticType.MOD:\n            a = self.promotion_cast(a)\n            b = self.promotion_cast(b)\n        a, b = self.cast_operands(a=a, b=b, immutable_a=False)\n        v = ArithmeticOp(name, a, b, op_type)"},
    {"name": "get_value_type_by_resource_type: sizeNs_t width in bits taken as bytes", "file": "rzilcompiler/HexagonExtensions.py",
     "old": 'return ValueType(tokens[1] == "s", int(tokens[0]) * 8)', "new": 'return ValueType(tokens[1] == "s", int(tokens[0]))'},
    {"name": "get_value_type_by_resource_type: uintN_t signed", "file": "rzilcompiler/HexagonExtensions.py",
     "old": 'return ValueType(tokens[0] == "int", int(tokens[1]))', "new": 'return ValueType(True, int(tokens[1]))'},
    {"name": "declaration_specifiers: unsigned ignored", "file": "rzilcompiler/Transformer/RZILTransformer.py",
     "old": "            t.signed = False\n            return t", "new": "            return t"},
    {"name": "transform_insn: parts emitted in reverse order", "file": "rzilcompiler/Compiler.py",
     "old": "                    rzil.append(self.transformer.transform(pt))", "new": "                    rzil.insert(0, self.transformer.transform(pt))"},
    {"name": "transform_insn: translation errors swallowed (part approximated by NOP)", "file": "rzilcompiler/Compiler.py",
     "old": "                    rzil.append(self.transformer.transform(pt))", "new": "                    try:\n                        rzil.append(self.transformer.transform(pt))\n                    except Exception:\n                        rzil.append(\"return NOP();\")"},
    {"name": "transform_insn: every instruction treated as no-op", "file": "rzilcompiler/Compiler.py",
     "old": "                if insn in self.noped_insns:", "new": "                if insn:"},
    {"name": "cancel_slot_stmt: statement dropped (returns nothing)", "file": "rzilcompiler/Transformer/RZILTransformer.py",
     "old": '        return self.add_op(self.chk_hybrid_dep(self.add_op(NOP(f"nop"))))', "new": '        self.add_op(self.chk_hybrid_dep(self.add_op(NOP(f"nop"))))'},
]


# ------------------------------------------------------------------------------------------ / and %
def gen_division(loader, check, replay_on=True, types=None):
    AT = irkit.enum(loader, "ArithmeticOp", "ArithmeticType")
    c = irkit.C(loader, "ArithmeticOp")
    check.under_contract(loader, c.methods["il_exec"], c.methods["__init__"])
    for t in (types or T8):
        for op in ("/", "%"):
            def build(it, t=t, op=op):
                a, b = irkit.mk_operand(it, "Variable", t, "a"), irkit.mk_operand(it, "Variable", t, "b")
                x, y = a.ghost["den"], b.ghost["den"]
                # C: undefined for a zero divisor and for an unrepresentable quotient
                it.ctx.assume(z3.And(y != 0, z3.Not(z3.And(x == z3.BitVecVal(1 << (t[1] - 1), t[1]), y == z3.BitVecVal(-1, t[1])))) if t[0] else y != 0)
                return it.call(c, ["op", a, b, AT(op)], {}), [a, b]
            emit.run_emission(check, loader, f"ArithmeticOp.il_exec({op})", f"type={tname(t)} kinds=Variable,Variable", build,
                              replay_builder=(lambda sp, op=op: ["arith", op, sp[0], sp[1]]) if replay_on else None)
    # operands of the same width but different signedness (what `a %= b` / `a /= b` build for an unsigned target and a signed source):
    # the operator follows the node's own (result) type
    for w in (32, 64):
        for sa in (False, True):
            for op in ("/", "%"):
                ta, tb = (sa, w), (not sa, w)

                def build_m(it, ta=ta, tb=tb, op=op):
                    a, b = irkit.mk_operand(it, "Variable", ta, "a"), irkit.mk_operand(it, "Variable", tb, "b")
                    x, y = a.ghost["den"], b.ghost["den"]
                    it.ctx.assume(z3.And(y != 0, z3.Not(z3.And(x == z3.BitVecVal(1 << (ta[1] - 1), ta[1]), y == z3.BitVecVal(-1, ta[1])))) if ta[0] else y != 0)
                    return it.call(c, ["op", a, b, AT(op)], {}), [a, b]
                emit.run_emission(check, loader, f"ArithmeticOp.il_exec({op})", f"type(a)={tname(ta)} type(b)={tname(tb)} kinds=Variable,Variable", build_m,
                                  replay_builder=(lambda sp, op=op: ["arith", op, sp[0], sp[1]]) if replay_on else None)
    c02.gen_callbacks(loader, check, [("Variable", "Variable")], replay_on, families=["div"])


# ------------------------------------------------------------------------------------------ type names of declarations
TYPE_TABLE = {"int8_t": (True, 8), "uint8_t": (False, 8), "int16_t": (True, 16), "uint16_t": (False, 16), "int32_t": (True, 32), "uint32_t": (False, 32),
              "int64_t": (True, 64), "uint64_t": (False, 64), "size1s_t": (True, 8), "size1u_t": (False, 8), "size2s_t": (True, 16), "size2u_t": (False, 16),
              "size4s_t": (True, 32), "size4u_t": (False, 32), "size8s_t": (True, 64), "size8u_t": (False, 64), "int": (True, 32), "unsigned": (False, 32),
              "unsigned int": (False, 32), "const uint32_t": (False, 32), "const int64_t": (True, 64)}
TYPE_REJECTED = ["char", "short", "long", "float", "double", "signed", "_Bool", "void"]
_TREES = {}


TYPE_CONTEXTS = {"declaration": "{ %s x; }", "cast": "{ y = (%s) x; }"}


def type_trees(repo):
    """the children lists the type callbacks receive, taken from the real grammar (lark) for `{ <type> x; }` and `{ y = (<type>) x; }`"""
    if not _TREES:
        from lark import Lark
        with open(os.path.join(repo, "Resources/Hexagon/grammar.lark")) as f:
            L = Lark(f.read(), start="fbody", parser="earley")
        for ctx, pat in TYPE_CONTEXTS.items():
            for sp in list(TYPE_TABLE) + TYPE_REJECTED:
                try:
                    tree = L.parse(pat % sp)
                except Exception as e:     # not in the grammar at all: rejected by the parser
                    _TREES[(ctx, sp)] = ("parse-error", type(e).__name__)
                    continue
                decl = [t for t in tree.iter_subtrees() if t.data in ("declaration_specifiers", "type_specifier", "specifier_qualifier_list")]
                _TREES[(ctx, sp)] = ("ok", tree, [t.data for t in decl])
    return _TREES


class _TypeOnly(Exception):
    pass


def gen_types(loader, check, replay_on=True):
    """the sub-transformation of the declaration's type: the real callbacks type_specifier / declaration_specifiers /
    specifier_qualifier_list / get_value_type_by_resource_type are applied bottom-up to the real parse tree"""
    T = loader.load(tkit.M_T).globals["RZILTransformer"]
    X = loader.load(M_X).globals["HexagonTransformerExtension"]
    check.under_contract(loader, T.methods["type_specifier"], T.methods["declaration_specifiers"], T.methods["specifier_qualifier_list"],
                         X.methods["get_value_type_by_resource_type"])
    trees = type_trees(loader.repo)
    CB = ("type_specifier", "declaration_specifiers", "specifier_qualifier_list")

    def fold(it, t, node):
        """lark's bottom-up order restricted to the type sub-tree"""
        if not isinstance(node, Tree):
            return node
        kids = [fold(it, t, k) for k in node.children]
        if node.data in CB:
            return it.call(tkit.method(it, t, node.data), [kids], {})
        return Tree(node.data, kids)

    for ctx, sp in [(c, s_) for c in TYPE_CONTEXTS for s_ in list(TYPE_TABLE) + TYPE_REJECTED]:
        ent = trees[(ctx, sp)]
        fam = f"{ctx}-type"
        check.instances_declared += 1
        if ent[0] == "parse-error":
            check.instances_generated += 1
            check.ob(f"{fam}#rejected", sp, [], sp in TYPE_REJECTED, detail=f"the grammar rejects the spelling ({ent[1]})")
            continue
        tree = ent[1]
        tops = [t for t in tree.iter_subtrees_topdown() if t.data in CB]
        if not tops:
            check.undecided.append((f"{ctx} type {sp}", "no type callback production in the parse tree (needs contract)"))
            continue
        top = tops[0]

        def setup(it):
            return {"t": tkit.mk_transformer(it)}
        ex = explore(loader, setup, lambda it, st, top=top: fold(it, st["t"], top))
        check.absorb(ex, f"{ctx} type {sp}")
        if ex.paths:
            check.instances_generated += 1
        for p in ex.paths:
            if sp in TYPE_REJECTED:
                check.ob(f"{fam}#rejected", sp, p.ctx.pc, p.outcome == "raise" and issubclass(p.value.cls, (NotImplementedError, ValueError)),
                         detail=f"{p.outcome} {p.value!r}")
                continue
            ok = p.outcome == "return" and isinstance(p.value, Obj) and ir.vt_of(p.value) == TYPE_TABLE[sp]
            if ctx == "cast" and sp.startswith("const ") and p.outcome == "raise":
                # a qualified type name in a cast is not implemented: it is refused with an exception (never given another type)
                check.ob(f"{fam}#rejected", sp, p.ctx.pc, True, detail=f"raise {p.value!r}")
                continue
            check.ob(f"{fam}#table: type spelling -> (signedness, width)", sp, p.ctx.pc, ok, detail=f"{p.outcome} {p.value!r}",
                     replay=("c01.type", lambda mdl, sp=sp, ctx=ctx: {"spelling": sp, "context": ctx}) if replay_on else None)
            if ok and sp.startswith("const "):
                G = loader.load("rzilcompiler.Transformer.ValueType").globals["VTGroup"]
                check.ob(f"{fam}#const-is-recorded", sp, p.ctx.pc, bool(p.value.fields["group"] & G.CONST))


def gen_type_history(loader, check, replay_on=True):
    """the type a spelling denotes does not depend on the declarations translated before it: `const T x` must not make a later plain `T y` const
    (type objects are not shared between declarations, or are never modified once handed out)"""
    T = loader.load(tkit.M_T).globals["RZILTransformer"]
    trees = type_trees(loader.repo)
    CB = ("type_specifier", "declaration_specifiers", "specifier_qualifier_list")
    G = loader.load("rzilcompiler.Transformer.ValueType").globals["VTGroup"]

    def fold(it, t, node):
        if not isinstance(node, Tree):
            return node
        kids = [fold(it, t, k) for k in node.children]
        if node.data in CB:
            return it.call(tkit.method(it, t, node.data), [kids], {})
        return Tree(node.data, kids)
    for first, second in (("const uint32_t", "uint32_t"), ("const int64_t", "int64_t"), ("uint32_t", "const uint32_t")):
        e1, e2 = trees[("declaration", first)], trees[("declaration", second)]
        if e1[0] != "ok" or e2[0] != "ok":
            check.undecided.append((f"type history {first} / {second}", "spelling not parsed by the grammar (needs contract)"))
            continue
        tops = [[t for t in e[1].iter_subtrees_topdown() if t.data in CB][0] for e in (e1, e2)]
        inst = f"`{first} a;` then `{second} b;`"
        check.instances_declared += 1

        def run(it, st, tops=tops):
            a = fold(it, st["t"], tops[0])
            ga = a.fields["group"]
            b = fold(it, st["t"], tops[1])
            return a, ga, b
        ex = explore(loader, lambda it: {"t": tkit.mk_transformer(it)}, run)
        check.absorb(ex, f"type history {inst}")
        if ex.paths:
            check.instances_generated += 1
        for p in ex.paths:
            if p.outcome != "return":
                check.ob("declaration-type#history.total", inst, p.ctx.pc, False, detail=f"raises {p.value!r}")
                continue
            a, ga, b = p.value
            want_a, want_b = first.startswith("const "), second.startswith("const ")
            ok = bool(ga & G.CONST) == want_a and bool(a.fields["group"] & G.CONST) == want_a and bool(b.fields["group"] & G.CONST) == want_b
            check.ob("declaration-type#history: const-ness of a declared type is independent of the declarations before and after it", inst, p.ctx.pc, ok,
                     detail=f"first const: {bool(a.fields['group'] & G.CONST)} (at its declaration {bool(ga & G.CONST)}), second const: {bool(b.fields['group'] & G.CONST)}",
                     replay=("c01.type_history", lambda mdl: {}) if replay_on else None)


@replay.register("c01.type_history")
def replay_type_history(a):
    c = irkit.real_compiler()
    out = []
    for stmt in ("{ const uint64_t k = 1; RddV = k; }", "{ uint64_t s; s = RssV; RddV = s; }", "{ const int32_t k = 1; RdV = k; }", "{ int32_t s; s = RsV; RdV = s; }"):
        try:
            c.compile_c_stmt(stmt)
            out.append("ok")
        except Exception as e:          # noqa: BLE001
            out.append(f"{type(e).__name__}: {str(e).splitlines()[-1][:80]}")
    return out != ["ok"] * 4, f"a const declaration followed by a plain one of the same type: {out}"


@replay.register("c01.type")
def replay_type(a):
    c = irkit.real_compiler()
    sp = a["spelling"]
    want = TYPE_TABLE[sp]
    if a.get("context") == "cast":
        # the cast's target type decides how a wider / narrower source is converted and how the result shifts right
        src = "RssV" if want[1] < 64 else "RsV"
        txt = c.compile_c_stmt("{ " + ("uint64_t" if want[1] == 64 else "uint32_t") + " y = ((" + sp + ") " + src + ") >> 1; }")
        shift = re.search(r"(SHIFTRA|SHIFTR0)\(", txt)
        casts = re.findall(r"CAST\((\d+), (MSB\([^()]*(?:\([^()]*\))?[^()]*\)|IL_FALSE), ", txt)
        bad = not shift or (shift.group(1) == "SHIFTRA") != want[0] or not any(int(w) == want[1] for w, _ in casts)
        return bad, f"{{ y = (({sp}) {src}) >> 1; }} emits {shift.group(1) if shift else None} after casts {casts}; the C type is {tname(want)}"
    txt = c.compile_c_stmt("{ " + sp + " x = 0; }")
    m = re.search(r'SETL\("x", (.*?)\);', txt)
    got = m.group(1) if m else None
    lit = re.search(r"(SN|UN)\((\d+),", got or "")
    bad = not lit or (lit.group(1) == "SN") != want[0] or int(lit.group(2)) != want[1]
    return bad, f"{{ {sp} x = 0; }} initialises x with {got}; the C type is {tname(want)}"


# ------------------------------------------------------------------------------------------ nop / cancel_slot
def gen_misc(loader, check, replay_on=True):
    from . import catalog
    catalog.gen_data_pins(loader, check, replay_on)
    T = loader.load(tkit.M_T).globals["RZILTransformer"]
    NOP = irkit.C(loader, "NOP")
    check.under_contract(loader, T.methods["nop"], T.methods["cancel_slot_stmt"], NOP.methods["il_write"], NOP.methods["__init__"])
    for cb in ("nop", "cancel_slot_stmt"):
        check.instances_declared += 1

        def setup(it):
            t = tkit.mk_transformer(it)
            it.ctx.mark_pre(t)
            return {"t": t}
        ex = explore(loader, setup, lambda it, st, cb=cb: it.call(tkit.method(it, st["t"], cb), [[]], {}))
        check.absorb(ex, cb)
        if ex.paths:
            check.instances_generated += 1
        for p in ex.paths:
            ok = p.outcome == "return" and isinstance(p.value, Obj) and p.value.cls is NOP
            check.ob(f"{cb}#yields-the-empty-effect (a statement that changes no architectural state)", cb, p.ctx.pc, ok, detail=f"{p.outcome} {p.value!r}")
            if ok:
                txt = p.ctx and None
    check.instances_declared += 1
    ex = explore(loader, lambda it: {"n": it.call(NOP, ["nop"], {})}, lambda it, st: it.call(it.getattr_(st["n"], "il_write"), [], {}))
    check.absorb(ex, "NOP.il_write")
    if ex.paths:
        check.instances_generated += 1
    for p in ex.paths:
        check.ob("NOP.il_write#text", "NOP", p.ctx.pc, p.outcome == "return" and p.value == "NOP()", detail=repr(p.value))
    # boolean literals (results of folded comparisons): text and declaration
    B = irkit.C(loader, "Bool")
    check.under_contract(loader, B.methods["il_read"], B.methods["il_init_var"], B.methods["__init__"])
    for val in (True, False):
        for inl in (True, False):
            check.instances_declared += 1

            def setup_b(it, val=val, inl=inl):
                b = it.call(B, ["True" if val else "False", val], {})
                b.fields["inlined"] = inl
                return {"b": b}
            ex = explore(loader, setup_b, lambda it, st: (it.call(it.getattr_(st["b"], "il_read"), [], {}), it.call(it.getattr_(st["b"], "il_init_var"), [], {}), st["b"]))
            check.absorb(ex, "Bool")
            if ex.paths:
                check.instances_generated += 1
            for p in ex.paths:
                inst = f"value={val} inlined={inl}"
                if p.outcome != "return":
                    check.ob("Bool.il_read#total", inst, p.ctx.pc, False, detail=repr(p.value))
                    continue
                r, d, b = p.value
                lit = "IL_TRUE" if val else "IL_FALSE"
                check.ob("Bool.il_read#text denotes the literal's truth value", inst, p.ctx.pc, r == lit and ir.sort(b) == "bool" and z3.is_true(z3.simplify(ir.den(b) == z3.BoolVal(val))), detail=repr(r))
                want = "" if inl else f"RzILOpBool *{b.fields['name']} = {lit}"
                dd = d.render() if isinstance(d, Tpl) else d
                check.ob("Bool.il_init_var#declaration: nothing when inlined, else an RzILOpBool bound to the literal", inst, p.ctx.pc, dd == want, detail=repr(dd))
    # statement-expression: every emitter delegates to its statement / its value
    Gx = irkit.C(loader, "GCCStmtDeclExpr")
    check.under_contract(loader, Gx.methods["il_exec"], Gx.methods["il_write"], Gx.methods["il_read"])
    check.instances_declared += 1

    def setup_g(it):
        from . import c05
        st = c05.mk_effect(it, loader, "Assignment", "stmt")
        st.stubs["il_exec"] = lambda it_, o, a, k: Tpl([Atom("stmt.exec", 0, kind="text")])
        v = irkit.mk_operand(it, "Variable", (True, 32), "val")
        return {"g": it.call(Gx, ["gcc_expr", st, v, v.fields["value_type"]], {}), "v": v}
    ex = explore(loader, setup_g, lambda it, st: (it.call(it.getattr_(st["g"], "il_exec"), [], {}), it.call(it.getattr_(st["g"], "il_read"), [], {})))
    check.absorb(ex, "GCCStmtDeclExpr")
    if ex.paths:
        check.instances_generated += 1
    for p in ex.paths:
        ok = p.outcome == "return" and isinstance(p.value[0], Tpl) and [getattr(a, "tag", a) for a in p.value[0].parts] == ["stmt.exec"]
        check.ob("GCCStmtDeclExpr.il_exec#delegates to its statement", "stmt-expr", p.ctx.pc, ok, detail=repr(p.value))
        ok = p.outcome == "return" and isinstance(p.value[1], Tpl) and len(p.value[1].parts) == 1 and getattr(p.value[1].parts[0], "tag", None) == "val"
        check.ob("GCCStmtDeclExpr.il_read#is the read of its value expression", "stmt-expr", p.ctx.pc, ok, detail=repr(p.value))


# ------------------------------------------------------------------------------------------ transform_insn, any number of parts
class PartsLoop(LoopContract):
    """for pt, text in zip(asts, behaviors):   invariant: rzil == [T(ast_j) | j < k], meta == [A(ast_j) | j < k], and the transformer
    is reset before every part"""
    name = "transform_insn.parts"

    def __init__(self, log):
        self.log = log
        self.k = z3.Int("k")

    def index_term(self):
        return self.k

    def check_entry(self, it, env, seq):
        self.oblige(it, "transform_insn#loop.base: accumulators empty on entry", "", env.vars.get("rzil") == [] and env.vars.get("meta") == [] and env.vars.get("trees") == [])

    def havoc_prefix(self, it, env, seq):
        it.ctx.assume(z3.And(self.k >= 0, self.k < seq.length))
        for v in ("rzil", "meta", "trees"):
            env.vars[v] = AbsAcc(v, self.k, {"spec": f"{v} of parts[0:k]"})
        del self.log[:]

    def make_element(self, it, kind, seq):
        tr = Obj(irkit.C(it.loader, "Pure"), label="ast_k")
        tr.stubs["pretty"] = lambda it_, o, a, k: "<pretty ast_k>"
        return (tr, "<behaviour k>")

    def check_step(self, it, env, seq, kind, elem, broke):
        rz, me, trs = env.vars.get("rzil"), env.vars.get("meta"), env.vars.get("trees")
        ok = all(isinstance(x, AbsAcc) and len(x.tail) == 1 for x in (rz, me, trs)) and not broke
        self.oblige(it, "transform_insn#loop.step: exactly one text, one attribute list and one tree appended per part", "", ok)
        if not ok:
            return
        self.step = (rz.tail[0], me.tail[0], trs.tail[0], list(self.log))

    def havoc_exit(self, it, env, seq):
        for v in ("rzil", "meta", "trees"):
            env.vars[v] = AbsAcc(v, seq.length, {"spec": f"{v} of parts[0:n]", "all": True})


def gen_transform_insn(loader, check, replay_on=True):
    Comp = loader.load("rzilcompiler.Compiler").globals["Compiler"]
    PI = loader.load("rzilcompiler.Parser").globals["ParsedInsn"]
    RI = loader.load("rzilcompiler.Compiler").globals["RZILInstruction"]
    check.under_contract(loader, Comp.methods["transform_insn"], Comp.methods["compile_insn"])
    for noped in (False, True):
        for raises in (False, True):
            if noped and raises:
                continue
            inst = f"parts=any noped={noped} part-translation-{'raises' if raises else 'returns'}"
            check.instances_declared += 1
            log = []
            holder = {}

            def setup(it, noped=noped, raises=raises):
                del log[:]
                c = Obj(Comp)
                t = tkit.mk_transformer(it, stub_add_op=False, symbolic_count=False)
                c.fields["transformer"] = t
                c.fields["ext"] = it.call(loader.load(M_X).globals["HexagonCompilerExtension"], [], {})
                c.fields["noped_insns"] = ["J2_foo"] if noped else ["other"]
                c.fields["compiled_insns"] = {}
                loop = PartsLoop(log)
                holder["loop"] = loop
                asts = AbsSeq("asts", loop)
                it.ctx.assume(asts.length >= 0)
                pi = Obj(PI)
                pi.fields["asts"] = asts
                pi.fields["behaviors"] = AbsSeq("behaviors", loop, asts.length)
                pi.fields["name"] = "J2_foo"

                def transform(it_, f, a, k):
                    log.append(("transform", a[1].label if isinstance(a[1], Obj) else a[1], a[0] is t))
                    if raises:
                        from pyvc.interp import PyRaise
                        from pyvc.values import ExcVal
                        raise PyRaise(ExcVal(NotImplementedError, ["unsupported construct"]))
                    return Tpl([Atom("T(ast_k)", 0, kind="text")])
                def record(it_, cls, a, k):
                    # contract of RZILInstruction(name, rzil, meta, trees) (its constructor is verified in C11): the record holds the lists given
                    r = Obj(RI)
                    r.fields.update({"name": a[0], "rzil": a[1], "meta": a[2], "parse_trees": a[3]})
                    return r
                it.ctx.contracts["rzilcompiler.Compiler.RZILInstruction"] = record
                it.ctx.contracts["Transformer.transform"] = transform
                it.ctx.contracts[f"{tkit.M_T}.RZILTransformer.reset"] = lambda it_, f, a, k: log.append(("reset",))
                it.ctx.contracts[f"{M_X}.HexagonTransformerExtension.get_meta"] = lambda it_, f, a, k: (log.append(("get_meta",)), ["<A(ast_k)>"])[1]
                return {"c": c, "pi": pi, "t": t}
            ex = explore(loader, setup, lambda it, st: it.call(it.getattr_(st["c"], "transform_insn"), ["J2_foo", st["pi"]], {}))
            check.absorb(ex, f"transform_insn {inst}")
            if ex.paths:
                check.instances_generated += 1
            seen = set()
            for i, p in enumerate(ex.paths):
                pi_ = f"{inst} path={i}"
                pc = p.ctx.pc
                check.path_obligations(p, pi_)
                seen.add(p.outcome)
                lg = list(log)
                if p.outcome == "loop-step":
                    st = getattr(holder["loop"], "step", None)
                    if st is None:
                        continue
                    text, meta, tree, slog = st
                    if noped:
                        check.ob("transform_insn#no-op-list: the part is emitted as 'return NOP();' with the NONE attribute and is not translated", pi_, pc,
                                 text == "return NOP();" and meta == ["HEX_IL_INSN_ATTR_NONE"] and not any(e[0] == "transform" for e in slog), detail=f"{text!r} {meta!r} {slog}")
                    else:
                        is_t = isinstance(text, Tpl) and len(text.parts) == 1 and isinstance(text.parts[0], Atom) and text.parts[0].tag == "T(ast_k)"
                        check.ob("transform_insn#loop.step: the text of part k is transform(ast_k), unchanged", pi_, pc, bool(is_t), detail=repr(text))
                        check.ob("transform_insn#loop.step: the attributes of part k are get_meta() taken after its translation", pi_, pc,
                                 meta == ["<A(ast_k)>"] and [e[0] for e in slog] == ["reset", "transform", "get_meta"], detail=f"{meta!r} {slog}")
                        check.ob("transform_insn#loop.step: part k is translated by the compiler's own transformer", pi_, pc, any(e[0] == "transform" and e[1] == "ast_k" and e[2] for e in slog))
                    check.ob("transform_insn#loop.step: the transformer is reset before the part", pi_, pc, bool(slog) and slog[0] == ("reset",) if not noped else ("reset",) in slog, detail=str(slog))
                    continue
                if raises and not noped:
                    # never approximated: the exception of a part's translation propagates (and the state is reset, C14)
                    if p.outcome == "raise":
                        check.ob("transform_insn#rejected-part-propagates-its-exception", pi_, pc, p.value.cls is NotImplementedError, detail=repr(p.value))
                        check.ob("transform_insn#nothing-cached-for-a-rejected-instruction", pi_, pc, p.state["c"].fields["compiled_insns"] == {})
                    continue
                check.ob("transform_insn#total", pi_, pc, p.outcome == "return", detail="" if p.outcome == "return" else f"raises {p.value!r}")
                if p.outcome != "return":
                    continue
                r = p.value
                ok = isinstance(r, Obj) and r.cls is RI
                check.ob("transform_insn#ensures: result holds the fold over ALL parts, in order", pi_, pc,
                         ok and all(isinstance(r.fields.get(f), AbsAcc) and r.fields[f].ghost.get("all") and not r.fields[f].tail for f in ("rzil", "meta")),
                         detail=repr(r.fields if ok else r))
                check.ob("transform_insn#ensures: cached under the instruction name", pi_, pc, ok and p.state["c"].fields["compiled_insns"].get("J2_foo") is r)
            if not ex.undecided:
                want = {"raise"} if raises else {"loop-step", "return"}
                check.ob("transform_insn#loop.paths", inst, [], want <= seen, detail=str(seen))


# ------------------------------------------------------------------------------------------ coverage lemma
EMITTERS = ("il_read", "il_exec", "il_write", "il_init_var", "il_init", "il_isa_to_assoc_var")
# text-emitting methods that no accepted behaviour can reach, with the reason (reviewed list; a new entry needs a reason)
EMITTER_EXEMPT = {
}


def ir_emitters(loader):
    out = {}
    base = os.path.join(loader.repo, "rzilcompiler/Transformer")
    for sub in ("Pures", "Effects", "Hybrids"):
        for fn in sorted(os.listdir(os.path.join(base, sub))):
            if not fn.endswith(".py") or fn == "__init__.py":
                continue
            m = loader.load(f"rzilcompiler.Transformer.{sub}.{fn[:-3]}")
            for name, c in m.globals.items():
                if isinstance(c, ClassInfo) and c.module is m:
                    for mn, f in c.methods.items():
                        if mn in EMITTERS and isinstance(f, FuncInfo):
                            out[f.qualname] = f
    return out


def _trivial(f: FuncInfo):
    """raise-only / return-''-only / pass bodies carry no translation"""
    body = [s for s in f.node.body if not (isinstance(s, ast.Expr) and isinstance(s.value, ast.Constant))]
    if not body:
        return True
    if len(body) == 1:
        s = body[0]
        if isinstance(s, ast.Raise) or isinstance(s, ast.Pass):
            return True
        if isinstance(s, ast.Return) and (s.value is None or (isinstance(s.value, ast.Constant) and s.value.value in ("", None))):
            return True
    return False


def coverage_lemma(loader, check):
    from . import c15
    sink = Check(PROP, check.tier)
    c15.gen_inventory(loader, sink, False)
    inv = sink.extra["production_inventory"]
    check.undecided.extend(sink.undecided)
    covered = set(check.functions)
    T = loader.load(tkit.M_T).globals["RZILTransformer"]
    n = 0
    for prod, cls in sorted(inv.items()):
        if cls != "callback":
            continue
        q = f"{tkit.M_T}.RZILTransformer.{prod}"
        n += 1
        check.ob("coverage#every translating production has a contract", prod, [], q in covered, detail=f"{q} is not under contract in any constituent module")
    check.ob("coverage#scanned", f"{n} callback productions", [], n > 40)
    # helpers called by callbacks: every method of the transformer that is not a production
    for name, f in sorted(T.methods.items()):
        if isinstance(f, FuncInfo) and name not in inv and not name.startswith("__") and name not in ("update_sub_routines", "update_macros"):
            q = f.qualname
            check.ob("coverage#every transformer helper has a contract", name, [], q in covered, detail=f"{q} is not under contract")
    em = ir_emitters(loader)
    miss = []
    for q, f in sorted(em.items()):
        if _trivial(f):
            continue
        ok = q in covered or q in EMITTER_EXEMPT
        if not ok:
            miss.append(q)
        check.ob("coverage#every text-emitting IR method has an emission contract", q.replace("rzilcompiler.Transformer.", ""), [], ok,
                 detail=f"{q} is not under contract in any constituent module")
    check.extra["coverage"] = {"callback_productions": n, "emitting_methods": len(em), "trivial_emitters_skipped": sum(1 for f in em.values() if _trivial(f)),
                               "exempt": EMITTER_EXEMPT}
    check.instances_declared += 1
    check.instances_generated += 1


# ------------------------------------------------------------------------------------------ dispatch
def gen_task(loader, check, what, replay_on=True):
    {"division": gen_division, "types": gen_types, "misc": gen_misc, "transform_insn": gen_transform_insn}[what](loader, check, replay_on)
    if what == "types":
        gen_type_history(loader, check, replay_on)


def constituent(loader, check, module):
    """re-generates the reduced instance set of a constituent contract module into this check"""
    mod = importlib.import_module(f"contracts.{module}")
    for attr in ("z3_timeout_ms", "cvc5_timeout_ms", "cvc5_models", "string_refute_bound"):
        if hasattr(mod, attr.upper()):
            setattr(check, attr, getattr(mod, attr.upper()))
    t0 = time.time()
    n0 = len(check.obs)
    mod.generate_reduced(loader, check)
    for ob in check.obs[n0:]:
        ob.family = f"{module.upper()}:{ob.family}" if getattr(ob, "family", None) else module.upper()
    check.extra[f"constituent_{module}"] = {"obligations": len(check.obs) - n0, "generation_s": round(time.time() - t0, 1)}


def full_constituent(check, module):
    """thorough tier: the constituent's complete quick instance set (its own run() with a sink that neither writes evidence nor
    runs the mutant self-test), merged into this check"""
    mod = importlib.import_module(f"contracts.{module}")
    sub = Check(PROP, "quick", check.seed)
    sub.inherit_findings = True
    sub.finish = lambda **kw: 0
    saved = getattr(mod, "run_mutants", None)
    if saved is not None:
        mod.run_mutants = lambda *a, **k: None
    t0 = time.time()
    try:
        mod.run(sub)
    finally:
        if saved is not None:
            mod.run_mutants = saved
    sub.discharge()
    d = sub.export()
    for r in d["obs"]:
        r["family"] = f"{module.upper()}(full):{r['family']}" if r.get("family") else f"{module.upper()}(full)"
    check.merge(d)
    for t in sub.trusted:
        if t not in check.trusted:
            check.trusted.append(t)
    check.extra[f"constituent_full_{module}"] = {"obligations": len(d["obs"]), "seconds": round(time.time() - t0, 1)}


def generate_reduced(loader, check):
    for w in ("division", "types", "misc", "transform_insn"):
        gen_task(loader, check, w, False)


def run(check: Check):
    check.inherit_findings = True
    check.trust("T-VCGEN: pyvc interpretation of the Python subset (mutant self-test, native replay)")
    check.trust("T-IND: the end-to-end statement follows from the per-production contracts by structural induction over the parse tree "
                "(every callback's contract speaks only about its children's sort/type/denotation); the induction itself is metatheory")
    check.trust("T-C11 / T-RZIL / T-HEX / T-PLUGIN: the specification modules spec/c11.py, spec/rzil.py, spec/hexagon.py and the plugin macro contracts")
    check.trust("T-QEMU: spec/bundled_data.py - the reviewed no-op list and the reviewed C sources of the 13 bundled sub-routines (the data files are "
                "compared with them; whether those sources transcribe QEMU's helpers faithfully is a review statement, not an obligation)")
    check.trust("T-LARK: lark applies the callbacks bottom-up, one per production instance (Transformer.transform)")
    check.trust("T-CANCEL: a bare `cancel_slot;` (loads, returns) has no architectural effect - slot-cancel state matters only for stores, which the "
                "shortcode marks with STORE_SLOT_CANCELLED(pkt, slot); the NOP translation is accepted on that ground")
    check.assume("constituent modules are re-generated with their reduced instance sets here; their full instance sets are C02..C16's own checks")
    t0 = time.time()
    phases = {}

    def phase(name):
        phases[name] = round(time.time() - t0, 1)
        if os.environ.get("VERIF_DEBUG"):
            print(f"DEBUG phase {name} done at {phases[name]} s", flush=True)
    check.run_parallel("contracts.c01", "gen_task", [{"what": w} for w in ("division", "types", "misc", "transform_insn")], workers=WORKERS)
    phase("own contracts")
    if check.tier == "thorough":
        # thorough: the complete quick instance sets of the constituents (what their own quick checks decide)
        for m in CONSTITUENTS:
            full_constituent(check, m)
            phase(f"constituent {m} (full quick set)")
    else:
        check.run_parallel("contracts.c01", "constituent", [{"module": m} for m in CONSTITUENTS], workers=WORKERS)
    phase("constituents")
    coverage_lemma(Loader_(), check)
    phase("coverage lemma")
    run_mutants(check, MUTANTS, "contracts.c01", "generate_reduced")
    phase("mutant self-test")
    check.extra["phase_seconds"] = phases
    if check.tier == "thorough":
        try:
            from . import corpus
        except ImportError:
            corpus = None
        if corpus is not None:
            corpus.monitored_run(check)
            phase("monitored corpus run")
    return check.finish(
        level="proof",
        rule="own obligations (division, declaration types, nop/cancel, transform_insn for any number of parts) + re-generated constituent "
             "obligations + one coverage obligation per callback production, transformer helper and text-emitting IR method")


def Loader_():
    from pyvc.loader import Loader
    return Loader()
