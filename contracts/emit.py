"""Emission contracts shared by C02/C03/C10/C12:  eval_RzIL(node.il_exec()) == den(node), the text
is well-sorted with sort(node), and every operand text obtained from a callee is used exactly once.
"""
from __future__ import annotations
import z3

from pyvc.interp import explore
from pyvc.values import Tpl, Atom
from pyvc.vc import Check
from pyvc import replay
from spec import c11, rzil, ir
from . import irkit
from .common import tname


# the only state a text emitter may change: read / declaration counters (ownership and declare-once bookkeeping, C11 / C12)
EMISSION_FRAME = {"reads", "init_counter", "effect_init_count", "assign_reads", "assign_usage"}


def frame_obligation(check, name, pi, p):
    """emitting text changes nothing but read counters: the text of a node is a function of the node (and of how often it was read),
    not of which other node was emitted before - the premise of 'both layouts denote the same effect' (C16) and of determinism (C14)"""
    def allowed(o, f, old, new):
        if f in EMISSION_FRAME:
            return True
        # a register whose access kind is still unknown (explicit register / alias never assigned) becomes a plain source on its first read
        return f == "access" and getattr(old, "name", None) == "UNKNOWN" and getattr(new, "name", None) == "R"
    bad = sorted({f"{getattr(o, 'label', None) or o.cls.name}.{f}" for (o, f, old, new) in p.ctx.pre_writes() if not allowed(o, f, old, new)})
    check.ob(f"{name}#frame: emission writes only read counters", pi, p.ctx.pc, not bad, detail=f"writes {bad}")


def as_tpl(v):
    if isinstance(v, str):
        return Tpl([v])
    if isinstance(v, Tpl):
        return v
    return None


def operand_replay_spec(o, values_from_model):
    """Replay stand-in for an abstract operand: a Variable of the same C type (bool-sorted kinds
    become `v != z` comparisons of two 8-bit variables)."""
    kind = o.ghost["kind"]
    if kind == "Bool":
        return ["bool", bool(values_from_model.get(o.label, False))], {}
    if kind == "BooleanOp":
        # a real BooleanOp (consumers may distinguish it from a comparison): (v != 0) || (z != 0) with z == 0
        a, z = o.label + "_nz", o.label + "_z"
        b = bool(values_from_model.get(o.label, False))
        return ["boolop", "||", ["var", a, [False, 8]], ["var", z, [False, 8]]], {a: 1 if b else 0, z: 0}
    if kind in irkit.BOOL_KINDS:
        a, z = o.label + "_nz", o.label + "_z"
        b = bool(values_from_model.get(o.label, False))
        return ["cmp", "!=", ["var", a, [False, 8]], ["var", z, [False, 8]]], {a: 1 if b else 0, z: 0}
    t = o.ghost["ctype"]
    if kind == "CastOfNumber":
        return ["cast", [t[0], t[1]], ["num", int(values_from_model.get(o.label + "_lit", 0)), [True, 32]]], {}
    return ["var", o.label, [t[0], t[1]]], {o.label: int(values_from_model.get(o.label, 0))}


def run_emission(check: Check, loader, name, inst, build, method="il_exec", replay_builder=None,
                 want_value=True, extra=None, contracts=None):
    """build(it) -> (node, [abstract operands]).  Explores node.<method>() and emits obligations.
    replay_builder(operands) -> (spec builder for the real node) or None."""
    def setup(it):
        node, ops = build(it)
        it.ctx.mark_pre(node)
        return node, ops

    def run(it, st):
        return it.call(it.getattr_(st[0], method), [], {})

    check.instances_declared += 1
    ex = explore(loader, setup, run, contracts=contracts)
    check.absorb(ex, f"{name} {inst}")
    if ex.paths:
        check.instances_generated += 1
    for i, p in enumerate(ex.paths):
        pc = p.ctx.pc
        pi = inst if len(ex.paths) == 1 else f"{inst} path={i}"
        node, ops = p.state
        try:
            want_sort = ir.sort(node)
            want_den = ir.den(node) if want_value else None
        except ir.NotWF as e:
            # outside the emission precondition WF(node); callers are obliged never to build it
            check.extra.setdefault("instances_outside_WF", []).append(f"{name} [{pi}]: {e}")
            continue

        def rp(obname):
            if replay_builder is None:
                return None

            def mk(mdl, node=node, ops=ops):
                vals = {}
                specs = []
                for o in ops:
                    s, v = operand_replay_spec(o, mdl)
                    specs.append(s)
                    vals.update(v)
                spec = replay_builder(specs)
                expect = None
                if want_den is not None:
                    sub = []
                    for o in ops:
                        d = o.ghost["den"]
                        if z3.is_bool(d):
                            sub.append((d, z3.BoolVal(bool(mdl.get(o.label, False)))))
                        else:
                            sub.append((d, z3.BitVecVal(int(mdl.get(o.label, 0)), d.size())))
                    r = z3.simplify(z3.substitute(want_den, *sub))
                    expect = r.as_long() if z3.is_bv_value(r) else (z3.is_true(r) if (z3.is_true(r) or z3.is_false(r)) else None)
                return {"build": spec, "method": method, "values": vals, "expect": expect,
                        "expect_sort": list(want_sort) if isinstance(want_sort, tuple) else want_sort}
            return ("emit.node", mk)

        check.ob(f"{name}#total", pi, pc, p.outcome == "return", replay=rp("total"),
                 detail="" if p.outcome == "return" else f"raises {p.value!r}")
        if p.outcome != "return":
            continue
        frame_obligation(check, name, pi, p)
        tpl = as_tpl(p.value)
        check.ob(f"{name}#returns-text", pi, pc, tpl is not None)
        if tpl is None:
            continue
        if len(check.samples) < 4:
            check.samples.append({"obligation": f"{name} [{pi}]", "emitted_template": tpl.render()})
        try:
            term = rzil.parse_expr(tpl.parts)
        except rzil.ParseError as e:
            check.ob(f"{name}#parses", pi, pc, False, detail=str(e), replay=rp("parses"))
            continue
        check.ob(f"{name}#parses", pi, pc, True)
        ev = rzil.Evaluator()
        try:
            val = ev.ev(term)
            serr = None
        except rzil.SortError as e:
            val, serr = None, str(e)
        check.ob(f"{name}#sort", pi, pc, serr is None and val.sort == want_sort, replay=rp("sort"),
                 detail=serr or f"sort {val.sort}, expected {want_sort}; text {tpl.render()}")
        # atom linearity: every text handed out by an operand's il_read() is embedded exactly once
        produced = sum(o.ghost.get("nreads", 0) for o in ops)
        atoms = [a for a in tpl.atoms() if a.kind == "read"]
        keys = [(a.tag, a.ordinal) for a in atoms]
        check.ob(f"{name}#atom-linearity", pi, pc, len(keys) == len(set(keys)) and len(keys) == produced,
                 detail=f"il_read() results obtained: {produced}, embedded: {keys}")
        if serr is not None or not want_value or val.v is None or val.sort != want_sort:
            continue
        check.ob(f"{name}#value", pi, pc, val.v == want_den, replay=rp("value"),
                 detail=f"text {tpl.render()}")
        if extra:
            extra(check, name, pi, pc, node, ops, tpl, val)


@replay.register("emit.node")
def replay_emit_node(a):
    node = irkit.real_build(a["build"])
    text = getattr(node, a.get("method", "il_exec"))()
    leaves = irkit.spec_leaves(a["build"])
    sort, value, err = irkit.eval_text_concrete(text, leaves, a["values"])
    es = a.get("expect_sort")
    es = tuple(es) if isinstance(es, list) else es
    msg = f"real {type(node).__name__}.{a.get('method', 'il_exec')}() = {text}; values {a['values']}; "
    if err:
        return True, msg + f"emitted text is ill-sorted: {err}"
    if es is not None and sort != es:
        return True, msg + f"sort {sort}, expected {es}"
    exp = a.get("expect")
    if exp is not None and value is not None and value != exp:
        return True, msg + f"RzIL value {value:#x}, C11 value {exp:#x}" if not isinstance(exp, bool) else msg + f"RzIL {value}, C11 {exp}"
    return False, msg + f"RzIL value {value}, expected {exp}: agree"
