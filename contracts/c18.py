"""C18 - pooled parsing equals sequential parsing and isolates failures.

Functions under contract (rzilcompiler/Parser.py): parse_single, Parser.parse, ParsedInsn.__init__,
ParserException.__init__, InsnParsingBundle.__init__.
The Earley parser is external: Lark(...) / parser.parse are replaced by an assumed contract
(T-LARK: returns an opaque tree that is a function of (grammar, text), or raises an arbitrary
Exception at any behaviour index).  The schedule quantifier rests on the assumed contract of
multiprocessing.Pool.imap (T-POOL) and is *not* verified.
"""
from __future__ import annotations
import itertools
import os
import z3

from pyvc.interp import explore, NativeAbs, PyRaise, Interp
from pyvc.loader import Loader
from pyvc.values import Obj, ExcVal, Unsupported
from pyvc.vc import Check
from pyvc import replay
from .common import WORKERS, run_mutants

PROP = "C18"
M_P = "rzilcompiler.Parser"

MUTANTS = [
    {"name": "parse_single: only ValueError is isolated", "file": "rzilcompiler/Parser.py",
     "old": "    except Exception as e:\n        pinsn = ParsedInsn(name, [], behaviors, ParserException(e))", "new": "    except ValueError as e:\n        pinsn = ParsedInsn(name, [], behaviors, ParserException(e))"},
    {"name": "parse_single: trees parsed before the failure are kept", "file": "rzilcompiler/Parser.py",
     "old": "        pinsn = ParsedInsn(name, [], behaviors, ParserException(e))", "new": "        pinsn = ParsedInsn(name, asts, behaviors, ParserException(e))"},
    {"name": "parse_single: result keyed by a constant", "file": "rzilcompiler/Parser.py",
     "old": "    return {name: pinsn}", "new": "    return {\"insn\": pinsn}"},
    {"name": "parse_single: second part parsed from the first behaviour", "file": "rzilcompiler/Parser.py",
     "old": "            asts.append(parser.parse(b))", "new": "            asts.append(parser.parse(behaviors[0]))"},
    {"name": "parse_single: last part dropped", "file": "rzilcompiler/Parser.py",
     "old": "        for b in behaviors:\n            asts.append(parser.parse(b))", "new": "        for b in behaviors[:1]:\n            asts.append(parser.parse(b))"},
    {"name": "ParserException: records a constant name", "file": "rzilcompiler/Parser.py",
     "old": "        self.name = str(type(exception).__name__)", "new": "        self.name = \"Exception\""},
    {"name": "Parser.parse: later result for the same loop replaces the table", "file": "rzilcompiler/Parser.py",
     "old": "                result.update(res)", "new": "                result = res"},
    {"name": "Parser.parse: entries of failed parses are skipped", "file": "rzilcompiler/Parser.py",
     "old": "                result.update(res)", "new": "                result.update({k: v for k, v in res.items() if not v.exception})"},
    {"name": "parse_single: exception object dropped", "file": "rzilcompiler/Parser.py",
     "old": "        pinsn = ParsedInsn(name, [], behaviors, ParserException(e))", "new": "        pinsn = ParsedInsn(name, [], behaviors)"},
]

EXC_CLASSES = ["UnexpectedToken", "UnexpectedCharacters", "UnexpectedEOF", "ValueError", "RecursionError"]


def exc_class(name):
    import lark.exceptions as le
    return getattr(le, name, None) or {"ValueError": ValueError, "RecursionError": RecursionError}[name]


class LarkStub(NativeAbs):
    """Lark(grammar, ...) -> parser object; parse(text) returns T(grammar, text) or raises at index fail_at."""

    def __init__(self, grammar, fail_at, exc):
        self.grammar = grammar
        self.fail_at = fail_at
        self.exc = exc
        self.calls = []

    def getattr(self, it, name):
        if name == "parse":
            return _Parse(self)
        raise Unsupported(f"Lark.{name}")


class _Parse(NativeAbs):
    def __init__(self, p):
        self.p = p

    def call(self, it, args, kwargs):
        text = args[0]
        idx = len(self.p.calls)
        self.p.calls.append(text)
        it.ctx.stats["assumed_calls"]["Lark.parse (T-LARK)"] = 1
        if self.p.fail_at is not None and idx == self.p.fail_at:
            raise PyRaise(ExcVal(exc_class(self.p.exc), ["parse error"]))
        return ("T", self.p.grammar, text)


def lark_ctor_stub(fail_at, exc, made):
    def stub(it, fn, args, kwargs):
        p = LarkStub(args[0], fail_at, exc)
        made.append((p, kwargs))
        it.ctx.stats["assumed_calls"]["Lark(...) constructor (T-LARK: total for the bundled grammar)"] = 1
        return p
    return stub


def gen_parse_single(loader, check, replay_on=True, max_parts=4):
    m = loader.load(M_P)
    f = m.globals["parse_single"]
    check.under_contract(loader, f, m.globals["ParsedInsn"].methods["__init__"], m.globals["ParserException"].methods["__init__"],
                         m.globals["InsnParsingBundle"].methods["__init__"])
    Bundle = m.globals["InsnParsingBundle"]
    PI, PE = m.globals["ParsedInsn"], m.globals["ParserException"]
    for n in range(0, max_parts + 1):
        for fail_at in [None] + list(range(n)):
            for exc in (EXC_CLASSES if fail_at is not None else [None]):
                inst = f"parts={n} fails-at={fail_at} exception={exc}"
                check.instances_declared += 1
                made = []

                def setup(it, n=n, fail_at=fail_at, exc=exc, made=made):
                    del made[:]
                    it.ctx.contracts["lark.lark.Lark"] = lark_ctor_stub(fail_at, exc, made)
                    behs = [f"beh{i}" for i in range(n)]
                    b = it.call(Bundle, ["GRAMMAR", "J2_name", behs], {})
                    it.ctx.mark_pre(b)
                    return {"b": b, "behs": behs}
                ex = explore(loader, setup, lambda it, st: it.call(f, [st["b"]], {}))
                check.absorb(ex, f"parse_single {inst}")
                if ex.paths:
                    check.instances_generated += 1
                for i, p in enumerate(ex.paths):
                    pi = f"{inst} path={i}"
                    pc = p.ctx.pc
                    rp = ("c18.parse_single", lambda mdl, n=n, fail_at=fail_at, exc=exc: {"n": n, "fail_at": fail_at, "exc": exc}) if replay_on else None
                    check.ob("parse_single#never-raises-for-Exception", pi, pc, p.outcome == "return", replay=rp,
                             detail="" if p.outcome == "return" else f"raises {p.value!r}")
                    if p.outcome != "return":
                        continue
                    res = p.value
                    ok = isinstance(res, dict) and list(res.keys()) == ["J2_name"]
                    check.ob("parse_single#ensures.single-entry-keyed-by-name", pi, pc, ok, replay=rp, detail=f"keys {list(res) if isinstance(res, dict) else res}")
                    if not ok:
                        continue
                    pin = res["J2_name"]
                    ok = isinstance(pin, Obj) and pin.cls is PI
                    check.ob("parse_single#ensures.entry-is-ParsedInsn", pi, pc, ok, replay=rp)
                    if not ok:
                        continue
                    behs = p.state["behs"]
                    check.ob("parse_single#ensures.name", pi, pc, pin.fields.get("name") == "J2_name", replay=rp)
                    check.ob("parse_single#ensures.behaviors-preserved", pi, pc, pin.fields.get("behaviors") == behs, replay=rp)
                    asts = pin.fields.get("asts")
                    e = pin.fields.get("exception")
                    if fail_at is None:
                        want = [("T", "GRAMMAR", b) for b in behs]
                        check.ob("parse_single#ensures.one-tree-per-part-in-order", pi, pc, asts == want, replay=rp, detail=f"asts {asts}")
                        check.ob("parse_single#ensures.no-exception-recorded", pi, pc, e is None, replay=rp)
                    else:
                        check.ob("parse_single#ensures.fail.no-trees", pi, pc, asts == [], replay=rp, detail=f"asts {asts}")
                        okx = isinstance(e, Obj) and e.cls is PE and e.fields.get("name") == exc
                        check.ob("parse_single#ensures.fail.error-name", pi, pc, okx, replay=rp,
                                 detail=f"recorded {e.fields.get('name') if isinstance(e, Obj) else e}, raised {exc}")
                    # reads: the parser is built from the bundle's grammar with the fbody start rule / earley
                    okk = len(made) == 1 and made[0][0].grammar == "GRAMMAR" and made[0][1].get("start") == "fbody" and made[0][1].get("parser") == "earley"
                    check.ob("parse_single#uses-bundle-grammar-fbody-earley", pi, pc, okk, replay=None)
                    check.ob("parse_single#modifies", pi, pc, not p.ctx.pre_writes() and not p.ctx.pre_container_writes(), replay=None)


# ---------------------------------------------------------------------------- unbounded: loop invariants
from pyvc.interp import AbsSeq, AbsAcc, AbsAccDict, LoopContract


class SymLark(NativeAbs):
    """parser.parse(text): returns T(grammar, text), or raises an arbitrary Exception - decided by a fresh symbol per call"""

    def __init__(self, grammar, exc):
        self.grammar = grammar
        self.exc = exc

    def getattr(self, it, name):
        if name == "parse":
            return _SymParse(self)
        raise Unsupported(f"Lark.{name}")


class _SymParse(NativeAbs):
    def __init__(self, p):
        self.p = p

    def call(self, it, args, kwargs):
        it.ctx.stats["assumed_calls"]["Lark.parse (T-LARK)"] = 1
        if it.ctx.branch(z3.Bool(it.ctx.fresh_name("parse_raises"))):
            raise PyRaise(ExcVal(exc_class(self.p.exc), ["parse error"]))
        return ("T", self.p.grammar, args[0])


class PartsLoop(LoopContract):
    """for b in behaviors: asts.append(parser.parse(b))      invariant: asts == [T(g, b) for b in behaviors[0:k]]"""
    name = "parse_single.parts"

    def check_entry(self, it, env, seq):
        self.oblige(it, "parse_single#loop.base: accumulator empty on entry", "", env.vars.get("asts") == [])

    def havoc_prefix(self, it, env, seq):
        k = z3.Int("k")
        it.ctx.assume(z3.And(k >= 0, k < seq.length))
        env.vars["asts"] = AbsAcc("asts", k, {"spec": "T(g, b) for b in behaviors[0:k]"})

    def make_element(self, it, kind, seq):
        return "<behaviour k>"

    def check_step(self, it, env, seq, kind, elem, broke):
        a = env.vars.get("asts")
        ok = isinstance(a, AbsAcc) and a.ghost.get("spec", "").endswith("[0:k]") and a.tail == [("T", "GRAMMAR", elem)] and not broke
        self.oblige(it, "parse_single#loop.step: asts == T(behaviors[0:k+1])", "", ok, detail=f"tail {getattr(a, 'tail', a)}")

    def havoc_exit(self, it, env, seq):
        env.vars["asts"] = AbsAcc("asts", seq.length, {"spec": "T(g, b) for b in behaviors[0:n]", "all": True})


def gen_parse_single_unbounded(loader, check, replay_on=True):
    m = loader.load(M_P)
    f = m.globals["parse_single"]
    Bundle, PI, PE = m.globals["InsnParsingBundle"], m.globals["ParsedInsn"], m.globals["ParserException"]
    for exc in EXC_CLASSES:
        inst = f"parts=any exception={exc}"
        check.instances_declared += 1

        def setup(it, exc=exc):
            it.ctx.contracts["lark.lark.Lark"] = lambda it_, fn, a, k: SymLark(a[0], exc)
            behs = AbsSeq("behaviors", PartsLoop())
            it.ctx.assume(behs.length >= 0)
            b = it.call(Bundle, ["GRAMMAR", "J2_name", behs], {})
            it.ctx.mark_pre(b)
            return {"b": b, "behs": behs}
        ex = explore(loader, setup, lambda it, st: it.call(f, [st["b"]], {}))
        check.absorb(ex, f"parse_single {inst}")
        if ex.paths:
            check.instances_generated += 1
        kinds = set()
        for i, p in enumerate(ex.paths):
            pi = f"{inst} path={i}"
            pc = p.ctx.pc
            check.path_obligations(p, pi)
            if p.outcome == "loop-step":
                kinds.add("step")
                continue
            check.ob("parse_single#never-raises-for-Exception", pi, pc, p.outcome == "return",
                     detail="" if p.outcome == "return" else f"raises {p.value!r}")
            if p.outcome != "return":
                continue
            res = p.value
            ok = isinstance(res, dict) and list(res.keys()) == ["J2_name"] and isinstance(res["J2_name"], Obj) and res["J2_name"].cls is PI
            check.ob("parse_single#ensures.single-entry-keyed-by-name", pi, pc, ok)
            if not ok:
                continue
            pin = res["J2_name"]
            check.ob("parse_single#ensures.behaviors-preserved", pi, pc, pin.fields.get("behaviors") is p.state["behs"])
            asts, e = pin.fields.get("asts"), pin.fields.get("exception")
            if e is None:
                kinds.add("success")
                ok = isinstance(asts, AbsAcc) and asts.ghost.get("all") and asts.tail == []
                check.ob("parse_single#ensures.one-tree-per-part-in-order", pi, pc, bool(ok), detail=f"asts {asts!r}")
            else:
                kinds.add("failure")
                check.ob("parse_single#ensures.fail.no-trees", pi, pc, asts == [], detail=f"asts {asts!r}")
                check.ob("parse_single#ensures.fail.error-name", pi, pc, isinstance(e, Obj) and e.cls is PE and e.fields.get("name") == exc)
        if not ex.undecided:
            check.ob("parse_single#loop.paths: step, failure-at-arbitrary-index and success are all explored", inst, [],
                     kinds == {"step", "success", "failure"}, detail=str(kinds))


class InsnTable(NativeAbs):
    """abstract input dict {name_i: behaviours_i} with distinct names"""
    pytype = dict

    def __init__(self, contract):
        self.seq = AbsSeq("insn_behavior.items", contract)

    def getattr(self, it, name):
        if name == "items":
            return _Const(self.seq)
        raise Unsupported(f"dict.{name}")


class _Const(NativeAbs):
    def __init__(self, v):
        self.v = v

    def call(self, it, args, kwargs):
        return self.v


class ResultLoop(LoopContract):
    """for res in imap(parse_single, args): result.update(res)
    invariant: result == {name_i: parse_single(bundle_i)[name_i] for i < k}"""
    name = "Parser.parse.results"

    def check_entry(self, it, env, seq):
        self.oblige(it, "Parser.parse#loop.base: result empty on entry", "", env.vars.get("result") == {})

    def havoc_prefix(self, it, env, seq):
        k = z3.Int("k")
        it.ctx.assume(z3.And(k >= 0, k < seq.length))
        env.vars["result"] = AbsAccDict("result", {"spec": "entries of items[0:k]"})

    def make_element(self, it, kind, seq):
        return ("<name k>", "<behaviours k>")

    def check_step(self, it, env, seq, kind, elem, broke):
        r = env.vars.get("result")
        ok = isinstance(r, AbsAccDict) and len(r.tail) == 1 and r.tail[0][0] == "<name k>" and isinstance(r.tail[0][1], Obj) \
            and r.tail[0][1].fields.get("from_bundle") == ("GRAMMAR", "<name k>", "<behaviours k>") and not broke
        self.oblige(it, "Parser.parse#loop.step: result gains exactly the entry of instruction k", "", ok,
                    detail=f"tail {getattr(r, 'tail', r)}")

    def havoc_exit(self, it, env, seq):
        env.vars["result"] = AbsAccDict("result", {"spec": "entries of items[0:n]", "all": True})


class PoolStubAbs(NativeAbs):
    def getattr(self, it, name):
        if name == "imap":
            return _ImapAbs()
        raise Unsupported(f"Pool.{name}")


class _ImapAbs(NativeAbs):
    def call(self, it, args, kwargs):
        f, xs = args
        it.ctx.stats["assumed_calls"]["Pool.imap (T-POOL: yields f(x) for each x once, any schedule)"] = 1
        return xs.derive(lambda it_, x: it_.call(f, [x], {}))


def gen_parser_parse_unbounded(loader, check, replay_on=True):
    m = loader.load(M_P)
    f = m.globals["Parser"].methods["parse"]
    PI = m.globals["ParsedInsn"]
    check.instances_declared += 1

    def with_hook2(it, s, env):
        import ast
        item = s.items[0]
        src = ast.unparse(item.context_expr)
        if src.startswith("open("):
            env.vars[item.optional_vars.id] = _File()
        elif src.startswith("Pool("):
            env.vars[item.optional_vars.id] = PoolStubAbs()
        else:
            raise Unsupported(f"with {src}")
        it.exec_block(s.body, env)

    def setup(it):
        def ps_contract(it_, fn, args, kwargs):
            b = args[0]
            pin = Obj(PI)
            pin.fields["from_bundle"] = (b.fields["grammar"], b.fields["name"], b.fields["behavior"])
            return {b.fields["name"]: pin}
        it.ctx.contracts[f"{M_P}.parse_single"] = ps_contract
        it.ctx.contracts["tqdm.std.tqdm"] = tqdm_stub
        it.ctx.with_hook = with_hook2
        d = InsnTable(ResultLoop())
        it.ctx.assume(d.seq.length >= 0)
        return {"d": d}
    ex = explore(loader, setup, lambda it, st: it.call(f, [st["d"]], {}))
    check.absorb(ex, "Parser.parse any number of instructions")
    if ex.paths:
        check.instances_generated += 1
    kinds = set()
    for i, p in enumerate(ex.paths):
        pi = f"instructions=any path={i}"
        check.path_obligations(p, pi)
        if p.outcome == "loop-step":
            kinds.add("step")
            continue
        kinds.add(p.outcome)
        check.ob("Parser.parse#total", pi, p.ctx.pc, p.outcome == "return", detail="" if p.outcome == "return" else f"raises {p.value!r}")
        if p.outcome == "return":
            r = p.value
            check.ob("Parser.parse#ensures.one-entry-per-instruction-name", pi, p.ctx.pc,
                     isinstance(r, AbsAccDict) and bool(r.ghost.get("all")) and r.tail == [], detail=repr(getattr(r, "tail", r)))
    if not ex.undecided:
        check.ob("Parser.parse#loop.paths: step and exit explored", "instructions=any", [], kinds == {"step", "return"}, detail=str(kinds))


class PoolStub(NativeAbs):
    """Assumed contract of multiprocessing.Pool (T-POOL): imap(f, xs) yields f(x) for each x exactly once, in order,
    independent of pool size and scheduling; arguments and results survive pickling."""

    def getattr(self, it, name):
        if name == "imap":
            return _Imap()
        raise Unsupported(f"Pool.{name}")


class _Imap(NativeAbs):
    def call(self, it, args, kwargs):
        f, xs = args
        it.ctx.stats["assumed_calls"]["Pool.imap (T-POOL: yields f(x) for each x once, any schedule)"] = 1
        return [it.call(f, [x], {}) for x in it.iterate(xs)]


def with_hook(it, s, env):
    """`with open(path) as f` -> abstract grammar text; `with Pool() as pool` -> PoolStub"""
    import ast
    item = s.items[0]
    src = ast.unparse(item.context_expr)
    if src.startswith("open("):
        env.vars[item.optional_vars.id] = _File()
    elif src.startswith("Pool("):
        env.vars[item.optional_vars.id] = PoolStub()
    else:
        raise Unsupported(f"with {src}")
    it.exec_block(s.body, env)


class _File(NativeAbs):
    def getattr(self, it, name):
        if name == "readlines":
            return _Readlines()
        raise Unsupported(f"file.{name}")


class _Readlines(NativeAbs):
    def call(self, it, args, kwargs):
        it.ctx.stats["assumed_calls"]["open(grammar).readlines() (file content: the grammar text)"] = 1
        return ["GRAM", "MAR"]


def tqdm_stub(it, fn, args, kwargs):
    it.ctx.stats["assumed_calls"]["tqdm(iterable) is the identity on the iterable (A-LOG)"] = 1
    return args[0]


def gen_parser_parse(loader, check, replay_on=True, max_insns=3):
    m = loader.load(M_P)
    P = m.globals["Parser"]
    f = P.methods["parse"]
    check.under_contract(loader, f)
    PI = m.globals["ParsedInsn"]
    for n in range(0, max_insns + 1):
        for fails in itertools.product([False, True], repeat=n):
            inst = f"instructions={n} failing={list(fails)}"
            check.instances_declared += 1

            def setup(it, n=n, fails=fails):
                # parse_single is used through its contract (discharged above): a dict with the single key bundle.name
                def ps_contract(it_, fn, args, kwargs):
                    b = args[0]
                    nm = b.fields["name"]
                    idx = int(nm[1:])
                    pin = Obj(PI)
                    pin.fields.update(name=nm, behaviors=b.fields["behavior"], asts=[] if fails[idx] else [("T", b.fields["grammar"], x) for x in b.fields["behavior"]],
                                      exception=("err" if fails[idx] else None))
                    return {nm: pin}
                it.ctx.contracts[f"{M_P}.parse_single"] = ps_contract
                it.ctx.contracts["tqdm.std.tqdm"] = tqdm_stub
                it.ctx.with_hook = with_hook
                d = {f"n{i}": [f"beh{i}a", f"beh{i}b"][: 1 + (i % 2)] for i in range(n)}
                return {"d": d}
            ex = explore(loader, setup, lambda it, st: it.call(f, [st["d"]], {}))
            check.absorb(ex, f"Parser.parse {inst}")
            if ex.paths:
                check.instances_generated += 1
            for i, p in enumerate(ex.paths):
                pi = f"{inst} path={i}"
                pc = p.ctx.pc
                check.ob("Parser.parse#total", pi, pc, p.outcome == "return", detail="" if p.outcome == "return" else f"raises {p.value!r}")
                if p.outcome != "return":
                    continue
                res = p.value
                d = p.state["d"]
                ok = isinstance(res, dict) and list(res.keys()) == list(d.keys())
                check.ob("Parser.parse#ensures.one-entry-per-instruction-name", pi, pc, ok, detail=f"keys {list(res) if isinstance(res, dict) else res}")
                if not ok:
                    continue
                for k, (nm, behs) in enumerate(d.items()):
                    pin = res[nm]
                    good = isinstance(pin, Obj) and pin.fields["name"] == nm and pin.fields["behaviors"] == behs and (
                        pin.fields["asts"] == ([] if fails[k] else [("T", "GRAMMAR", x) for x in behs])) and (
                        (pin.fields["exception"] is not None) == fails[k])
                    check.ob("Parser.parse#ensures.entry-equals-sequential-parse_single", f"{pi} entry={nm}", pc, good)


# ------------------------------------------------------------------------------------------ replay
@replay.register("c18.parse_single")
def replay_parse_single(a):
    import rzilcompiler.Parser as P

    class FakeLark:
        def __init__(self, grammar, **kw):
            self.n = 0

        def parse(self, text):
            i = self.n
            self.n += 1
            if a["fail_at"] is not None and i == a["fail_at"]:
                c = exc_class(a["exc"])
                try:
                    raise c("x") if a["exc"] in ("ValueError", "RecursionError") else c.__new__(c)
                except TypeError:
                    raise c()
            return ("T", text)
    real = P.Lark
    P.Lark = FakeLark
    try:
        behs = [f"beh{i}" for i in range(a["n"])]
        try:
            r = P.parse_single(P.InsnParsingBundle("G", "J2_name", behs))
        except Exception as e:
            return True, f"parse_single raised {type(e).__name__}"
        pin = r.get("J2_name")
        if list(r) != ["J2_name"]:
            return True, f"keys {list(r)}"
        if a["fail_at"] is None:
            bad = pin.asts != [("T", b) for b in behs] or pin.exception is not None
        else:
            bad = pin.asts != [] or pin.exception is None or pin.exception.name != a["exc"]
        return bad, f"parse_single(parts={a['n']}, failure at {a['fail_at']} with {a['exc']}) -> asts={pin.asts}, exception={getattr(pin.exception, 'name', None)}"
    finally:
        P.Lark = real


def gen_state(loader, check, replay_on=True):
    """parse_single / Parser.parse are functions of their argument: Parser.py keeps no module- or class-level mutable state,
    no memoisation; and calling Parser.parse twice with the same name but different text returns the second text's result."""
    import ast
    m = loader.load(M_P)
    bad = []
    for node in ast.walk(m.tree):
        if isinstance(node, ast.ClassDef):
            for st in node.body:
                if isinstance(st, (ast.Assign, ast.AnnAssign)) and st.value is not None and isinstance(
                        st.value, (ast.Dict, ast.List, ast.Set, ast.Call, ast.DictComp, ast.ListComp)):
                    tgt = st.targets[0] if isinstance(st, ast.Assign) else st.target
                    bad.append(f"class-level {node.name}.{getattr(tgt, 'id', '?')} (line {st.lineno})")
        if isinstance(node, ast.Global):
            bad.append(f"global statement (line {node.lineno})")
        if isinstance(node, ast.FunctionDef):
            for d in node.decorator_list:
                from pyvc.loader import _is_cache_decorator
                if _is_cache_decorator(d):
                    bad.append(f"memoised function {node.name}")
    for node in m.tree.body:
        if isinstance(node, (ast.Assign, ast.AnnAssign)) and node.value is not None and isinstance(node.value, (ast.Dict, ast.List, ast.Set)):
            bad.append(f"module-level container (line {node.lineno})")
    rp = ("c18.two_calls", lambda mdl: {}) if replay_on else None
    check.ob("Parser#reads: no hidden module/class-level state or memoisation in Parser.py", "Parser.py", [], not bad, replay=rp, detail="; ".join(bad))
    check.instances_declared += 1
    check.instances_generated += 1
    # two calls in one history
    f = m.globals["Parser"].methods["parse"]
    PI = m.globals["ParsedInsn"]
    check.instances_declared += 1

    def setup(it):
        def ps_contract(it_, fn, args, kwargs):
            b = args[0]
            pin = Obj(PI)
            pin.fields.update(name=b.fields["name"], behaviors=b.fields["behavior"], asts=[("T", b.fields["grammar"], x) for x in b.fields["behavior"]], exception=None)
            return {b.fields["name"]: pin}
        it.ctx.contracts[f"{M_P}.parse_single"] = ps_contract
        it.ctx.contracts["tqdm.std.tqdm"] = tqdm_stub
        it.ctx.with_hook = with_hook
        return None

    def run(it, st):
        r1 = it.call(f, [{"n0": ["old text"]}], {})
        r2 = it.call(f, [{"n0": ["new text"], "n1": ["other"]}], {})
        return r1, r2
    ex = explore(loader, setup, run)
    check.absorb(ex, "Parser.parse twice")
    if ex.paths:
        check.instances_generated += 1
    for i, p in enumerate(ex.paths):
        pi = f"history: parse({{n0: old}}) then parse({{n0: new, n1}}) path={i}"
        check.ob("Parser.parse#total", pi, p.ctx.pc, p.outcome == "return", detail="" if p.outcome == "return" else f"raises {p.value!r}")
        if p.outcome == "return":
            r1, r2 = p.value
            ok = isinstance(r2, dict) and list(r2) == ["n0", "n1"] and r2["n0"].fields["behaviors"] == ["new text"] and r2["n0"].fields["asts"] == [("T", "GRAMMAR", "new text")]
            check.ob("Parser.parse#second-call-depends-only-on-its-own-argument", pi, p.ctx.pc, ok, replay=rp,
                     detail=f"second result for n0: {r2['n0'].fields if isinstance(r2, dict) and 'n0' in r2 else r2}")


@replay.register("c18.two_calls")
def replay_two_calls(a):
    import rzilcompiler.Parser as P

    class FakePool:
        def __enter__(self):
            return self

        def __exit__(self, *x):
            return False

        def imap(self, f, xs):
            return [f(x) for x in xs]

    class FakeLark:
        def __init__(self, grammar, **kw):
            pass

        def parse(self, text):
            if "broken" in text:
                raise ValueError("parse error")
            return ("T", text)
    real = (P.Pool, P.Lark, P.tqdm)
    P.Pool, P.Lark, P.tqdm = FakePool, FakeLark, (lambda x, **kw: x)
    try:
        P.Parser.parse({"n0": ["old text"]})
        r2 = P.Parser.parse({"n0": ["new broken text"], "n1": ["other"]})
        pin = r2.get("n0")
        bad = list(r2) != ["n0", "n1"] or pin.behaviors != ["new broken text"] or pin.exception is None or pin.asts != []
        return bad, f"second Parser.parse call: keys {list(r2)}, n0.behaviors={pin.behaviors}, n0.asts={pin.asts}, n0.exception={getattr(pin.exception, 'name', None)}"
    finally:
        P.Pool, P.Lark, P.tqdm = real


def gen_task(loader, check, what, replay_on=True):
    {"state": gen_state, "parse_single": gen_parse_single, "parse": gen_parser_parse, "parse_single_unbounded": gen_parse_single_unbounded,
     "parse_unbounded": gen_parser_parse_unbounded}[what](loader, check, replay_on)


def gen_native_bounded(loader, check, replay_on=True):
    """BOUNDED native stand-in (never counted as proved): the real Parser.parse, with the real pool and the real grammar, on synthetic
    inputs of n instructions for n around the batch / pool sizes; every name must come back with its own number of parts (some instructions have textually identical parts).  It decides
    nothing about schedules (T-POOL) - it guards the part of Parser.parse the contracts abstract: how work is handed to the pool."""
    import contextlib
    import io
    import multiprocessing
    cwd = os.getcwd()
    os.chdir(loader.repo)
    try:
        from rzilcompiler.Parser import Parser
        cpus = multiprocessing.cpu_count()
        sizes = sorted({1, 2, 5, cpus + 1, 4 * cpus + 1, 4 * cpus + 5})
        for n in sizes:
            behs = {f"X_{i}": (["{ RdV = RsV; }"] if i % 3 else (["{ RdV = RsV; }", "{ RdV = RtV; }"] if i % 2 else ["{ RdV = RsV; }", "{ RdV = RsV; }", "{ RdV = RsV; }"])) for i in range(n)}
            with contextlib.redirect_stdout(io.StringIO()), contextlib.redirect_stderr(io.StringIO()):
                res = Parser().parse(dict(behs))
            missing = sorted(set(behs) - set(res))
            extra = sorted(set(res) - set(behs))
            wrong = sorted(k for k in behs if k in res and (res[k].exception is not None or len(res[k].asts) != len(behs[k])))
            check.ob("Parser.parse#bounded-native: every instruction comes back under its name with one tree per part", f"{n} instructions", [],
                     not missing and not extra and not wrong, bounded=True, observed_natively=True,
                     detail=f"missing {missing[:5]} extra {extra[:5]} wrong part count {wrong[:5]}",
                     replay=("c18.native", lambda mdl, n=n: {"n": n}) if replay_on else None)
            check.instances_declared += 1
            check.instances_generated += 1
        check.bounded.append(f"Parser.parse run natively (real pool, real grammar) on synthetic inputs of {sizes} instructions: names and part counts preserved")
    finally:
        os.chdir(cwd)


@replay.register("c18.native")
def replay_native(a):
    import contextlib
    import io
    from rzilcompiler.Parser import Parser
    n = a["n"]
    behs = {f"X_{i}": (["{ RdV = RsV; }"] if i % 3 else (["{ RdV = RsV; }", "{ RdV = RtV; }"] if i % 2 else ["{ RdV = RsV; }", "{ RdV = RsV; }", "{ RdV = RsV; }"])) for i in range(n)}
    with contextlib.redirect_stdout(io.StringIO()), contextlib.redirect_stderr(io.StringIO()):
        res = Parser().parse(dict(behs))
    missing = sorted(set(behs) - set(res))
    wrong = sorted(k for k in behs if k in res and (res[k].exception is not None or len(res[k].asts) != len(behs[k])))
    return bool(missing or wrong), f"Parser.parse of {n} instructions: missing {missing[:6]}, wrong part count {wrong[:6]}"


def generate_reduced(loader, check):
    gen_parse_single(loader, check, False, max_parts=2)
    gen_parser_parse(loader, check, False, max_insns=2)
    gen_parse_single_unbounded(loader, check, False)
    gen_parser_parse_unbounded(loader, check, False)
    gen_state(loader, check, False)


def run(check: Check):
    check.trust("T-VCGEN: pyvc interpretation of the Python subset (mutant self-test, native replay)")
    check.trust("T-LARK: Lark(grammar, start, parser) is total for the bundled grammar; parser.parse(text) is a deterministic function "
                "of (grammar, text) that returns a tree or raises an Exception")
    check.trust("T-POOL (NOT verified): multiprocessing.Pool.imap(f, xs) yields f(x) for each x exactly once for every pool size and "
                "scheduling, arguments/results survive pickling. The schedule quantifier of C18 rests on this assumption only.")
    check.assume("unbounded: the number of behaviour parts and the number of instructions are symbolic; both loops are discharged by "
                 "fold invariants (base, preservation for an arbitrary element with the failure injected at an arbitrary index, "
                 "exit). Additionally every length 0..4 / 0..3 is enumerated concretely (these instances have native replay).")
    check.run_parallel("contracts.c18", "gen_task", [{"what": w} for w in ("state", "parse_single", "parse", "parse_single_unbounded", "parse_unbounded")],
                       workers=WORKERS)
    gen_native_bounded(Loader(), check)
    run_mutants(check, MUTANTS, "contracts.c18", "generate_reduced")
    return check.finish(
        level="proof",
        rule="one obligation per (function, number of parts / instructions, failure index, exception class, clause)")
