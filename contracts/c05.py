"""C05 - statements take effect in source order under exactly C's conditions.

Functions under contract: Sequence.__init__ / il_write, Branch.__init__ / il_write, ForLoop.__init__ /
il_write, Assignment.__init__ / set_src / set_dest / il_write, Empty.*, NOP.*, flatten_list,
callbacks assignment_expr (all 11 operators), update_assign_src, selection_stmt, for_loop,
iteration_stmt, compound_stmt, expr_stmt, block_item, block_item_list, emit_final_seq_return.
Effects are state transformers; the contracts are structural (SEQN = left-to-right composition,
BRANCH(c,t,e) = if, REPEAT(c, body) = while - library lemma, T-RZIL) plus bit-vector value clauses
for the assignment operators.  List lengths are unbounded (fold invariants) where noted.
"""
from __future__ import annotations
import re
import z3
from lark import Token, Tree

from pyvc.interp import explore, AbsSeq, AbsAcc, LoopContract, Interp
from pyvc.loader import Loader
from pyvc.values import Obj, Tpl, Atom, SInt
from pyvc.vc import Check
from pyvc import replay
from spec import c11, rzil, ir
from . import irkit, tkit, emit
from .common import WORKERS, T8, tname, conc_vt, run_mutants
from .c03 import callback_paths, mk_rp, _real_operand, _concrete_den, c_conv_den
from .c02 import c_den

PROP = "C05"
ASSIGN_OPS = [("=", None), ("+=", "+"), ("-=", "-"), ("*=", "*"), ("/=", "/"), ("%=", "%"), ("<<=", "<<"), (">>=", ">>"),
              ("&=", "&"), ("^=", "^"), ("|=", "|")]

MUTANTS = [
    {"name": "Sequence.__init__: effects prepended (reverse order)", "file": "rzilcompiler/Transformer/Effects/Sequence.py",
     "old": "                eff.append(e)", "new": "                eff.insert(0, e)"},
    {"name": "Sequence.__init__: NOP effects dropped like Empty", "file": "rzilcompiler/Transformer/Effects/Sequence.py",
     "old": "            if isinstance(e, Empty):\n                continue", "new": "            if isinstance(e, Empty) or e.__class__.__name__ == \"NOP\":\n                continue"},
    {"name": "Sequence.il_write: SEQN count off by one", "file": "rzilcompiler/Transformer/Effects/Sequence.py",
     "old": "return f'SEQN({len(self.effects)}, ", "new": "return f'SEQN({len(self.effects) + 1}, "},
    {"name": "Sequence.il_write: order reversed in the text", "file": "rzilcompiler/Transformer/Effects/Sequence.py",
     "old": '{", ".join([e.effect_var() for e in self.effects])}', "new": '{", ".join([e.effect_var() for e in reversed(self.effects)])}'},
    {"name": "Branch.il_write: arms swapped", "file": "rzilcompiler/Transformer/Effects/Branch.py",
     "old": 'f"BRANCH({cond}, {self.then.effect_var()}, {self.otherwise.effect_var()})"', "new": 'f"BRANCH({cond}, {self.otherwise.effect_var()}, {self.then.effect_var()})"'},
    {"name": "Branch.il_write: integer condition not wrapped in NON_ZERO", "file": "rzilcompiler/Transformer/Effects/Branch.py",
     "old": '            cond = f"NON_ZERO({self.cond.il_read()})"', "new": '            cond = f"{self.cond.il_read()}"'},
    {"name": "ForLoop.il_write: condition inverted", "file": "rzilcompiler/Transformer/Effects/ForLoop.py",
     "old": '            control = f"NON_ZERO({self.control.il_read()})"', "new": '            control = f"IS_ZERO({self.control.il_read()})"'},
    {"name": "selection_stmt: else arm used as then", "file": "rzilcompiler/Transformer/RZILTransformer.py",
     "old": "                self.add_op(Branch(name, cond, then_seq, else_seq))", "new": "                self.add_op(Branch(name, cond, else_seq, then_seq))"},
    {"name": "selection_stmt: if without else gets the then arm twice", "file": "rzilcompiler/Transformer/RZILTransformer.py",
     "old": '                self.add_op(Branch(name, cond, then_seq, Empty(f"empty")))', "new": "                self.add_op(Branch(name, cond, then_seq, then_seq))"},
    {"name": "for_loop: step before body", "file": "rzilcompiler/Transformer/RZILTransformer.py",
     "old": 'self.add_op(Sequence(f"seq", flatten_list(items[4]) + [items[3]])),', "new": 'self.add_op(Sequence(f"seq", [items[3]] + flatten_list(items[4]))),'},
    {"name": "for_loop: initialiser inside the loop", "file": "rzilcompiler/Transformer/RZILTransformer.py",
     "old": "                    [items[1], self.add_op(ForLoop(f\"for\", items[2], compound))],", "new": "                    [self.add_op(ForLoop(f\"for\", items[2], compound)), items[1]],"},
    {"name": "update_assign_src: -= builds ADD", "file": "rzilcompiler/Transformer/RZILTransformer.py",
     "old": "                    self.promotion_cast(assign.src),\n                    ArithmeticType.SUB,", "new": "                    self.promotion_cast(assign.src),\n                    ArithmeticType.ADD,"},
    {"name": "update_assign_src: ^= builds OR", "file": "rzilcompiler/Transformer/RZILTransformer.py",
     "old": "                    BitOperationType.XOR,\n                )\n            )\n        else:", "new": "                    BitOperationType.OR,\n                )\n            )\n        else:"},
    {"name": "update_assign_src: -= operands swapped", "file": "rzilcompiler/Transformer/RZILTransformer.py",
     "old": "                    f\"op_SUB\",\n                    self.promotion_cast(assign.dest),\n                    self.promotion_cast(assign.src),", "new": "                    f\"op_SUB\",\n                    self.promotion_cast(assign.src),\n                    self.promotion_cast(assign.dest),"},
    {"name": "Assignment.il_write: register written with the source's own operand", "file": "rzilcompiler/Transformer/Effects/Assignment.py",
     "old": 'return f"WRITE_REG(bundle, {self.dest.get_op_var()}, {read})"', "new": 'return f"WRITE_REG(bundle, {self.dest.get_op_var()}, {self.dest.il_read()})"'},
    {"name": "Assignment.il_write: SETL writes another local", "file": "rzilcompiler/Transformer/Effects/Assignment.py",
     "old": 'return f"SETL({self.dest.vm_id()}, {read})"', "new": 'return f"SETL(\\"tmp\\", {read})"'},
    {"name": "flatten_list: nested lists appended unflattened in reverse", "file": "rzilcompiler/Transformer/helper.py",
     "old": "            result.extend(flatten_list(el))", "new": "            result.extend(reversed(flatten_list(el)))"},
    {"name": "emit_final_seq_return: statements before immediate initialisers", "file": "rzilcompiler/Transformer/RZILTransformer.py",
     "old": "for op in self.imm_set_effect_list + left_hybrids + flatten_list(items)", "new": "for op in flatten_list(items) + self.imm_set_effect_list + left_hybrids"},
    {"name": "assignment_expr: chained assignment drops the inner one", "file": "rzilcompiler/Transformer/RZILTransformer.py",
     "old": '                self.add_op(Sequence("seq", [assignment, items[2]]))', "new": '                self.add_op(Sequence("seq", [assignment]))'},
]


def eff_stub(it, obj, args, kwargs):
    n = obj.ghost["nuses"] = obj.ghost.get("nuses", 0) + 1
    return Tpl([Atom(obj.label, n, meta={"sort": "effect", "owner": obj}, kind="effvar")])


def mk_effect(it, loader, kind, label):
    """abstract effect of class `kind` whose effect_var() is an atom"""
    if kind == "Empty":
        e = it.call(irkit.C(loader, "Empty"), ["empty"], {})
        e.label = label
        return e
    if kind == "NOP":
        e = it.call(irkit.C(loader, "NOP"), [label], {})
    elif kind == "Assignment":
        AT = irkit.enum(loader, "Assignment", "AssignmentType")
        e = it.call(irkit.C(loader, "Assignment"), [label, AT("="), irkit.mk_var(it, label + "_d", (True, 32)),
                                                     irkit.mk_operand(it, "Variable", (True, 32), label + "_s")], {})
    else:
        raise ValueError(kind)
    e.label = label
    e.stubs["effect_var"] = eff_stub
    e.stubs["__str__"] = irkit.str_stub
    return e


# ------------------------------------------------------------------------------------------ Sequence
class SeqInitLoop(LoopContract):
    """for e in effects:   invariant  eff == [x in prefix | Effect, not Empty],  self.effect_ops == [x in prefix | not Effect]"""
    name = "Sequence.__init__"

    def __init__(self, loader):
        self.loader = loader

    def element_kinds(self):
        return ["Empty", "NOP", "Assignment", "Pure", "str", "Tree", "Token", "None"]

    def check_entry(self, it, env, seq):
        self.oblige(it, "Sequence.__init__#loop.base", "", env.vars.get("eff") == [] and env.vars["self"].fields.get("effect_ops") == [])

    def havoc_prefix(self, it, env, seq):
        k = z3.Int("k")
        it.ctx.assume(z3.And(k >= 0, k < seq.length))
        ne = z3.Int("n_eff_prefix")
        it.ctx.assume(z3.And(ne >= 0, ne <= k))
        env.vars["eff"] = AbsAcc("eff", ne, {"spec": "effects of prefix"})
        env.vars["self"].fields["effect_ops"] = AbsAcc("effect_ops", k - ne, {"spec": "non-effects of prefix"})

    def make_element(self, it, kind, seq):
        if kind in ("Empty", "NOP", "Assignment"):
            return mk_effect(it, self.loader, kind, "e_k")
        if kind == "Pure":
            return irkit.mk_operand(it, "Variable", (True, 32), "p_k")
        if kind == "str":
            return "ident"
        if kind == "Tree":
            return Tree("labeled_stmt", [])
        if kind == "Token":
            return Token("BREAK", "break")
        return None

    def check_step(self, it, env, seq, kind, elem, broke):
        eff, ops = env.vars.get("eff"), env.vars["self"].fields.get("effect_ops")
        ok = isinstance(eff, AbsAcc) and isinstance(ops, AbsAcc) and not broke
        if ok:
            if kind == "Tree":
                ok = False   # must have raised
            elif kind == "Empty":
                ok = eff.tail == [] and ops.tail == []
            elif kind in ("NOP", "Assignment"):
                ok = len(eff.tail) == 1 and eff.tail[0] is elem and ops.tail == []
            else:
                ok = eff.tail == [] and len(ops.tail) == 1 and ops.tail[0] is elem
        self.oblige(it, "Sequence.__init__#loop.step", f"element={kind}", ok,
                    detail=f"eff tail {getattr(eff, 'tail', eff)}, effect_ops tail {getattr(ops, 'tail', ops)}")

    def havoc_exit(self, it, env, seq):
        ne = z3.Int("n_eff")
        it.ctx.assume(z3.And(ne >= 0, ne <= seq.length))
        env.vars["eff"] = AbsAcc("eff", ne, {"spec": "effects of all", "all": True})
        env.vars["self"].fields["effect_ops"] = AbsAcc("effect_ops", seq.length - ne, {"spec": "non-effects of all", "all": True})


def gen_sequence(loader, check, replay_on=True):
    Seq = irkit.C(loader, "Sequence")
    check.under_contract(loader, Seq.methods["__init__"], Seq.methods["il_write"], irkit.C(loader, "Effect").methods["__init__"],
                         irkit.C(loader, "Effect").methods["il_init_var"], irkit.C(loader, "Empty").methods["effect_var"],
                         irkit.C(loader, "Empty").methods["il_write"], irkit.C(loader, "Empty").methods["il_init_var"],
                         irkit.C(loader, "NOP").methods["il_write"])
    # ---- __init__ over a list of any length -----------------------------------------------------
    check.instances_declared += 1

    def setup(it):
        s = AbsSeq("effects", SeqInitLoop(loader))
        it.ctx.assume(s.length >= 0)
        return s
    ex = explore(loader, setup, lambda it, s: it.call(Seq, ["seq", s], {}), target=f"{irkit.CLS['Sequence']}.Sequence.__init__")
    check.absorb(ex, "Sequence.__init__ any length")
    if ex.paths:
        check.instances_generated += 1
    seen = set()
    for i, p in enumerate(ex.paths):
        pi = f"effects=any path={i}"
        check.path_obligations(p, pi)
        seen.add(p.outcome)
        if p.outcome == "loop-step":
            continue
        if p.outcome == "raise" and getattr(p.ctx, "loop_kind", None) == ("Sequence.__init__", "Tree"):
            # the result of a grammar rule without handler is rejected, not dropped (C15)
            check.ob("Sequence.__init__#unhandled-production-is-rejected", pi, p.ctx.pc, p.value.cls is NotImplementedError)
            continue
        check.ob("Sequence.__init__#total", pi, p.ctx.pc, p.outcome == "return", detail="" if p.outcome == "return" else f"raises {p.value!r}")
        if p.outcome != "return":
            continue
        o = p.value
        effs, ops = o.fields.get("effects"), o.fields.get("effect_ops")
        n_eff = z3.Int("n_eff")
        if isinstance(effs, AbsAcc):
            check.ob("Sequence.__init__#ensures.effects-are-the-non-empty-effects-in-order", pi, p.ctx.pc,
                     bool(effs.ghost.get("all")) and effs.tail == [], detail=repr(effs.ghost))
            check.ob("Sequence.__init__#ensures.some-effect-present-on-this-path", pi, p.ctx.pc, n_eff > 0)
        else:
            ok = isinstance(effs, list) and len(effs) == 1 and isinstance(effs[0], Obj) and effs[0].cls is irkit.C(loader, "Empty")
            check.ob("Sequence.__init__#ensures.no-effect-gives-single-Empty", pi, p.ctx.pc, ok, detail=repr(effs))
            check.ob("Sequence.__init__#ensures.Empty-only-when-no-effect", pi, p.ctx.pc, n_eff == 0)
        okops = isinstance(ops, AbsAcc) and "concat" in ops.ghost and isinstance(ops.ghost["concat"][0], AbsAcc) and \
            ops.ghost["concat"][0].ghost.get("all") and ops.ghost["concat"][0].tail == [] and ops.ghost["concat"][1] is effs
        check.ob("Sequence.__init__#ensures.effect_ops-is-others-then-effects", pi, p.ctx.pc, bool(okops), detail=repr(getattr(ops, "ghost", ops)))
    check.ob("Sequence.__init__#loop.paths", "any", [], {"loop-step", "return"} <= seen, detail=str(seen))

    # ---- il_write: SEQN(n, e1..en) in order, n == number of arguments (lengths 1..6; the function is a join) ------
    for n, with_pure in [(k, False) for k in range(1, 7)] + [(1, True), (2, True), (3, True)]:
        # with_pure: a statement that is not an effect (a declaration without initialiser, a bare expression) stands among the effects:
        # it is an operand of the sequence (effect_ops) but not one of its effects
        inst = f"effects={n}" + (" and a non-effect statement among them" if with_pure else "")
        check.instances_declared += 1

        def setup(it, n=n, with_pure=with_pure):
            effs = [mk_effect(it, loader, "NOP" if i % 2 else "Assignment", f"e{i}") for i in range(n)]
            items = effs[:1] + [irkit.mk_operand(it, "Variable", (True, 32), "decl")] + effs[1:] if with_pure else effs
            s = it.call(Seq, ["seq", items], {})
            it.ctx.mark_pre(s)
            return {"s": s, "effs": effs}
        ex = explore(loader, setup, lambda it, st: it.call(it.getattr_(st["s"], "il_write"), [], {}))
        check.absorb(ex, f"Sequence.il_write {inst}")
        if ex.paths:
            check.instances_generated += 1
        for i, p in enumerate(ex.paths):
            pi = f"{inst} path={i}"
            check.ob("Sequence.il_write#total", pi, p.ctx.pc, p.outcome == "return")
            if p.outcome != "return":
                continue
            t = emit.as_tpl(p.value)
            atoms = [a.tag for a in t.atoms()] if t else None
            check.ob("Sequence.il_write#every-effect-once-in-source-order", pi, p.ctx.pc, atoms == [f"e{i}" for i in range(n)], detail=str(atoms))
            try:
                term = rzil.parse_expr(t.parts)
                v = rzil.Evaluator().ev(term)
                err = None
            except (rzil.ParseError, rzil.SortError) as e:
                err = str(e)
            check.ob("Sequence.il_write#well-sorted(SEQN count == arguments)", pi, p.ctx.pc, err is None and v.sort == "effect", detail=err or "")
            if n > 1 and err is None:
                check.ob("Sequence.il_write#is-SEQN", pi, p.ctx.pc, term[0] == "call" and term[1] == "SEQN" and term[2][0] == ("num", n))
    # ---- il_write for ANY number of effects (join rule): SEQN(<len>, <each effect's variable once, in order, ', '-separated>) -----
    class EffLoop(LoopContract):
        name = "Sequence.il_write"

        def element_kinds(self):
            return ["Assignment", "NOP"]

        def make_element(self, it, kind, seq):
            return mk_effect(it, loader, kind, f"e_{kind}")
    check.instances_declared += 1

    def setup_any(it):
        s = Obj(Seq, label="seq")
        effs = AbsSeq("effects", EffLoop())
        it.ctx.assume(effs.length >= 1)           # class invariant established by __init__ (an empty list becomes [Empty])
        # effect_ops = the non-effect statements followed by the effects (class invariant of __init__): a list of its own, at least as long
        ops = AbsSeq("effect_ops", EffLoop())
        it.ctx.assume(ops.length >= effs.length)
        s.fields.update({"effects": effs, "name": "seq", "effect_ops": ops})
        return {"s": s, "effs": effs}
    ex = explore(loader, setup_any, lambda it, st: it.call(it.getattr_(st["s"], "il_write"), [], {}))
    check.absorb(ex, "Sequence.il_write any length")
    if ex.paths:
        check.instances_generated += 1
    shapes = set()
    for i, p in enumerate(ex.paths):
        pi = f"effects=any path={i}"
        pc = p.ctx.pc
        check.ob("Sequence.il_write#total", pi, pc, p.outcome == "return", detail="" if p.outcome == "return" else f"raises {p.value!r}")
        if p.outcome != "return":
            continue
        t = emit.as_tpl(p.value)
        n = p.state["effs"].length
        if len(t.parts) == 1 and isinstance(t.parts[0], Atom) and t.parts[0].kind != "join":
            shapes.add("single")
            check.ob("Sequence.il_write#a-single-effect-is-referenced-directly (only when the list has exactly one element)", pi, pc, n == 1)
            continue
        shapes.add("seqn")
        ok = len(t.parts) == 5 and t.parts[0] == "SEQN(" and isinstance(t.parts[1], SInt) and t.parts[2] == ", " and isinstance(t.parts[3], Atom) \
            and t.parts[3].kind == "join" and t.parts[4] == ")"
        check.ob("Sequence.il_write#shape: SEQN(<count>, <joined effect variables>)", pi, pc, bool(ok), detail=t.render(lambda a: f"@{a.tag}"))
        if not ok:
            continue
        j = t.parts[3]
        check.ob("Sequence.il_write#well-sorted(SEQN count == arguments)", pi, pc, z3.And(t.parts[1].t == n, j.meta["length"] == n))
        per = j.meta["elements"]
        good = j.meta["sep"] == ", " and j.meta["seq"].contract is p.state["effs"].contract and z3.eq(j.meta["seq"].length, p.state["effs"].length) and all(
            isinstance(v, Tpl) and len(v.parts) == 1 and isinstance(v.parts[0], Atom) and v.parts[0].kind == "effvar" and v.parts[0].tag == f"e_{k}" for k, v in per.items())
        check.ob("Sequence.il_write#every-effect-once-in-source-order", pi, pc, bool(good), detail=str({k: repr(v) for k, v in per.items()}))
    check.ob("Sequence.il_write#both-shapes-explored", "any length", [], shapes == {"single", "seqn"}, detail=str(shapes))


# ------------------------------------------------------------------------------------------ Branch / ForLoop / Assignment emission
def gen_effect_emission(loader, check, replay_on=True):
    Br, Fl, Asg = irkit.C(loader, "Branch"), irkit.C(loader, "ForLoop"), irkit.C(loader, "Assignment")
    check.under_contract(loader, Br.methods["__init__"], Br.methods["il_write"], Fl.methods["__init__"], Fl.methods["il_write"],
                         Asg.methods["__init__"], Asg.methods["il_write"], Asg.methods["set_src"], Asg.methods["set_dest"])
    for ck in ["Variable", "Register", "PredRegister", "Number", "Cast", "CompareOp", "BooleanOp", "Bool", "HybridTmp"]:
        for ct in ((True, 32), (False, 8), (True, 64)):
            if ck == "PredRegister" and ct != (False, 8):
                continue
            inst = f"cond={ck}:{tname(ct)}"
            for what in ("Branch", "ForLoop"):
                check.instances_declared += 1

                def setup(it, ck=ck, ct=ct, what=what):
                    c = irkit.mk_operand(it, ck, ct, "c")
                    a, b = mk_effect(it, loader, "Assignment", "then"), mk_effect(it, loader, "NOP", "else")
                    if what == "Branch":
                        n = it.call(Br, ["branch", c, a, b], {})
                    else:
                        n = it.call(Fl, ["for", c, a], {})
                    return {"n": n, "c": c}
                ex = explore(loader, setup, lambda it, st: it.call(it.getattr_(st["n"], "il_write"), [], {}))
                check.absorb(ex, f"{what}.il_write {inst}")
                if ex.paths:
                    check.instances_generated += 1
                for i, p in enumerate(ex.paths):
                    pi = f"{inst} path={i}" if len(ex.paths) > 1 else inst
                    name = f"{what}.il_write"
                    rp = ("c05.effect_text", lambda mdl, ck=ck, ct=ct, what=what: {"what": what, "cond_kind": ck, "ct": list(ct)}) if replay_on else None
                    check.ob(f"{name}#total", pi, p.ctx.pc, p.outcome == "return", replay=rp)
                    if p.outcome != "return":
                        continue
                    t = emit.as_tpl(p.value)
                    try:
                        term = rzil.parse_expr(t.parts)
                        ev = rzil.Evaluator()
                        v = ev.ev(term)
                        err = None
                    except (rzil.ParseError, rzil.SortError) as e:
                        term, err = None, str(e)
                    check.ob(f"{name}#well-sorted", pi, p.ctx.pc, err is None and v.sort == "effect", replay=rp, detail=err or t.render())
                    if err is not None:
                        continue
                    head = "BRANCH" if what == "Branch" else "REPEAT"
                    okh = term[0] == "call" and term[1] == head
                    check.ob(f"{name}#shape", pi, p.ctx.pc, okh, replay=rp, detail=t.render())
                    if not okh:
                        continue
                    c = p.state["c"]
                    cv = rzil.Evaluator().ev(term[2][0])
                    want = c.ghost["den"] if c.ghost["sort"] == "bool" else (c.ghost["den"] != 0)
                    rpt = rp
                    if replay_on and ck in ("Register", "PredRegister", "Number"):
                        rpt = ("c05.cond_truth", lambda mdl, ck=ck, ct=ct, what=what: {"what": what, "cond_kind": ck, "ct": list(ct),
                                                                                         "c": int(mdl.get("c_lit" if ck == "Number" else "c", 0))})
                    check.ob(f"{name}#condition-is-C-truth-of-cond", pi, p.ctx.pc, cv.v == want, replay=rpt, detail=t.render())
                    # linearity: the condition is read exactly once and that text is embedded exactly once; each arm is referenced once
                    reads = [(a.tag, a.ordinal) for a in t.atoms() if a.kind == "read"]
                    # (a literal condition is re-rendered, not consumed: no native stand-in for this clause - a refutation is reported without a failing input)
                    rpl = ("c05.cond_once", lambda mdl, ck=ck, what=what: {"what": what, "cond_kind": ck}) if replay_on and ck != "Number" else None
                    check.ob(f"{name}#atom-linearity", pi, p.ctx.pc, c.ghost.get("nreads", 0) == 1 and reads == [("c", 1)], replay=rpl,
                             detail=f"condition il_read() x{c.ghost.get('nreads', 0)}, embedded: {reads}")
                    if what == "Branch":
                        arms = [a[1].tag if a[0] == "atom" else None for a in term[2][1:]]
                        check.ob("Branch.il_write#then-arm-first-else-arm-second", pi, p.ctx.pc, arms == ["then", "else"], replay=rp, detail=str(arms))
                    else:
                        arms = [a[1].tag if a[0] == "atom" else None for a in term[2][1:]]
                        check.ob("ForLoop.il_write#body", pi, p.ctx.pc, arms == ["then"], replay=rp)

    # Assignment.il_write: SETL(name, src) / WRITE_REG(bundle, <dest operand>, src)
    RA = irkit.enum(loader, "Register", "RegisterAccessType")
    AT = irkit.enum(loader, "Assignment", "AssignmentType")
    for dk in ("Variable", "Register", "RegisterPair", "HybridTmp"):
        for sk in ("Variable", "Cast", "CompareOp", "Number"):
            inst = f"dest={dk} src={sk}"
            check.instances_declared += 1

            def setup(it, dk=dk, sk=sk):
                t = (True, 64) if dk == "RegisterPair" else (True, 32)
                if dk == "Variable":
                    d = irkit.mk_var(it, "v", t)
                elif dk == "HybridTmp":
                    d = irkit.mk_operand(it, "HybridTmp", t, "h")
                    d.stubs.clear()
                else:
                    d = it.call(irkit.C(loader, "Register"), ["Rdd" if dk == "RegisterPair" else "Rd", RA.PW if dk == "RegisterPair" else RA.W, conc_vt(loader, t)], {})
                s = irkit.mk_operand(it, sk, t, "s")
                a = it.call(Asg, ["op_ASSIGN", AT("="), d, s], {})
                it.ctx.mark_pre(a, d, s)
                return {"a": a, "d": d, "s": s, "t": t}
            ex = explore(loader, setup, lambda it, st: it.call(it.getattr_(st["a"], "il_write"), [], {}))
            check.absorb(ex, f"Assignment.il_write {inst}")
            if ex.paths:
                check.instances_generated += 1
            for i, p in enumerate(ex.paths):
                pi = inst
                check.ob("Assignment.il_write#total", pi, p.ctx.pc, p.outcome == "return", detail="" if p.outcome == "return" else f"raises {p.value!r}")
                if p.outcome != "return":
                    continue
                emit.frame_obligation(check, "Assignment.il_write", pi, p)
                from .catalog import listed_obligation
                listed_obligation(check, "Assignment.il_write", pi, p, p.state["a"], [p.state["s"]])
                t = emit.as_tpl(p.value)
                try:
                    term = rzil.parse_expr(t.parts)
                    err = None
                except rzil.ParseError as e:
                    term, err = None, str(e)
                check.ob("Assignment.il_write#parses", pi, p.ctx.pc, err is None, detail=err or "")
                if err:
                    continue
                d = p.state["d"]
                if dk in ("Variable", "HybridTmp"):
                    nm = it_name(d)
                    ok = term[0] == "call" and term[1] == "SETL" and term[2][0] == ("str", nm) and term[2][1][0] == "atom" and term[2][1][1].tag == "s"
                else:
                    ok = term[0] == "call" and term[1] == "WRITE_REG" and rzil.show(term[2][0]) == "bundle" and \
                        rzil.show(term[2][1]) == d.fields["name"] + "_op" and term[2][2][0] == "atom" and term[2][2][1].tag == "s"
                check.ob("Assignment.il_write#writes-exactly-the-target-with-the-source-value", pi, p.ctx.pc, ok, detail=t.render())
                check.ob("Assignment.il_write#source-read-once", pi, p.ctx.pc, p.state["s"].ghost.get("nreads", 0) == 1)


def it_name(o):
    n = o.fields.get("isa_name") or o.fields.get("name")
    return n


# ------------------------------------------------------------------------------------------ statement callbacks
def gen_stmt_callbacks(loader, check, replay_on=True):
    T = loader.load(tkit.M_T).globals["RZILTransformer"]
    for fn in ("selection_stmt", "for_loop", "iteration_stmt", "compound_stmt", "expr_stmt", "block_item", "block_item_list",
               "chk_hybrid_dep", "emit_final_seq_return"):
        check.under_contract(loader, T.methods[fn])
    Seq, Br, Fl, Emp = (irkit.C(loader, n) for n in ("Sequence", "Branch", "ForLoop", "Empty"))

    def is_seq_of(o, effs):
        # Sequence drops empty statements; a sequence of nothing is one fresh EMPTY
        effs = [e for e in effs if not (isinstance(e, Obj) and e.cls is Emp)]
        if not (isinstance(o, Obj) and o.cls is Seq):
            return False
        if not effs:
            got = o.fields["effects"]
            return len(got) == 1 and isinstance(got[0], Obj) and got[0].cls is Emp
        return len(o.fields["effects"]) == len(effs) and all(a is b for a, b in zip(o.fields["effects"], effs))

    # ---- if / if-else / switch ---------------------------------------------------------------------
    cond_cases = [("Variable", t_) for t_ in T8] + [("Register", (True, 64)), ("CompareOp", (True, 32)), ("Cast", (False, 64)), ("HybridTmp", (True, 64))]
    for form in ("if", "if-else", "switch"):
      for ck, ct in (cond_cases if form != "switch" else cond_cases[:1]):
        for nthen in (1, 2, "nested-block", "empty-block", "empty-else"):
            if nthen in ("nested-block", "empty-block", "empty-else") and (form == "switch" or (ck, ct) not in (cond_cases[4], cond_cases[-3])):
                continue
            if nthen == "empty-else" and form != "if-else":
                continue
            inst = f"{form} cond={ck}:{tname(ct)} then-statements={nthen}"
            check.instances_declared += 1

            def setup(it, form=form, nthen=nthen, ck=ck, ct=ct):
                t = tkit.mk_transformer(it)
                c = irkit.mk_operand(it, ck, ct, "c")
                nested = nthen == "nested-block"
                if nthen == "empty-block":
                    # if (c) {} [else ...]: the then statement is the EMPTY effect an empty block yields
                    then = [mk_effect(it, loader, "Empty", "t0")]
                else:
                    then = [mk_effect(it, loader, "Assignment", f"t{i}") for i in range(3 if nested else (1 if nthen == "empty-else" else nthen))]
                els = [mk_effect(it, loader, "Empty", "e0")] if nthen == "empty-else" else [mk_effect(it, loader, "Assignment", "e0"), mk_effect(it, loader, "NOP", "e1")]
                # a block whose second item is itself a block: { t0; { t1; t2; } } arrives as a nested list
                then_item = [then[0], [then[1], then[2]]] if nested else (then if len(then) > 1 else then[0])
                els_item = [[els[0]], [els[1]]] if nested else (els if len(els) > 1 else els[0])
                if form == "if":
                    items = [Token("IF", "if"), c, then_item]
                elif form == "if-else":
                    items = [Token("IF", "if"), c, then_item, Token("ELSE", "else"), els_item]
                else:
                    items = [Token("SWITCH", "switch"), c, then[0]]
                it.ctx.mark_pre(t)
                return {"t": t, "items": items, "c": c, "then": then, "els": els}
            ex = explore(loader, setup, lambda it, st: it.call(tkit.method(it, st["t"], "selection_stmt"), [st["items"]], {}))
            check.absorb(ex, f"selection_stmt {inst}")
            if ex.paths:
                check.instances_generated += 1
            for i, p in enumerate(ex.paths):
                pi = inst
                if form == "switch":
                    check.ob("selection_stmt#switch-is-rejected", pi, p.ctx.pc, p.outcome == "raise" and p.value.cls is NotImplementedError)
                    continue
                check.ob("selection_stmt#total", pi, p.ctx.pc, p.outcome == "return", detail="" if p.outcome == "return" else f"raises {p.value!r}")
                if p.outcome != "return":
                    continue
                b = p.value
                ok = isinstance(b, Obj) and b.cls is Br
                check.ob("selection_stmt#returns-Branch", pi, p.ctx.pc, ok)
                if not ok:
                    continue
                st = p.state
                # the branch is taken iff the C condition is non-zero - for every value of the condition
                cnode = b.fields["cond"]
                cden = st["c"].ghost["den"]
                want_t = cden if st["c"].ghost["sort"] == "bool" else (cden != 0)
                try:
                    got_t = ir.truth(cnode)
                    ok_c = None
                except ir.NotWF as e_:
                    got_t, ok_c = None, str(e_)
                rpc = ("c05.if_cond", lambda mdl, ck=ck, ct=ct: {"kind": ck, "ct": list(ct), "c": mdl.get("c", 0)}) if replay_on else None
                check.ob("selection_stmt#then-arm-taken-iff-the-condition-is-non-zero", pi, p.ctx.pc, (got_t == want_t) if got_t is not None else False,
                         replay=rpc, detail=ok_c or "")
                rpa = ("c05.if_arms", lambda mdl, form=form, nthen=nthen: {"form": form, "shape": str(nthen)}) if replay_on else None
                check.ob("selection_stmt#then-arm-is-the-then-statements-in-order", pi, p.ctx.pc, is_seq_of(b.fields["then"], st["then"]), replay=rpa)
                if form == "if":
                    check.ob("selection_stmt#no-else-means-EMPTY", pi, p.ctx.pc, isinstance(b.fields["otherwise"], Obj) and b.fields["otherwise"].cls is Emp, replay=rpa)
                else:
                    check.ob("selection_stmt#else-arm-is-the-else-statements-in-order", pi, p.ctx.pc, is_seq_of(b.fields["otherwise"], st["els"]), replay=rpa)

    # ---- for / while / do --------------------------------------------------------------------------------
    for nbody in (0, 1, 2):
        inst = f"for body-statements={nbody}"
        check.instances_declared += 1

        def setup(it, nbody=nbody):
            t = tkit.mk_transformer(it)
            init = mk_effect(it, loader, "Assignment", "init")
            cond = irkit.mk_operand(it, "CompareOp", (True, 32), "c")
            step = mk_effect(it, loader, "Assignment", "step")
            body = [mk_effect(it, loader, "Assignment", f"b{i}") for i in range(nbody)]
            it.ctx.mark_pre(t)
            return {"t": t, "items": [Token("FOR", "for"), init, cond, step, body if nbody != 1 else body[0]], "init": init, "cond": cond, "step": step, "body": body}
        ex = explore(loader, setup, lambda it, st: it.call(tkit.method(it, st["t"], "iteration_stmt"), [st["items"]], {}))
        check.absorb(ex, f"iteration_stmt {inst}")
        if ex.paths:
            check.instances_generated += 1
        for i, p in enumerate(ex.paths):
            pi = inst
            check.ob("iteration_stmt(for)#total", pi, p.ctx.pc, p.outcome == "return", detail="" if p.outcome == "return" else f"raises {p.value!r}")
            if p.outcome != "return":
                continue
            s, st = p.value, p.state
            ok = isinstance(s, Obj) and s.cls is Seq and len(s.fields["effects"]) == 2 and s.fields["effects"][0] is st["init"] \
                and isinstance(s.fields["effects"][1], Obj) and s.fields["effects"][1].cls is Fl
            check.ob("for_loop#initialiser-once-then-loop", pi, p.ctx.pc, ok)
            if not ok:
                continue
            fl = s.fields["effects"][1]
            check.ob("for_loop#loop-condition-is-the-for-condition", pi, p.ctx.pc, fl.fields["control"] is st["cond"])
            check.ob("for_loop#each-iteration-runs-body-then-step", pi, p.ctx.pc, is_seq_of(fl.fields["compound"], st["body"] + [st["step"]]))
    for kw, items in (("while", [Token("WHILE", "while"), None, None]), ("do", [Token("DO", "do"), None, Token("WHILE", "while"), None])):
        check.instances_declared += 1

        def setup(it, items=items):
            return {"t": tkit.mk_transformer(it), "items": items}
        ex = explore(loader, setup, lambda it, st: it.call(tkit.method(it, st["t"], "iteration_stmt"), [st["items"]], {}))
        check.absorb(ex, f"iteration_stmt {kw}")
        if ex.paths:
            check.instances_generated += 1
        for p in ex.paths:
            check.ob(f"iteration_stmt#{kw}-is-rejected", kw, p.ctx.pc, p.outcome == "raise" and p.value.cls is NotImplementedError)

    # ---- statements that change nothing: empty compound / expression statement / block_item pass-through ----
    for cb in ("compound_stmt", "expr_stmt"):
        check.instances_declared += 1

        def setup(it):
            t = tkit.mk_transformer(it)
            it.ctx.mark_pre(t)
            return {"t": t}
        ex = explore(loader, setup, lambda it, st, cb=cb: it.call(tkit.method(it, st["t"], cb), [[]], {}))
        check.absorb(ex, cb)
        if ex.paths:
            check.instances_generated += 1
        for p in ex.paths:
            check.ob(f"{cb}#yields-Empty", cb, p.ctx.pc, p.outcome == "return" and isinstance(p.value, Obj) and p.value.cls is Emp)
    check.instances_declared += 1

    def setup(it):
        t = tkit.mk_transformer(it)
        e = mk_effect(it, loader, "Assignment", "s0")
        return {"t": t, "e": e}
    ex = explore(loader, setup, lambda it, st: (it.call(tkit.method(it, st["t"], "block_item"), [[st["e"]]], {}),
                                                it.call(tkit.method(it, st["t"], "block_item_list"), [[st["e"], st["e"]]], {})))
    check.absorb(ex, "block_item")
    if ex.paths:
        check.instances_generated += 1
    for p in ex.paths:
        ok = p.outcome == "return" and p.value[0] is p.state["e"] and p.value[1] == [p.state["e"], p.state["e"]]
        check.ob("block_item#pass-through", "block_item / block_item_list", p.ctx.pc, ok)

    # ---- emit_final_seq_return: immediates first, then statements in source order ----------------------------
    CF = loader.load(tkit.M_T).globals["CodeFormat"]
    for fmt in (CF.READ_STATEMENTS, CF.EXEC_CLASSES):
        for shape in ("flat3", "nested", "with-empty", "none"):
            inst = f"layout={fmt.name} items={shape}"
            check.instances_declared += 1

            def setup(it, fmt=fmt, shape=shape):
                t = tkit.mk_transformer(it, code_format=fmt)
                imm = mk_effect(it, loader, "Assignment", "imm0")
                t.fields["imm_set_effect_list"].append(imm)
                s = [mk_effect(it, loader, "Assignment", f"s{i}") for i in range(3)]
                if shape == "flat3":
                    items, exp = [s[0], s[1], s[2]], s
                elif shape == "nested":
                    items, exp = [s[0], [s[1], [s[2]]]], s
                elif shape == "with-empty":
                    items, exp = [s[0], mk_effect(it, loader, "Empty", "x"), s[1]], s[:2]
                else:
                    items, exp = [], []
                it.ctx.mark_pre(t)
                return {"t": t, "items": items, "exp": [imm] + exp}
            ex = explore(loader, setup, lambda it, st: it.call(tkit.method(it, st["t"], "emit_final_seq_return"), [st["items"], "PREFIX\n"], {}))
            check.absorb(ex, f"emit_final_seq_return {inst}")
            if ex.paths:
                check.instances_generated += 1
            for i, p in enumerate(ex.paths):
                pi = inst
                check.ob("emit_final_seq_return#total", pi, p.ctx.pc, p.outcome == "return", detail="" if p.outcome == "return" else f"raises {p.value!r}")
                if p.outcome != "return":
                    continue
                t = emit.as_tpl(p.value)
                tags = [a.tag for a in t.atoms()]
                check.ob("emit_final_seq_return#immediates-then-statements-in-source-order", pi, p.ctx.pc,
                         tags == [e.label for e in p.state["exp"]], detail=f"{tags}")
                txt = t.render(lambda a: a.tag)
                lines = [l for l in txt.split("\n") if l.strip()]
                check.ob("emit_final_seq_return#ends-with-return-of-the-instruction-sequence", pi, p.ctx.pc,
                         lines[-1] == "return instruction_sequence;" and lines[-2].startswith("RzILOpEffect *instruction_sequence = ") and txt.startswith("PREFIX\n"),
                         detail=txt[-120:])


# ------------------------------------------------------------------------------------------ flatten_list (unbounded, recursive)
class FlattenLoop(LoopContract):
    """for el in ls:   invariant  result == flat(prefix)   where flat(leaf) = [leaf], flat(list) = concat(flat(x) for x in list)"""
    name = "flatten_list"

    def element_kinds(self):
        return ["leaf-object", "leaf-str", "leaf-none", "nested-list", "nested-tuple-concrete"]

    def check_entry(self, it, env, seq):
        self.oblige(it, "flatten_list#loop.base", "", env.vars.get("result") == [])

    def havoc_prefix(self, it, env, seq):
        k = z3.Int("k")
        it.ctx.assume(z3.And(k >= 0, k < seq.length))
        env.vars["result"] = AbsAcc("result", z3.Int("n_flat_prefix"), {"spec": "flat(prefix)"})

    def make_element(self, it, kind, seq):
        if kind == "leaf-object":
            self.elem = Obj(irkit.C(it.loader, "Effect"), label="x_k")
        elif kind == "leaf-str":
            self.elem = "ident"
        elif kind == "leaf-none":
            self.elem = None
        elif kind == "nested-list":
            self.elem = AbsSeq("nested_k", None)
        else:
            self.elem = ("a", ["b", ("c",)])
        return self.elem

    def check_step(self, it, env, seq, kind, elem, broke):
        r = env.vars.get("result")
        ok = isinstance(r, AbsAcc) and not broke
        if ok:
            if kind.startswith("leaf"):
                ok = len(r.tail) == 1 and r.tail[0] is elem
            elif kind == "nested-list":
                ok = len(r.tail) == 1 and isinstance(r.tail[0], tuple) and r.tail[0][0] == "splice" and r.tail[0][1].ghost.get("flat_of") is elem
            else:
                ok = r.tail == ["a", "b", "c"]
        self.oblige(it, "flatten_list#loop.step: result == flat(prefix) ++ flat(element)", f"element={kind}", ok, detail=repr(getattr(r, "tail", r)))

    def havoc_exit(self, it, env, seq):
        env.vars["result"] = AbsAcc("result", z3.Int("n_flat"), {"spec": "flat(all)", "all": True})


def flatten_contract(it, f, args, kwargs):
    """own contract for recursive calls: flatten_list(x) == flat(x)"""
    x = args[0]
    if isinstance(x, AbsSeq):
        return AbsAcc("flat", z3.Int("n_nested"), {"flat_of": x})
    # concrete nested value: compute the specification function directly
    def flat(v):
        if isinstance(v, (list, tuple)):
            out = []
            for y in v:
                out.extend(flat(y))
            return out
        return [v]
    return flat(x)


def gen_flatten(loader, check, replay_on=True):
    m = loader.load("rzilcompiler.Transformer.helper")
    f = m.globals["flatten_list"]
    check.under_contract(loader, f)
    check.instances_declared += 1

    def setup(it):
        it.ctx.contracts[f.qualname] = flatten_contract
        s = AbsSeq("ls", FlattenLoop())
        it.ctx.assume(s.length >= 0)
        return s
    ex = explore(loader, setup, lambda it, s: it.call(f, [s], {}), target=f.qualname)
    check.absorb(ex, "flatten_list any list")
    if ex.paths:
        check.instances_generated += 1
    seen = set()
    for i, p in enumerate(ex.paths):
        pi = f"ls=any path={i}"
        check.path_obligations(p, pi)
        seen.add(p.outcome)
        if p.outcome == "return":
            r = p.value
            check.ob("flatten_list#ensures.result-is-flat(ls)", pi, p.ctx.pc, isinstance(r, AbsAcc) and bool(r.ghost.get("all")) and r.tail == [])
        elif p.outcome == "raise":
            check.ob("flatten_list#total", pi, p.ctx.pc, False, detail=f"raises {p.value!r}")
    check.ob("flatten_list#loop.paths", "any", [], {"loop-step", "return"} <= seen, detail=str(seen))
    # non-iterable / string arguments: a single leaf
    for arg, lab in ((None, "None"), ("abc", "str")):
        check.instances_declared += 1
        ex = explore(loader, lambda it: None, lambda it, st, arg=arg: it.call(f, [arg], {}), target=f.qualname)
        check.absorb(ex, f"flatten_list {lab}")
        if ex.paths:
            check.instances_generated += 1
        for p in ex.paths:
            check.ob("flatten_list#leaf-argument", lab, p.ctx.pc, p.outcome == "return" and p.value == [arg])


# ------------------------------------------------------------------------------------------ assignment operators (values)
def gen_assignments(loader, check, replay_on=True, ops=None, dtypes=None, stypes=None):
    T = loader.load(tkit.M_T).globals["RZILTransformer"]
    check.under_contract(loader, T.methods["assignment_expr"], T.methods["update_assign_src"])
    Asg, Seq = irkit.C(loader, "Assignment"), irkit.C(loader, "Sequence")
    ops = ops or ASSIGN_OPS
    dtypes = dtypes or T8
    stypes = stypes or T8
    for (tok, bop) in ops:
        for sink in ("Variable", "Register"):
            for dt in (dtypes if sink == "Variable" else [t for t in dtypes if t in ((True, 32), (True, 64))]):
                for stp in stypes:
                    for sk in ("Variable", "Number"):
                        ctt = c11.compare_type(dt, stp)
                        repres = (stp[0] == dt[0] and stp[1] <= dt[1]) or (not stp[0] and dt[0] and stp[1] < dt[1])
                        inst = (f"sink={sink}:{tname(dt)} src={sk}:{tname(stp)} narrow-target={'yes' if dt[1] < 32 else 'no'} "
                                f"same-width={'yes' if dt[1] == stp[1] else 'no'} ct-eq-ptarget={'yes' if ctt == c11.promote(*dt) else 'no'} "
                                f"ct-eq-target={'yes' if ctt == dt else 'no'} src-representable-in-target={'yes' if repres else 'no'}")
                        name = f"assignment_expr({tok})"

                        def setup(it, sink=sink, dt=dt, stp=stp, sk=sk):
                            if sink == "Variable":
                                d = irkit.mk_var(it, "d", dt)
                                d.ghost.update(den=z3.BitVec("d", dt[1]), sort=("bv", dt[1]), kind="Variable", ctype=dt)
                                d.label = "d"
                                d.stubs["il_read"] = irkit.il_read_stub
                            else:
                                RA = irkit.enum(loader, "Register", "RegisterAccessType")
                                d = it.call(irkit.C(loader, "Register"), ["Rxx" if dt[1] == 64 else "Rx", RA.PRW if dt[1] == 64 else RA.RW, conc_vt(loader, dt)], {})
                                d.ghost.update(den=z3.BitVec("d", dt[1]), sort=("bv", dt[1]), kind="Register", ctype=dt)
                                d.label = "d"
                                d.stubs["il_read"] = irkit.il_read_stub
                            s = irkit.mk_operand(it, sk, stp, "s")
                            t = tkit.mk_transformer(it, registered=[d])
                            it.ctx.mark_pre(t, d, s)
                            return {"t": t, "d": d, "s": s}

                        def run(it, st, tok=tok):
                            return it.call(tkit.method(it, st["t"], "assignment_expr"), [[st["d"], Token("ASSIGN_OP", tok), st["s"]]], {})
                        for p, pi in callback_paths(check, loader, name, inst, setup, run):
                            rp = mk_rp("c05.assign", tok=tok, sink=sink, dt=list(dt), st=list(stp), sk=sk) if replay_on else None
                            check.ob(f"{name}#total", pi, p.ctx.pc, p.outcome == "return", replay=rp,
                                     detail="" if p.outcome == "return" else f"raises {p.value!r}")
                            if p.outcome != "return":
                                continue
                            a = p.value
                            ok = isinstance(a, Obj) and a.cls is Asg
                            check.ob(f"{name}#returns-one-Assignment", pi, p.ctx.pc, ok, replay=rp)
                            if not ok:
                                continue
                            d, s = p.state["d"], p.state["s"]
                            check.ob(f"{name}#updates-only-its-target", pi, p.ctx.pc, a.fields["dest"] is d, replay=rp)
                            src = a.fields["src"]
                            flags, structs = ir.wf_split(src)
                            check.ob(f"{name}#WF", pi, p.ctx.pc, not structs, replay=rp, detail="; ".join(structs)[:200])
                            if structs:
                                continue
                            xd, xs = d.ghost["den"], s.ghost["den"]
                            pre = []
                            if bop is None:
                                want = c11.conv(xs, stp, dt[1])
                            else:
                                if bop in ("<<", ">>"):
                                    pre = [c11.shift_defined(bop, dt, xs, stp)]
                                if bop in ("/", "%"):
                                    ct = c11.compare_type(dt, stp)
                                    ys = c11.conv(c11.conv(xs, stp, c11.promote(*stp)[1]), c11.promote(*stp), ct[1])
                                    pre = [ys != 0]
                                rt = c11.binop_type(bop, dt, stp)
                                want = c11.conv(c11.binop_value(bop, xd, dt, xs, stp), rt, dt[1])
                            w = ir.sort(src)
                            check.ob(f"{name}#stored-value-has-the-target-width", pi, p.ctx.pc, w == ("bv", dt[1]), replay=rp,
                                     detail=f"value of sort {w} assigned to {tname(dt)} target")
                            if bop in ("/", "%"):
                                # division is decided structurally (bit-vector division is expensive for the solver and adds nothing):
                                # the node divides the C-converted operands with the C signedness
                                node = src
                                while isinstance(node, Obj) and node.cls is irkit.C(loader, "Cast"):
                                    node = node.fields["ops"][0]
                                isdiv = isinstance(node, Obj) and node.cls is irkit.C(loader, "ArithmeticOp") and str(node.fields["arith_type"].value) == bop
                                check.ob(f"{name}#is-a-division-node", pi, p.ctx.pc, isdiv, replay=rp)
                                if isdiv:
                                    ct = c11.compare_type(dt, stp)
                                    xa = c11.conv(c11.conv(xd, dt, c11.promote(*dt)[1]), c11.promote(*dt), ct[1])
                                    xb = c11.conv(c11.conv(xs, stp, c11.promote(*stp)[1]), c11.promote(*stp), ct[1])
                                    oa, ob_ = node.fields["ops"]
                                    same_w = ir.sort(oa) == ("bv", ct[1]) and ir.sort(ob_) == ("bv", ct[1])
                                    check.ob(f"{name}#computed-in-the-common-type", pi, p.ctx.pc, same_w and ir.vt(oa)[0] == ct[0], replay=rp,
                                             detail=f"operands {tname(ir.vt(oa))}, {tname(ir.vt(ob_))}; C11 common type {tname(ct)}")
                                    if same_w:
                                        check.ob(f"{name}#left-operand-converted", pi, p.ctx.pc, ir.den(oa) == xa, replay=rp)
                                        check.ob(f"{name}#right-operand-converted", pi, p.ctx.pc, ir.den(ob_) == xb, replay=rp)
                            elif w == ("bv", dt[1]):
                                check.ob(f"{name}#value", pi, list(p.ctx.pc) + pre, ir.den(src) == want, replay=rp)

def gen_chained(loader, check, replay_on=True):
    T = loader.load(tkit.M_T).globals["RZILTransformer"]
    Asg, Seq = irkit.C(loader, "Assignment"), irkit.C(loader, "Sequence")
    # chained assignment a = b = x : C assigns b first and gives a the value of b
    for ta in [(True, 32), (True, 64), (False, 8)]:
        for tb in [(True, 32), (True, 8), (False, 64)]:
            for reads_a in (False, True):
                inst = f"a:{tname(ta)} = b:{tname(tb)} = x{' (x reads a)' if reads_a else ''}"
                name = "assignment_expr(chained)"
                check.instances_declared += 1

                def setup(it, ta=ta, tb=tb, reads_a=reads_a):
                    a = irkit.mk_var(it, "a", ta)
                    b = irkit.mk_var(it, "b", tb)
                    x = irkit.mk_operand(it, "ArithmeticOp", (True, 32), "x")
                    x.ghost["reads_locals"] = ["a"] if reads_a else []
                    t = tkit.mk_transformer(it, registered=[a, b])
                    inner = it.call(tkit.method(it, t, "assignment_expr"), [[b, Token("ASSIGN_OP", "="), x]], {})
                    it.ctx.mark_pre(t)
                    return {"t": t, "a": a, "b": b, "x": x, "inner": inner}
                ex = explore(loader, setup, lambda it, st: it.call(tkit.method(it, st["t"], "assignment_expr"),
                                                                     [[st["a"], Token("ASSIGN_OP", "="), st["inner"]]], {}))
                check.absorb(ex, f"{name} {inst}")
                if ex.paths:
                    check.instances_generated += 1
                for i, p in enumerate(ex.paths):
                    pi = inst
                    check.ob(f"{name}#total", pi, p.ctx.pc, p.outcome == "return", detail="" if p.outcome == "return" else f"raises {p.value!r}")
                    if p.outcome != "return":
                        continue
                    s = p.value
                    ok = isinstance(s, Obj) and s.cls is Seq and len(s.fields["effects"]) == 2
                    check.ob(f"{name}#both-assignments-sequenced", pi, p.ctx.pc, ok)
                    if not ok:
                        continue
                    first, second = s.fields["effects"]
                    st = p.state
                    # value given to a == conv(conv(x -> type b) -> type a)
                    outer = first if first.fields["dest"] is st["a"] else second
                    want = c11.conv(c11.conv(st["x"].ghost["den"], (True, 32), tb[1]), tb, ta[1])
                    src = outer.fields["src"]
                    if not ir.wf_problems(src) and ir.sort(src) == ("bv", ta[1]):
                        rpc = ("c05.chained_conv", lambda mdl, ta=ta, tb=tb: {"ta": list(ta), "tb": list(tb), "x": int(mdl.get("x", 0))}) if replay_on else None
                        check.ob(f"{name}#a-gets-the-converted-value-of-b", pi, p.ctx.pc, ir.den(src) == want, replay=rpc)
                    # order: if the assignment to a runs first and x reads a, b is computed from the *updated* a
                    a_first = first.fields["dest"] is st["a"]
                    rp = ("c05.chained", lambda mdl: {}) if replay_on else None
                    check.ob(f"{name}#inner-assignment-evaluated-before-its-operand-is-overwritten", pi, p.ctx.pc,
                             not (a_first and reads_a), replay=rp if reads_a else None,
                             detail="the outer assignment (to a) is sequenced before the inner one, whose source expression reads a")


# ------------------------------------------------------------------------------------------ replay
@replay.register("c05.assign")
def replay_assign(a):
    from rzilcompiler.Transformer.RZILTransformer import RZILTransformer
    from rzilcompiler.Transformer.ValueType import ValueType
    from rzilcompiler.Transformer.Pures.Variable import Variable
    from rzilcompiler.Transformer.Pures.Register import Register, RegisterAccessType
    from rzilcompiler.ArchEnum import ArchEnum
    t = RZILTransformer(ArchEnum.HEXAGON)
    dt, stp = tuple(a["dt"]), tuple(a["st"])
    mdl = a.get("model", {})
    if a["sink"] == "Variable":
        d = t.add_op(Variable("d", ValueType(*dt)))
    else:
        d = t.add_op(Register("Rxx" if dt[1] == 64 else "Rx", RegisterAccessType.PRW if dt[1] == 64 else RegisterAccessType.RW, ValueType(*dt)))
        d._verif_ghost = {"den": z3.BitVec("d", dt[1]), "sort": ("bv", dt[1])}
    s = Variable("s", ValueType(*stp))
    tok = a["tok"]
    try:
        asg = t.assignment_expr([d, Token("ASSIGN_OP", tok), s])
    except Exception as e:
        return True, f"assignment_expr({tok}) raised {type(e).__name__}: {e}"
    src = asg.src
    clause = a.get("clause", "")
    bop = dict(ASSIGN_OPS)[tok]
    vd, vs = int(mdl.get("d", 0)), int(mdl.get("s", 0))
    vals = {("d", dt[1]): vd, ("s", stp[1]): vs}
    desc = f"d:{tname(dt)}={vd:#x} {tok} s:{tname(stp)}={vs:#x} -> {asg}"
    try:
        if clause in ("computed-in-the-common-type", "left-operand-converted", "right-operand-converted"):
            node = src
            while type(node).__name__ == "Cast":
                node = node.ops[0]
            ct = c11.compare_type(dt, stp)
            oa, ob_ = node.ops
            if clause == "computed-in-the-common-type":
                bad = ir.sort(oa) != ("bv", ct[1]) or ir.sort(ob_) != ("bv", ct[1]) or ir.vt(oa)[0] != ct[0]
                return bad, f"{desc}: division operands typed {tname(ir.vt(oa))}, {tname(ir.vt(ob_))}; C11 common type {tname(ct)}"
            which, o, x, t0 = ("left", oa, z3.BitVecVal(vd, dt[1]), dt) if clause.startswith("left") else ("right", ob_, z3.BitVecVal(vs, stp[1]), stp)
            want = z3.simplify(c11.conv(c11.conv(x, t0, c11.promote(*t0)[1]), c11.promote(*t0), ct[1])).as_long()
            got = _concrete_den(o, vals)
            return got != want, f"{desc}: {which} operand of the division is {got:#x}, C11 converts it to {want:#x}"
        w = ir.sort(src)
        if w != ("bv", dt[1]):
            return True, f"{desc}: stores a value of sort {w} into a {dt[1]}-bit target"
        got = _concrete_den(src, vals)
    except ir.NotWF as e:
        return True, f"{desc}: not well-formed: {e}"
    xd, xs = z3.BitVecVal(vd, dt[1]), z3.BitVecVal(vs, stp[1])
    want = c11.conv(xs, stp, dt[1]) if bop is None else c11.conv(c11.binop_value(bop, xd, dt, xs, stp), c11.binop_type(bop, dt, stp), dt[1])
    want = z3.simplify(want).as_long()
    return got != want, f"{desc}: IR stores {got:#x}, C11 stores {want:#x}"


@replay.register("c05.chained_conv")
def replay_chained_conv(a):
    from rzilcompiler.Transformer.RZILTransformer import RZILTransformer
    from rzilcompiler.Transformer.ValueType import ValueType
    from rzilcompiler.Transformer.Pures.Variable import Variable
    from rzilcompiler.ArchEnum import ArchEnum
    t = RZILTransformer(ArchEnum.HEXAGON)
    ta, tb = tuple(a["ta"]), tuple(a["tb"])
    va, vb, vx = t.add_op(Variable("a", ValueType(*ta))), t.add_op(Variable("b", ValueType(*tb))), t.add_op(Variable("x", ValueType(True, 32)))
    inner = t.assignment_expr([vb, Token("ASSIGN_OP", "="), vx])
    seq = t.assignment_expr([va, Token("ASSIGN_OP", "="), inner])
    outer = [e for e in seq.effects if e.dest is va][0]
    got = _concrete_den(outer.src, {("x", 32): a["x"]})
    xb = z3.BitVecVal(a["x"], 32)
    want = z3.simplify(c11.conv(c11.conv(xb, (True, 32), tb[1]), tb, ta[1])).as_long()
    return got != want, f"a:{tname(ta)} = b:{tname(tb)} = x with x = {a['x']:#x}: a receives {got:#x}, C11: the value of b converted to a's type = {want:#x}"


@replay.register("c05.chained")
def replay_chained(a):
    c = irkit.real_compiler()
    txt = c.compile_c_stmt("{ int32_t a = RsV; int32_t b; a = b = a + 1; RdV = b; }")
    seq = [l for l in txt.splitlines() if "SEQN(2" in l and "op_ASSIGN" in l]
    sa = [l for l in txt.splitlines() if 'SETL("a", ' in l and "op_ADD" in l]
    sb = [l for l in txt.splitlines() if 'SETL("b", ' in l]
    if not (seq and sa and sb):
        return False, "shape not recognised: " + txt
    va, vb = sa[0].split("*")[1].split(" ")[0], sb[0].split("*")[1].split(" ")[0]
    order = seq[0][seq[0].index("SEQN"):]
    a_first = order.index(va) < order.index(vb)
    return a_first, f"a = b = a + 1 compiles to {order} with {va}: SETL(a, a+1) and {vb}: SETL(b, a+1): the assignment to a runs first, so b receives a+2 (C: a+1)"


@replay.register("c05.if_cond")
def replay_if_cond(a):
    from rzilcompiler.Transformer.RZILTransformer import RZILTransformer
    from rzilcompiler.Transformer.Effects.NOP import NOP
    from rzilcompiler.ArchEnum import ArchEnum
    t = RZILTransformer(ArchEnum.HEXAGON)
    ct = tuple(a["ct"])
    c = _real_operand(a["kind"], ct, "c")
    br = t.selection_stmt([Token("IF", "if"), c, NOP("t")])
    v = a["c"]
    vals = {("c_nz", 8): 1 if v else 0, ("c_z", 8): 0} if a["kind"] in irkit.BOOL_KINDS else {("c", ct[1]): int(v)}
    d = ir.truth(br.cond)
    subs = [(z3.BitVec(n, w), z3.BitVecVal(x, w)) for (n, w), x in vals.items()]
    got = z3.is_true(z3.simplify(z3.substitute(d, *subs)))
    want = bool(v)
    return got != want, f"if (c) with c:{tname(ct)} = {int(v):#x}: branch condition {br.cond} is {got}, C truth {want}"


@replay.register("c05.if_arms")
def replay_if_arms(a):
    """real selection_stmt on real statements: the then arm holds the (non-empty) then statements in order, the else arm the else statements
    (a fresh EMPTY when there are none)"""
    from rzilcompiler.Transformer.RZILTransformer import RZILTransformer
    from rzilcompiler.Transformer.Effects.NOP import NOP
    from rzilcompiler.Transformer.Effects.Empty import Empty
    from rzilcompiler.Transformer.Effects.Sequence import Sequence
    from rzilcompiler.ArchEnum import ArchEnum
    t = RZILTransformer(ArchEnum.HEXAGON)
    c = _real_operand("Variable", (True, 32), "c")
    shape = a["shape"]
    then = [Empty("t0")] if shape == "empty-block" else [NOP(f"t{i}") for i in range({"1": 1, "2": 2, "nested-block": 3}.get(shape, 1))]
    els = [Empty("e0")] if shape == "empty-else" else [NOP("e0"), NOP("e1")]
    then_item = [then[0], [then[1], then[2]]] if shape == "nested-block" else (then if len(then) > 1 else then[0])
    els_item = [[els[0]], [els[1]]] if shape == "nested-block" else (els if len(els) > 1 else els[0])
    items = [Token("IF", "if"), c, then_item] + ([Token("ELSE", "else"), els_item] if a["form"] == "if-else" else [])
    br = t.selection_stmt(items)

    def arm_ok(o, effs):
        effs = [e for e in effs if not isinstance(e, Empty)]
        if not isinstance(o, Sequence):
            return not effs and isinstance(o, Empty)
        if not effs:
            return len(o.effects) == 1 and isinstance(o.effects[0], Empty)
        return len(o.effects) == len(effs) and all(x is y for x, y in zip(o.effects, effs))
    ok_then = arm_ok(br.then, then)
    ok_else = arm_ok(br.otherwise, els if a["form"] == "if-else" else [])
    return not (ok_then and ok_else), (f"{a['form']} with then-statements {[str(x) for x in then]} / else-statements {[str(x) for x in els] if a['form'] == 'if-else' else []}: "
                                       f"branch then-arm {br.then}, else-arm {br.otherwise}")


@replay.register("c05.cond_once")
def replay_cond_once(a):
    """the condition of a real Branch / ForLoop is a register (bit vector conditions) or a declared comparison (boolean ones) that nobody
    has consumed yet: the emitted text must hold its variable raw exactly once and never as DUP"""
    from rzilcompiler.Transformer.Effects.Branch import Branch
    from rzilcompiler.Transformer.Effects.ForLoop import ForLoop
    from rzilcompiler.Transformer.Effects.NOP import NOP
    from rzilcompiler.Transformer.Pures.Register import Register, RegisterAccessType
    from rzilcompiler.Transformer.Pures.CompareOp import CompareOp, CompareOpType
    from rzilcompiler.Transformer.Pures.Variable import Variable
    from rzilcompiler.Transformer.ValueType import ValueType
    if a["cond_kind"] in ("CompareOp", "BooleanOp", "Bool"):
        c = CompareOp("op_LT_1", Variable("a", ValueType(True, 32)), Variable("b", ValueType(True, 32)), CompareOpType("<"))
        var = c.pure_var()
    else:
        c = Register("Rs", RegisterAccessType.R, ValueType(True, 32))
        var = c.pure_var()
    n = Branch("b", c, NOP("t"), NOP("e")) if a["what"] == "Branch" else ForLoop("f", c, NOP("t"))
    txt = n.il_write()
    dups = len(re.findall(r"DUP\(" + re.escape(var) + r"\)", txt))
    raw = len(re.findall(r"(?<![A-Za-z0-9_])" + re.escape(var) + r"(?![A-Za-z0-9_])", txt)) - dups
    return not (raw == 1 and dups == 0), f"{a['what']}.il_write() with the unconsumed condition {var} = {txt}: {raw} raw use(s), {dups} DUP(s)"


@replay.register("c05.cond_truth")
def replay_cond_truth(a):
    """real Branch / ForLoop over a real register operand (general or predicate): the emitted condition, with the register's variable
    replaced by the model's value, must be true exactly when that value is non-zero"""
    from rzilcompiler.Transformer.Effects.Branch import Branch
    from rzilcompiler.Transformer.Effects.ForLoop import ForLoop
    from rzilcompiler.Transformer.Effects.NOP import NOP
    from rzilcompiler.Transformer.Pures.Register import Register, RegisterAccessType
    from rzilcompiler.Transformer.ValueType import ValueType
    ct = tuple(a["ct"])
    v = a["c"] % (2 ** ct[1])
    if a["cond_kind"] == "Number":
        from rzilcompiler.Transformer.Pures.Number import Number
        c = Number("const_c", v - 2 ** ct[1] if ct[0] and v >> (ct[1] - 1) else v, ValueType(*ct))
        c.inlined = True
    else:
        c = Register("Pu" if a["cond_kind"] == "PredRegister" else "Rs", RegisterAccessType.R, ValueType(*ct))
    n = Branch("b", c, NOP("t"), NOP("e")) if a["what"] == "Branch" else ForLoop("f", c, NOP("t"))
    txt = n.il_write()
    inner = txt[txt.index("(") + 1:]
    depth, i = 0, 0
    for i, ch in enumerate(inner):
        if ch == "(":
            depth += 1
        elif ch == ")":
            depth -= 1
        elif ch == "," and depth == 0:
            break
    lit = f"{'SN' if ct[0] else 'UN'}({ct[1]}, {v - 2 ** ct[1] if ct[0] and v >> (ct[1] - 1) else v})"
    cond = inner[:i] if a["cond_kind"] == "Number" else re.sub(r"(?<![A-Za-z0-9_])" + re.escape(c.pure_var()) + r"(?![A-Za-z0-9_])", lit, inner[:i])
    srt, val, err = irkit.eval_text_concrete(cond, {}, {})
    return err is not None or bool(val) != (v != 0), f"{a['what']}.il_write() = {txt}; with the condition's value {v:#x} the emitted condition {cond} is {val} ({err or srt}); C truth {v != 0}"


@replay.register("c05.effect_text")
def replay_effect_text(a):
    from rzilcompiler.Transformer.Effects.Branch import Branch
    from rzilcompiler.Transformer.Effects.ForLoop import ForLoop
    from rzilcompiler.Transformer.Effects.NOP import NOP
    from .emit import operand_replay_spec
    ck, ct = a["cond_kind"], tuple(a["ct"])
    spec = {"Bool": ["bool", True]}.get(ck) or (["cmp", "!=", ["var", "c_nz", [False, 8]], ["var", "c_z", [False, 8]]] if ck in ("CompareOp",) else
                                                  (["boolop", "&&", ["var", "c_a", list(ct)], ["var", "c_b", list(ct)]] if ck == "BooleanOp" else ["var", "c", list(ct)]))
    c = irkit.real_build(spec)
    n = Branch("b", c, NOP("t"), NOP("e")) if a["what"] == "Branch" else ForLoop("f", c, NOP("t"))
    txt = n.il_write()
    inner = txt[txt.index("(") + 1:]
    depth, i = 0, 0
    for i, ch in enumerate(inner):
        if ch == "(":
            depth += 1
        elif ch == ")":
            depth -= 1
        elif ch == "," and depth == 0:
            break
    cond = inner[:i]
    leaves = irkit.spec_leaves(spec)
    srt, _, err = irkit.eval_text_concrete(cond, leaves, {n: 1 for n in leaves})     # the sort is what this replay decides; any ground values do
    return err is not None or srt != "bool", f"{a['what']}.il_write() = {txt}; condition {cond}: {err or srt}"


# ------------------------------------------------------------------------------------------
def gen_pending(loader, check, replay_on=True):
    """'under exactly the conditions C specifies' includes the side effects of value-producing operations inside a statement: all
    pending effects of a statement are sequenced with it (chk_hybrid_dep), and a value-unused k++; inside an if / else arm runs in
    that arm only (the ghost-state contracts of C06, restricted to statements)"""
    from . import c06
    saved = getattr(check, "ob_filter", None)
    check.ob_filter = r"chk_hybrid_dep#|selection_stmt#side-effect|#total"
    try:
        c06.gen_chk(loader, check, replay_on)
        c06.gen_selected(loader, check, replay_on)
    finally:
        check.ob_filter = saved


def gen_divmod_emission(loader, check, replay_on=True):
    """/= and %= build an ArithmeticOp over the (differently typed) target and source: the emitted operator is the signed or the
    unsigned RzIL division according to the node's own type (the emission contract of C01's division section)"""
    from . import c01
    saved = getattr(check, "ob_filter", None)
    check.ob_filter = r"ArithmeticOp\.il_exec"
    try:
        c01.gen_division(loader, check, replay_on, types=[(True, 32), (False, 64)])
    finally:
        check.ob_filter = saved


def gen_task(loader, check, what, replay_on=True, **kw):
    if what == "assign":
        gen_assignments(loader, check, replay_on, **kw)
    elif what == "divmod":
        gen_divmod_emission(loader, check, replay_on)
    elif what == "pending":
        gen_pending(loader, check, replay_on)
    else:
        {"sequence": gen_sequence, "effects": gen_effect_emission, "stmts": gen_stmt_callbacks, "flatten": gen_flatten,
         "chained": gen_chained}[what](loader, check, replay_on)


def generate_reduced(loader, check):
    for w in ("sequence", "effects", "stmts", "flatten", "chained", "pending", "divmod"):
        gen_task(loader, check, w, False)
    gen_assignments(loader, check, False, ops=[("=", None), ("-=", "-"), ("^=", "^"), ("<<=", "<<")], dtypes=[(True, 32), (False, 64)], stypes=[(True, 32), (False, 8)])


def run(check: Check):
    check.trust("T-VCGEN: pyvc interpretation of the Python subset (mutant self-test, native replay)")
    check.trust("T-RZIL: SEQN executes its arguments left to right, BRANCH(c,t,e) executes t iff c else e, REPEAT(c, b) is while(c) b; "
                "hence init; REPEAT(c, body ++ step) is C's for loop without break/continue (library lemma, not machine-checked)")
    check.trust("T-C11: assignment operators: E1 op= E2 is E1 = (T1)(E1 op E2) with the usual arithmetic conversions (6.5.16.2)")
    check.trust("T-IND: statement nesting by structural induction (callbacks only see their children's effects as opaque values)")
    check.assume("A-NAMES: add_op through its contract; chk_hybrid_dep with an empty pending table (pending side effects are C06's)")
    check.assume("C-side UB excluded: shift counts in range, divisor non-zero")
    tasks = [{"what": w} for w in ("sequence", "effects", "stmts", "flatten", "chained", "pending", "divmod")]
    for op in ASSIGN_OPS:
        tasks.append({"what": "assign", "ops": [list(op)]})
    check.run_parallel("contracts.c05", "gen_task", tasks, workers=WORKERS)
    run_mutants(check, MUTANTS, "contracts.c05", "generate_reduced")
    return check.finish(
        level="proof",
        rule="one obligation per (function / statement form / assignment operator x target x source type, path, clause); "
             "list lengths symbolic where a fold invariant is used")
