"""C06 - value-producing side effects happen exactly once, in order, only when selected.

Ghost state: P = the holder's pending table (hybrid_effect_dict) viewed as an ordered map
h_tmpN -> pending effect sequence.  Contracts on the real functions:
  * resolve_hybrid: P' = P[h_tmpN -> seq], N = old(count), count' = N+1 (symbolic N: any history); the
    returned placeholder is the local h_tmpN of the hybrid's type; seq orders [set_tmp, effect] for postfix
    operators (old value) and [effect, set_tmp] for calls / statement-expressions (value after execution);
    the temporary is written inside seq, i.e. before every reader (next clause); other pending entries are
    untouched; pending operands of the hybrid itself are sequenced first;
  * chk_hybrid_dep(effect): result = Seq(deps ++ [effect]) (or [effect] ++ deps for loop steps) where deps are
    the pending entries named by the effect's operands in operand order, P' = P - deps (exactly once = pop);
  * every effect-producing callback routes its result through chk_hybrid_dep (pending operand => sequenced
    immediately before the consumer);
  * conditional_expr guards a statement-expression arm with BRANCH(cond, stmt, EMPTY) on the right side;
  * emit_final_seq_return / top level: property-level postcondition for leftovers (value unused);
  * folding away a dead arm removes its pending effect (C evaluates it zero times).
"""
from __future__ import annotations
import re
import z3
from lark import Token

from pyvc.interp import explore
from pyvc.loader import Loader
from pyvc.values import Obj, Tpl, SInt
from pyvc.vc import Check
from pyvc import replay
from spec import ir
from . import irkit, tkit, c05, catalog, emit
from .common import WORKERS, conc_vt, tname, run_mutants, T8

PROP = "C06"

MUTANTS = [
    {"name": "resolve_hybrid: postfix value taken after the increment", "file": "rzilcompiler/Transformer/RZILTransformer.py",
     "old": "        if hybrid.seq_order == HybridSeqOrder.SET_VAL_THEN_EXEC:\n            h_seq = [set_tmp, hybrid]", "new": "        if hybrid.seq_order == HybridSeqOrder.SET_VAL_THEN_EXEC:\n            h_seq = [hybrid, set_tmp]"},
    {"name": "resolve_hybrid: call result read before the call", "file": "rzilcompiler/Transformer/RZILTransformer.py",
     "old": "        elif hybrid.seq_order == HybridSeqOrder.EXEC_THEN_SET_VAL:\n            h_seq = [hybrid, set_tmp]", "new": "        elif hybrid.seq_order == HybridSeqOrder.EXEC_THEN_SET_VAL:\n            h_seq = [set_tmp, hybrid]"},
    {"name": "resolve_hybrid: counter not advanced (two hybrids share a temporary)", "file": "rzilcompiler/Transformer/RZILTransformer.py",
     "old": "        self.il_ops_holder.hybrid_op_count += 1\n", "new": ""},
    {"name": "chk_hybrid_dep: default order is effect-then-hybrid", "file": "rzilcompiler/Transformer/RZILTransformer.py",
     "old": "        if order == HybridSeqOrder.HYB_THEN_SEQ:\n            return self.add_op(Sequence(f\"seq\", hybrid_deps + [effect]))", "new": "        if order == HybridSeqOrder.HYB_THEN_SEQ:\n            return self.add_op(Sequence(f\"seq\", [effect] + hybrid_deps))"},
    {"name": "chk_hybrid_dep: pending entry read but not removed (effect emitted twice)", "file": "rzilcompiler/Transformer/RZILTransformer.py",
     "old": "                    self.il_ops_holder.hybrid_effect_dict.pop(o.get_name())", "new": "                    self.il_ops_holder.hybrid_effect_dict[o.get_name()]"},
    {"name": "chk_hybrid_dep: only the first pending operand is sequenced", "file": "rzilcompiler/Transformer/RZILTransformer.py",
     "old": "        if len(hybrid_deps) == 0:\n            return effect\n        if order", "new": "        hybrid_deps = hybrid_deps[:1]\n        if len(hybrid_deps) == 0:\n            return effect\n        if order"},
    {"name": "mem_store: pending operands not sequenced", "file": "rzilcompiler/Transformer/RZILTransformer.py",
     "old": "        return self.chk_hybrid_dep(\n            self.add_op(MemStore(f\"ms_{data.get_name()}\", va, data))\n        )", "new": "        return self.add_op(MemStore(f\"ms_{data.get_name()}\", va, data))"},
    {"name": "for_loop: step hybrid sequenced before the body", "file": "rzilcompiler/Transformer/RZILTransformer.py",
     "old": "            HybridSeqOrder.SEQ_THEN_HYB,\n        )", "new": "            HybridSeqOrder.HYB_THEN_SEQ,\n        )"},
    {"name": "conditional_expr: statement-expression in the else arm guarded as then", "file": "rzilcompiler/Transformer/RZILTransformer.py",
     "old": "                Branch(\"branch\", cond=items[0], then=Empty(\"\"), otherwise=hybrid.stmt)", "new": "                Branch(\"branch\", cond=items[0], then=hybrid.stmt, otherwise=Empty(\"\"))"},
    {"name": "conditional_expr: then-arm statement-expression not guarded", "file": "rzilcompiler/Transformer/RZILTransformer.py",
     "old": "            hybrid.update_stmt(\n                Branch(\"branch\", cond=items[0], then=hybrid.stmt, otherwise=Empty(\"\"))\n            )", "new": "            pass"},
    {"name": "postfix_expr: -- builds ++", "file": "rzilcompiler/Transformer/RZILTransformer.py",
     "old": "                self.add_op(PostfixIncDec(name, op, op.value_type, t))", "new": "                self.add_op(PostfixIncDec(name, op, op.value_type, HybridType.INC))"},
    {"name": "update_hybrid_ref: dead hybrid stays pending", "file": "rzilcompiler/Transformer/ILOpsHolder.py",
     "old": "            self.hybrid_effect_dict.pop(h_tmp_name)\n", "new": ""},
    {"name": "GCCStmtDeclExpr: value read before the statements (seq order)", "file": "rzilcompiler/Transformer/Hybrids/GCCStmtDeclExpr.py",
     "old": "        self.seq_order = HybridSeqOrder.EXEC_THEN_SET_VAL", "new": "        self.seq_order = HybridSeqOrder.SET_VAL_THEN_EXEC"},
]


def pending(t):
    return t.fields["il_ops_holder"].fields["hybrid_effect_dict"]


def seq_effects(o, loader):
    return o.fields["effects"] if isinstance(o, Obj) and o.cls is irkit.C(loader, "Sequence") else None


def mk_hybrid(it, loader, kind, t=(True, 32)):
    HT = irkit.enum(loader, "Hybrid", "HybridType")
    G = loader.load("rzilcompiler.Transformer.ValueType").globals["VTGroup"]
    if kind in ("postinc", "postdec"):
        v = irkit.mk_var(it, "v", t)
        return it.call(irkit.C(loader, "PostfixIncDec"), ["op_INC", v, v.fields["value_type"], HT("++" if kind == "postinc" else "--")], {}), [v]
    if kind == "postinc-reg":
        RA = irkit.enum(loader, "Register", "RegisterAccessType")
        r = it.call(irkit.C(loader, "Register"), ["Rx", RA.RW, conc_vt(loader, t)], {})
        return it.call(irkit.C(loader, "PostfixIncDec"), ["op_INC", r, r.fields["value_type"], HT("++")], {}), [r]
    if kind == "call":
        par = it.call(irkit.C(loader, "Parameter"), ["x", conc_vt(loader, (True, 32))], {})
        sr = it.call(irkit.C(loader, "SubRoutine"), ["fn", conc_vt(loader, t), [par], "return x;"], {})
        a = irkit.mk_operand(it, "Variable", (True, 32), "arg")
        return it.call(irkit.C(loader, "SubRoutineCall"), [sr, [a]], {}), [a]
    if kind == "ccall":
        return it.call(irkit.C(loader, "Call"), ["c_call", conc_vt(loader, (False, 32)), ["get_npc", "pkt"]], {}), []
    if kind == "void-call":
        return it.call(irkit.C(loader, "Call"), ["c_call", conc_vt(loader, (False, 32), G.VOID), ["STORE_SLOT_CANCELLED", "pkt", irkit.mk_var(it, "slot", (False, 8))]], {}), []
    if kind == "stmt-expr-if":
        # ({ if (x) { s; } v; }): the statement of the statement-expression is itself a conditional
        inner = c05.mk_effect(it, loader, "Assignment", "inner")
        st = it.call(irkit.C(loader, "Branch"), ["branch", irkit.mk_operand(it, "Variable", (True, 32), "x"), inner, it.call(irkit.C(loader, "Empty"), ["empty"], {})], {})
        v = irkit.mk_var(it, "val", t)
        return it.call(irkit.C(loader, "GCCStmtDeclExpr"), ["gcc_expr", st, v, v.fields["value_type"]], {}), [st, v]
    if kind == "stmt-expr":
        st = c05.mk_effect(it, loader, "Assignment", "stmt")
        v = irkit.mk_var(it, "val", t)
        return it.call(irkit.C(loader, "GCCStmtDeclExpr"), ["gcc_expr", st, v, v.fields["value_type"]], {}), [st, v]
    raise ValueError(kind)


# ------------------------------------------------------------------------------------------ resolve_hybrid
def gen_resolve(loader, check, replay_on=True):
    T = loader.load(tkit.M_T).globals["RZILTransformer"]
    check.under_contract(loader, T.methods["resolve_hybrid"], T.methods["chk_hybrid_dep"], T.methods["postfix_expr"], T.methods["sub_routine"],
                         T.methods["gcc_extended_expr"], irkit.C(loader, "Effect").methods["get_op_list"], irkit.C(loader, "Hybrid").methods["__init__"])
    N0 = z3.Int("hybrid_count0")
    for kind in ("postinc", "postdec", "postinc-reg", "call", "ccall", "stmt-expr", "void-call"):
        for ty in ([(True, 32), (False, 8), (True, 64)] if kind not in ("ccall", "void-call") else [(False, 32)]):
            for other_pending in (False, True):
                inst = f"hybrid={kind}:{tname(ty)} other-entry-pending={other_pending}"
                check.instances_declared += 1

                def setup(it, kind=kind, ty=ty, other_pending=other_pending):
                    t = tkit.mk_transformer(it)
                    other = None
                    if other_pending:
                        other = c05.mk_effect(it, loader, "NOP", "older")
                        pending(t)["h_tmp_older"] = other
                    h, ops = mk_hybrid(it, loader, kind, ty)
                    it.ctx.mark_pre(t)
                    return {"t": t, "h": h, "ops": ops, "other": other}
                ex = explore(loader, setup, lambda it, st: it.call(tkit.method(it, st["t"], "resolve_hybrid"), [st["h"]], {}))
                check.absorb(ex, f"resolve_hybrid {inst}")
                if ex.paths:
                    check.instances_generated += 1
                for i, p in enumerate(ex.paths):
                    pi = inst
                    pc = p.ctx.pc
                    rp = ("c06.source", lambda mdl, kind=kind: {"case": kind}) if replay_on and kind in ("postinc", "call", "stmt-expr") else None
                    check.ob("resolve_hybrid#total", pi, pc, p.outcome == "return", detail="" if p.outcome == "return" else f"raises {p.value!r}")
                    if p.outcome != "return":
                        continue
                    st = p.state
                    P = pending(st["t"])
                    h = st["h"]
                    if kind == "void-call":
                        check.ob("resolve_hybrid#void-hybrid-is-its-own-statement", pi, pc, p.value is h and list(P) == (["h_tmp_older"] if other_pending else []))
                        continue
                    tmp = p.value
                    ok = isinstance(tmp, Obj) and tmp.cls is irkit.C(loader, "LocalVar")
                    check.ob("resolve_hybrid#returns-placeholder-local", pi, pc, ok)
                    if not ok:
                        continue
                    nm = tmp.fields["name"]
                    named = isinstance(nm, Tpl) and len(nm.parts) == 2 and nm.parts[0] == "h_tmp" and isinstance(nm.parts[1], SInt) and z3.eq(nm.parts[1].t, N0)
                    check.ob("resolve_hybrid#temporary-is-h_tmp<old counter>", pi, pc, named, detail=str(nm))
                    cnt = st["t"].fields["il_ops_holder"].fields["hybrid_op_count"]
                    check.ob("resolve_hybrid#counter-advances-by-one", pi, pc, isinstance(cnt, SInt) and cnt.t == N0 + 1)
                    check.ob("resolve_hybrid#placeholder-has-the-hybrids-type", pi, pc, ir.vt(tmp) == tuple(ty) and tmp.fields["hybrid_owner"] is h)
                    keys = list(P)
                    check.ob("resolve_hybrid#exactly-one-new-pending-entry-others-untouched", pi, pc,
                             len(keys) == (2 if other_pending else 1) and nm in P and (not other_pending or P["h_tmp_older"] is st["other"]))
                    if nm not in P:
                        continue
                    seq = P[nm]
                    effs = seq_effects(seq, loader)
                    ok2 = effs is not None and len(effs) == 2
                    check.ob("resolve_hybrid#pending-sequence-has-the-effect-and-the-temporary-write", pi, pc, ok2, detail=repr(effs))
                    if not ok2:
                        continue
                    Asg = irkit.C(loader, "Assignment")
                    set_tmp = next((e for e in effs if e.cls is Asg and e.fields["dest"] is tmp), None)
                    check.ob("resolve_hybrid#temporary-written-inside-the-pending-sequence", pi, pc, set_tmp is not None and set_tmp.fields["src"] is h)
                    check.ob("resolve_hybrid#effect-occurs-exactly-once", pi, pc, sum(1 for e in effs if e is h) == 1)
                    if set_tmp is None:
                        continue
                    first_is_tmp = effs[0] is set_tmp
                    if kind.startswith("post"):
                        check.ob("resolve_hybrid#seq_order: postfix yields the OLD value (temporary written before the update)", pi, pc, first_is_tmp, replay=rp)
                    else:
                        check.ob("resolve_hybrid#seq_order: call / statement-expression value read AFTER execution", pi, pc, not first_is_tmp, replay=rp)

    # postfix_expr callback: builds the hybrid for exactly the written operator on exactly the operand
    HT = irkit.enum(loader, "Hybrid", "HybridType")
    from .common import T8
    for tok, sym, vt in [(a, b, c_) for (a, b) in (("INC_OP", "++"), ("DEC_OP", "--")) for c_ in T8]:
        check.instances_declared += 1

        def setup_p(it, vt=vt):
            t = tkit.mk_transformer(it)
            v = irkit.mk_var(it, "v", vt)
            it.ctx.mark_pre(t)
            return {"t": t, "v": v}
        ex = explore(loader, setup_p, lambda it, st, tok=tok, sym=sym: it.call(tkit.method(it, st["t"], "postfix_expr"), [[st["v"], Token(tok, sym)]], {}))
        check.absorb(ex, f"postfix_expr {sym}")
        if ex.paths:
            check.instances_generated += 1
        for p in ex.paths:
            inst = f"v{sym} (v: {tname(vt)})"
            check.ob("postfix_expr#total", inst, p.ctx.pc, p.outcome == "return", detail="" if p.outcome == "return" else f"raises {p.value!r}")
            if p.outcome != "return":
                continue
            tmp = p.value
            h = tmp.fields.get("hybrid_owner") if isinstance(tmp, Obj) else None
            ok = isinstance(h, Obj) and h.cls is irkit.C(loader, "PostfixIncDec") and h.fields["op_type"] == HT(sym) and h.fields["ops"][0] is p.state["v"]
            check.ob("postfix_expr#hybrid-is-the-written-operator-on-the-written-operand", inst, p.ctx.pc, bool(ok), detail=repr(h.fields.get("op_type") if isinstance(h, Obj) else h))
            if ok:
                # C: the value of v++ has the (unpromoted) type of v; the update happens at v's width
                from spec import ir as _ir
                th, tt = _ir.vt_of(h.fields["value_type"]), _ir.vt_of(tmp.fields["value_type"])
                check.ob("postfix_expr#type", inst, p.ctx.pc, th == tuple(vt) and tt == tuple(vt), detail=f"operation typed {tname(th)}, placeholder typed {tname(tt)}, operand {tname(vt)}",
                         replay=("c06.postfix_type", lambda mdl, sym=sym, vt=vt: {"sym": sym, "vt": list(vt)}) if replay_on else None)

    # nested: a hybrid whose operand is itself pending (f(i++)): the operand's effect is sequenced first
    check.instances_declared += 1

    def setup_n(it):
        t = tkit.mk_transformer(it)
        inner, _ = mk_hybrid(it, loader, "postinc")
        tmp = it.call(tkit.method(it, t, "resolve_hybrid"), [inner], {})
        par = it.call(irkit.C(loader, "Parameter"), ["x", conc_vt(loader, (True, 32))], {})
        sr = it.call(irkit.C(loader, "SubRoutine"), ["fn", conc_vt(loader, (True, 32)), [par], "return x;"], {})
        outer = it.call(irkit.C(loader, "SubRoutineCall"), [sr, [tmp]], {})
        inner_seq = list(pending(t).values())[0]
        it.ctx.mark_pre(t)
        return {"t": t, "outer": outer, "inner_seq": inner_seq}
    ex = explore(loader, setup_n, lambda it, st: it.call(tkit.method(it, st["t"], "resolve_hybrid"), [st["outer"]], {}))
    check.absorb(ex, "resolve_hybrid nested")
    if ex.paths:
        check.instances_generated += 1
    for p in ex.paths:
        pi = "call whose argument is a pending postfix value"
        check.ob("resolve_hybrid#total", pi, p.ctx.pc, p.outcome == "return", detail="" if p.outcome == "return" else f"raises {p.value!r}")
        if p.outcome != "return":
            continue
        P = pending(p.state["t"])
        vals = list(P.values())
        ok = len(vals) == 1
        effs = seq_effects(vals[0], loader) if ok else None
        ok = ok and effs is not None and len(effs) == 2 and effs[0] is p.state["inner_seq"]
        check.ob("resolve_hybrid#pending-operands-are-sequenced-before-the-hybrid-exactly-once", pi, p.ctx.pc, bool(ok), detail=repr(effs))


# ------------------------------------------------------------------------------------------ chk_hybrid_dep + callbacks
def gen_chk(loader, check, replay_on=True):
    T = loader.load(tkit.M_T).globals["RZILTransformer"]
    HSO = irkit.enum(loader, "Hybrid", "HybridSeqOrder")
    AT = irkit.enum(loader, "Assignment", "AssignmentType")
    ArT = irkit.enum(loader, "ArithmeticOp", "ArithmeticType")
    for npend in (0, 1, 2):
        for order in ("HYB_THEN_SEQ", "SEQ_THEN_HYB"):
            inst = f"pending-operands={npend} order={order}"
            check.instances_declared += 1

            def setup(it, npend=npend):
                t = tkit.mk_transformer(it)
                tmps, seqs = [], []
                for k in range(2):
                    h, _ = mk_hybrid(it, loader, "postinc" if k == 0 else "call")
                    tmps.append(it.call(tkit.method(it, t, "resolve_hybrid"), [h], {}))
                    seqs.append(list(pending(t).values())[-1])
                unrelated = c05.mk_effect(it, loader, "NOP", "unrelated")
                pending(t)["h_tmp_unrelated"] = unrelated
                d = irkit.mk_var(it, "d", (True, 32))
                if npend == 0:
                    src = irkit.mk_var(it, "plain", (True, 32))
                elif npend == 1:
                    src = tmps[0]
                else:
                    src = it.call(irkit.C(loader, "ArithmeticOp"), ["op_ADD", tmps[0], tmps[1], ArT("+")], {})
                eff = it.call(irkit.C(loader, "Assignment"), ["op_ASSIGN", AT("="), d, src], {})
                it.ctx.mark_pre(t)
                return {"t": t, "eff": eff, "seqs": seqs, "unrelated": unrelated, "tmps": tmps}
            ex = explore(loader, setup, lambda it, st, order=order: it.call(tkit.method(it, st["t"], "chk_hybrid_dep"), [st["eff"], HSO[order]], {}))
            check.absorb(ex, f"chk_hybrid_dep {inst}")
            if ex.paths:
                check.instances_generated += 1
            for p in ex.paths:
                pi = inst
                pc = p.ctx.pc
                check.ob("chk_hybrid_dep#total", pi, pc, p.outcome == "return", detail="" if p.outcome == "return" else f"raises {p.value!r}")
                if p.outcome != "return":
                    continue
                st = p.state
                P = pending(st["t"])
                r = p.value
                want_deps = st["seqs"][:npend]
                if npend == 0:
                    check.ob("chk_hybrid_dep#no-pending-operand-returns-the-effect-itself", pi, pc, r is st["eff"] and len(P) == 3)
                    continue
                effs = seq_effects(r, loader)
                want = (want_deps + [st["eff"]]) if order == "HYB_THEN_SEQ" else ([st["eff"]] + want_deps)
                ok = effs is not None and len(effs) == len(want) and all(a is b for a, b in zip(effs, want))
                check.ob("chk_hybrid_dep#order: pending effects in operand order, then the consumer (reversed for loop steps)", pi, pc, ok, detail=repr(effs))
                left = list(P.values())
                check.ob("chk_hybrid_dep#exactly-once: sequenced entries are removed, all others stay pending", pi, pc,
                         len(left) == 3 - npend and st["unrelated"] in left and all(s not in left for s in want_deps) and all(s in left for s in st["seqs"][npend:]))

    # every effect-producing callback sequences the pending effects of its operands immediately before its effect
    cases = {
        "assignment_expr": lambda it, t, tmp: [irkit.mk_var(it, "d", (True, 32)), Token("ASSIGN_OP", "="), tmp],
        "assignment_expr(+=)": lambda it, t, tmp: [irkit.mk_var(it, "d", (True, 32)), Token("ASSIGN_OP", "+="), tmp],
        "init_declarator": lambda it, t, tmp: [Token("IDENTIFIER", "nv"), tmp],
        "mem_store": lambda it, t, tmp: [Token("MEM_STORE", "mem_store_"), Token("SIGN_TYPE", "s"), Token("BIT_WIDTH", "32"), irkit.mk_var(it, "EA", (False, 32)), tmp],
        "mem_store(address)": lambda it, t, tmp: [Token("MEM_STORE", "mem_store_"), Token("SIGN_TYPE", "s"), Token("BIT_WIDTH", "32"), tmp, irkit.mk_var(it, "x", (True, 32))],
        "jump": lambda it, t, tmp: [Token("JUMP", "JUMP"), tmp],
        "selection_stmt": lambda it, t, tmp: [Token("IF", "if"), tmp, c05.mk_effect(it, loader, "Assignment", "then")],
        "jump_stmt(return)": lambda it, t, tmp: [Token("RETURN", "return"), tmp],
    }
    for name, mk in cases.items():
        cb = name.split("(")[0]
        check.under_contract(loader, T.methods[cb])
        inst = f"{name} operand=pending postfix value"
        check.instances_declared += 1

        def setup(it, mk=mk, cb=cb):
            kw = {}
            if cb == "jump_stmt":
                kw = dict(params=[it.call(irkit.C(loader, "Parameter"), ["p0", conc_vt(loader, (True, 32))], {})], return_type=conc_vt(loader, (True, 32)))
            t = tkit.mk_transformer(it, **kw)
            h, ops = mk_hybrid(it, loader, "postinc", (False, 32) if "address" in str(mk) else (True, 32))
            tmp = it.call(tkit.method(it, t, "resolve_hybrid"), [h], {})
            pend_seq = list(pending(t).values())[0]
            items = mk(it, t, tmp)
            for x in items:
                if isinstance(x, Obj) and x.cls is irkit.C(loader, "Variable"):
                    t.fields["il_ops_holder"].fields["read_ops"][x.fields["name"]] = x
            it.ctx.mark_pre(t)
            return {"t": t, "items": items, "pend": pend_seq}
        ex = explore(loader, setup, lambda it, st, cb=cb: it.call(tkit.method(it, st["t"], cb), [st["items"]], {}))
        check.absorb(ex, f"callback {inst}")
        if ex.paths:
            check.instances_generated += 1
        for p in ex.paths:
            pc = p.ctx.pc
            check.ob(f"{cb}#total", inst, pc, p.outcome == "return", detail="" if p.outcome == "return" else f"raises {p.value!r}")
            if p.outcome != "return":
                continue
            r = p.value
            if name == "jump_stmt(return)":
                # return is not routed through chk_hybrid_dep: the pending effect must still be sequenced before the return value is set
                effs = seq_effects(r, loader)
                ok = effs is not None and effs[0] is p.state["pend"]
                left = p.state["pend"] in pending(p.state["t"]).values()
                check.ob("jump_stmt(return)#pending-operand-sequenced-before-the-return-value-is-set (or still pending for the top level)", inst, pc, bool(ok) or left)
                continue
            effs = seq_effects(r, loader)
            ok = effs is not None and len(effs) == 2 and effs[0] is p.state["pend"]
            check.ob(f"{cb}#pending-operand-effect-is-sequenced-immediately-before-the-consumer", inst, pc, bool(ok), detail=repr(effs))
            check.ob(f"{cb}#pending-entry-consumed-exactly-once", inst, pc, len(pending(p.state["t"])) == 0)

    # for loop: the step's pending effect runs after the body, each iteration
    check.instances_declared += 1

    def setup_f(it):
        t = tkit.mk_transformer(it)
        h, _ = mk_hybrid(it, loader, "postinc")
        tmp = it.call(tkit.method(it, t, "resolve_hybrid"), [h], {})
        pend_seq = list(pending(t).values())[0]
        init = c05.mk_effect(it, loader, "Assignment", "init")
        cond = irkit.mk_operand(it, "CompareOp", (True, 32), "c")
        body = [c05.mk_effect(it, loader, "Assignment", "b0")]
        it.ctx.mark_pre(t)
        return {"t": t, "items": [Token("FOR", "for"), init, cond, tmp, body], "pend": pend_seq, "body": body, "init": init}
    ex = explore(loader, setup_f, lambda it, st: it.call(tkit.method(it, st["t"], "iteration_stmt"), [st["items"]], {}))
    check.absorb(ex, "for_loop step hybrid")
    if ex.paths:
        check.instances_generated += 1
    for p in ex.paths:
        inst = "for (init; c; i++) body"
        check.ob("for_loop#total", inst, p.ctx.pc, p.outcome == "return", detail="" if p.outcome == "return" else f"raises {p.value!r}")
        if p.outcome != "return":
            continue
        s = p.value
        effs = seq_effects(s, loader)
        fl = effs[1] if effs and len(effs) == 2 else None
        comp = fl.fields["compound"] if fl is not None and "compound" in fl.fields else None
        ce = seq_effects(comp, loader)
        ok = ce is not None and len(ce) == 2 and ce[1] is p.state["pend"] and seq_effects(ce[0], loader) is not None and seq_effects(ce[0], loader)[0] is p.state["body"][0]
        check.ob("for_loop#step-side-effect-runs-after-the-body-in-every-iteration", inst, p.ctx.pc, bool(ok), detail=repr(ce))
        check.ob("for_loop#step-entry-consumed-exactly-once", inst, p.ctx.pc, len(pending(p.state["t"])) == 0)


# ------------------------------------------------------------------------------------------ ?: arms, top level, dead arms
def gen_selected(loader, check, replay_on=True):
    T = loader.load(tkit.M_T).globals["RZILTransformer"]
    check.under_contract(loader, T.methods["conditional_expr"], T.methods["emit_final_seq_return"], T.methods["boolean_expr"],
                         irkit.C(loader, "GCCStmtDeclExpr").methods["update_stmt"])
    Br, Emp = irkit.C(loader, "Branch"), irkit.C(loader, "Empty")
    for arm in ("then", "else"):
        for hk in ("stmt-expr", "stmt-expr-if", "postinc", "call"):
            inst = f"{hk} in the {arm} arm"
            check.instances_declared += 1

            def setup(it, arm=arm, hk=hk):
                t = tkit.mk_transformer(it)
                h, ops = mk_hybrid(it, loader, hk)
                tmp = it.call(tkit.method(it, t, "resolve_hybrid"), [h], {})
                c = irkit.mk_operand(it, "Variable", (True, 32), "c")
                other = irkit.mk_operand(it, "Variable", (True, 32), "o")
                items = [c, tmp, other] if arm == "then" else [c, other, tmp]
                it.ctx.mark_pre(t)
                return {"t": t, "items": items, "h": h, "c": c, "stmt0": h.fields.get("stmt")}
            ex = explore(loader, setup, lambda it, st: it.call(tkit.method(it, st["t"], "conditional_expr"), [st["items"]], {}))
            check.absorb(ex, f"conditional_expr {inst}")
            if ex.paths:
                check.instances_generated += 1
            for p in ex.paths:
                pc = p.ctx.pc
                check.ob("conditional_expr#total", inst, pc, p.outcome == "return", detail="" if p.outcome == "return" else f"raises {p.value!r}")
                if p.outcome != "return":
                    continue
                h = p.state["h"]
                rp = ("c06.source", lambda mdl, hk=hk, arm=arm: {"case": f"cond-{hk}-{arm}"}) if replay_on else None
                if hk in ("stmt-expr", "stmt-expr-if"):
                    st = h.fields["stmt"]
                    ok = isinstance(st, Obj) and st.cls is Br and st.fields["cond"] is p.state["c"]
                    if ok:
                        t_, e_ = st.fields["then"], st.fields["otherwise"]
                        ok = (t_ is p.state["stmt0"] and e_.cls is Emp) if arm == "then" else (e_ is p.state["stmt0"] and t_.cls is Emp)
                    check.ob("conditional_expr#statements-of-an-arm-run-only-if-that-arm-is-selected", inst, pc, bool(ok), replay=rp,
                             detail=f"statement of the arm is now {st!r}")
                    # the guarded statement replaces the old one EVERYWHERE in the hybrid: its operand list is what the emitters and the
                    # declaration order (operands before their user) are computed from
                    eo = h.fields.get("effect_ops") or []
                    check.ob("conditional_expr#the-guarded-statement-is-also-the-hybrid's-operand (update_stmt)", inst, pc,
                             bool(eo) and eo[0] is st and not any(x is p.state["stmt0"] for x in eo), detail=f"effect_ops {eo!r}",
                             replay=("c06.source", lambda mdl, arm=arm, hk=hk: {"case": f"gcc-order-{arm}", "if_stmt": hk == "stmt-expr-if"}) if replay_on else None)
                else:
                    # a postfix operator / call in an arm must equally be evaluated only when the arm is selected
                    seq = list(pending(p.state["t"]).values())
                    guarded = False
                    for s in seq:
                        for e in (seq_effects(s, loader) or []):
                            if isinstance(e, Obj) and e.cls is Br:
                                guarded = True
                    check.ob("conditional_expr#side-effect-of-an-arm-runs-only-if-that-arm-is-selected", inst, pc, guarded, replay=rp,
                             detail="the pending effect of the arm is sequenced unconditionally")

    # a value-unused operation as a STATEMENT of an if / else arm (if (c) { k++; } else { k--; }): its side effect belongs to that arm
    for arm in ("then", "else"):
        inst = f"if (c) {{ k++; }} else {{ s; }}: value-unused postfix statement in the {arm} arm" if arm == "then" else "if (c) { s; } else { k++; }: value-unused postfix statement in the else arm"
        check.instances_declared += 1

        def setup_s(it, arm=arm):
            t = tkit.mk_transformer(it)
            h, _ = mk_hybrid(it, loader, "postinc")
            tmp = it.call(tkit.method(it, t, "resolve_hybrid"), [h], {})
            pend = list(pending(t).values())[0]
            c = irkit.mk_operand(it, "Variable", (True, 32), "c")
            other = c05.mk_effect(it, loader, "Assignment", "s")
            items = [Token("IF", "if"), c, [tmp], Token("ELSE", "else"), [other]] if arm == "then" else [Token("IF", "if"), c, [other], Token("ELSE", "else"), [tmp]]
            it.ctx.mark_pre(t)
            return {"t": t, "items": items, "pend": pend, "other": other}
        ex = explore(loader, setup_s, lambda it, st: it.call(tkit.method(it, st["t"], "selection_stmt"), [st["items"]], {}))
        check.absorb(ex, f"selection_stmt {inst}")
        if ex.paths:
            check.instances_generated += 1
        for p in ex.paths:
            pc = p.ctx.pc
            check.ob("selection_stmt#total", inst, pc, p.outcome == "return", detail="" if p.outcome == "return" else f"raises {p.value!r}")
            if p.outcome != "return":
                continue
            b = p.value

            def effects_of(o, depth=0):
                out = []
                if isinstance(o, Obj) and depth < 6:
                    out.append(o)
                    for e in (o.fields.get("effects") or []):
                        out += effects_of(e, depth + 1)
                return out
            ok = isinstance(b, Obj) and b.cls is Br
            inside = ok and any(e is p.state["pend"] for e in effects_of(b.fields["then" if arm == "then" else "otherwise"]))
            other_side = ok and any(e is p.state["pend"] for e in effects_of(b.fields["otherwise" if arm == "then" else "then"]))
            rp = ("c06.source", lambda mdl, arm=arm: {"case": f"stmt-in-arm-{arm}"}) if replay_on else None
            check.ob("selection_stmt#side-effect-of-a-statement-in-an-arm-runs-exactly-in-that-arm", inst, pc,
                     bool(inside) and not other_side and len(pending(p.state["t"])) == 0, replay=rp,
                     detail=f"inside its arm: {inside}; in the other arm: {other_side}; still pending: {list(pending(p.state['t']))}")

    # both arms are statement-expressions: each one is guarded by its own side of the condition
    inst = "stmt-expr in both arms"
    check.instances_declared += 1

    def setup_2(it):
        t = tkit.mk_transformer(it)
        h1, _ = mk_hybrid(it, loader, "stmt-expr")
        h2, _ = mk_hybrid(it, loader, "stmt-expr")
        t1 = it.call(tkit.method(it, t, "resolve_hybrid"), [h1], {})
        t2 = it.call(tkit.method(it, t, "resolve_hybrid"), [h2], {})
        c = irkit.mk_operand(it, "Variable", (True, 32), "c")
        it.ctx.mark_pre(t)
        return {"t": t, "items": [c, t1, t2], "h": [h1, h2], "c": c, "stmt0": [h1.fields.get("stmt"), h2.fields.get("stmt")]}
    ex = explore(loader, setup_2, lambda it, st: it.call(tkit.method(it, st["t"], "conditional_expr"), [st["items"]], {}))
    check.absorb(ex, f"conditional_expr {inst}")
    if ex.paths:
        check.instances_generated += 1
    for p in ex.paths:
        pc = p.ctx.pc
        check.ob("conditional_expr#total", inst, pc, p.outcome == "return", detail="" if p.outcome == "return" else f"raises {p.value!r}")
        if p.outcome != "return":
            continue
        for k, arm in enumerate(("then", "else")):
            st = p.state["h"][k].fields["stmt"]
            ok = isinstance(st, Obj) and st.cls is Br and st.fields["cond"] is p.state["c"]
            if ok:
                t_, e_ = st.fields["then"], st.fields["otherwise"]
                ok = (t_ is p.state["stmt0"][0] and e_.cls is Emp) if arm == "then" else (e_ is p.state["stmt0"][1] and t_.cls is Emp)
            rp = ("c06.source", lambda mdl, arm=arm: {"case": f"cond-both-{arm}"}) if replay_on else None
            check.ob("conditional_expr#statements-of-an-arm-run-only-if-that-arm-is-selected", f"{inst}: {arm} arm", pc, bool(ok), replay=rp,
                     detail=f"statement of the {arm} arm is now {st!r}")

    # && / || : the right operand's side effect must only happen if the left operand does not decide the result
    for op in ("&&", "||"):
        inst = f"a {op} i++"
        check.instances_declared += 1

        def setup_b(it, op=op):
            t = tkit.mk_transformer(it)
            h, _ = mk_hybrid(it, loader, "postinc")
            tmp = it.call(tkit.method(it, t, "resolve_hybrid"), [h], {})
            a = irkit.mk_operand(it, "Variable", (True, 32), "a")
            it.ctx.mark_pre(t)
            return {"t": t, "items": [a, Token("AND_OP" if op == "&&" else "OR_OP", op), tmp]}
        ex = explore(loader, setup_b, lambda it, st, op=op: it.call(tkit.method(it, st["t"], "logical_and_expr" if op == "&&" else "logical_or_expr"), [st["items"]], {}))
        check.absorb(ex, f"boolean_expr {inst}")
        if ex.paths:
            check.instances_generated += 1
        for p in ex.paths:
            check.ob("boolean_expr#total", inst, p.ctx.pc, p.outcome == "return", detail="" if p.outcome == "return" else f"raises {p.value!r}")
            if p.outcome != "return":
                continue
            seq = list(pending(p.state["t"]).values())
            guarded = any(isinstance(e, Obj) and e.cls is Br for s in seq for e in (seq_effects(s, loader) or []))
            rp = ("c06.source", lambda mdl, op=op: {"case": f"logic-{op}"}) if replay_on else None
            check.ob("boolean_expr#right-operand-side-effect-is-short-circuited", inst, p.ctx.pc, guarded, replay=rp,
                     detail="the pending effect of the right operand is sequenced unconditionally")

    # top level: a value-producing operation whose value is unused keeps its source position
    for layout in ("READ_STATEMENTS",):
        inst = "s0; i++; s1;  (value unused)"
        check.instances_declared += 1

        def setup_t(it):
            t = tkit.mk_transformer(it)
            s0 = c05.mk_effect(it, loader, "Assignment", "s0")
            h, _ = mk_hybrid(it, loader, "postinc")
            tmp = it.call(tkit.method(it, t, "resolve_hybrid"), [h], {})
            pend = list(pending(t).values())[0]
            pend.label = "pending"
            pend.stubs["effect_var"] = c05.eff_stub
            s1 = c05.mk_effect(it, loader, "Assignment", "s1")
            it.ctx.mark_pre(t)
            return {"t": t, "items": [s0, tmp, s1]}
        ex = explore(loader, setup_t, lambda it, st: it.call(tkit.method(it, st["t"], "emit_final_seq_return"), [st["items"], ""], {}))
        check.absorb(ex, f"top level {inst}")
        if ex.paths:
            check.instances_generated += 1
        for p in ex.paths:
            check.ob("emit_final_seq_return#total", inst, p.ctx.pc, p.outcome == "return", detail="" if p.outcome == "return" else f"raises {p.value!r}")
            if p.outcome != "return":
                continue
            tags = [a.tag for a in emit.as_tpl(p.value).atoms()]
            rp = ("c06.source", lambda mdl: {"case": "toplevel"}) if replay_on else None
            check.ob("emit_final_seq_return#unused-value-operation-keeps-its-source-position", inst, p.ctx.pc, tags == ["s0", "pending", "s1"], replay=rp,
                     detail=f"final sequence order {tags}")
            check.ob("emit_final_seq_return#every-pending-effect-is-sequenced-exactly-once", inst, p.ctx.pc, tags.count("pending") == 1 and len(pending(p.state["t"])) == 0)

    # two unused value operations, at a numbering where the names do not sort like the numbers (h_tmp9, h_tmp10): source order is kept
    for n0 in (0, 9, 99):
        inst = f"i++; j++;  (values unused, temporaries h_tmp{n0}, h_tmp{n0 + 1})"
        check.instances_declared += 1

        def setup_o(it, n0=n0):
            t = tkit.mk_transformer(it, symbolic_count=False)
            t.fields["il_ops_holder"].fields["hybrid_op_count"] = n0
            tmps = []
            for k in range(2):
                h, _ = mk_hybrid(it, loader, "postinc")
                tmps.append(it.call(tkit.method(it, t, "resolve_hybrid"), [h], {}))
            for k, pend in enumerate(pending(t).values()):
                pend.label = f"pending{k}"
                pend.stubs["effect_var"] = c05.eff_stub
            it.ctx.mark_pre(t)
            return {"t": t, "items": tmps}
        ex = explore(loader, setup_o, lambda it, st: it.call(tkit.method(it, st["t"], "emit_final_seq_return"), [st["items"], ""], {}))
        check.absorb(ex, f"top level {inst}")
        if ex.paths:
            check.instances_generated += 1
        for p in ex.paths:
            check.ob("emit_final_seq_return#total", inst, p.ctx.pc, p.outcome == "return", detail="" if p.outcome == "return" else f"raises {p.value!r}")
            if p.outcome != "return":
                continue
            tags = [a.tag for a in emit.as_tpl(p.value).atoms()]
            check.ob("emit_final_seq_return#unused-value-operations-keep-their-source-order", inst, p.ctx.pc, tags == ["pending0", "pending1"], detail=f"final sequence order {tags}",
                     replay=("c06.source", lambda mdl, n0=n0: {"case": f"order-{n0}"}) if replay_on else None)

    # dead arm of a constant condition: its side effect is evaluated zero times (removed everywhere); the LIVE arm's pending effect stays
    check.under_contract(loader, loader.load(tkit.M_H).globals["ILOpsHolder"].methods["update_hybrid_ref"])
    for variant in ("0 ? v++ : 3", "0 ? v++ : w++", "1 ? v++ : w++"):
        check.instances_declared += 1

        def setup_d(it, variant=variant):
            t = tkit.mk_transformer(it, stub_add_op=False, symbolic_count=False)
            HT = irkit.enum(loader, "Hybrid", "HybridType")

            def hyb(nm):
                v = it.call(tkit.method(it, t, "add_op"), [irkit.mk_var(it, nm, (True, 32))], {})
                h = it.call(tkit.method(it, t, "add_op"), [it.call(irkit.C(loader, "PostfixIncDec"), ["op_INC", v, v.fields["value_type"], HT("++")], {})], {})
                return h, it.call(tkit.method(it, t, "resolve_hybrid"), [h], {})
            hv, tv = hyb("v")
            if "w++" in variant:
                hw, tw = hyb("w")
            else:
                hw, tw = None, it.call(tkit.method(it, t, "add_op"), [it.call(irkit.C(loader, "Number"), ["const_3", 3, conc_vt(loader, (True, 32))], {})], {})
            cond = it.call(tkit.method(it, t, "add_op"), [it.call(irkit.C(loader, "Number"), ["const_c", int(variant[0]), conc_vt(loader, (True, 32))], {})], {})
            pend = dict(pending(t))
            it.ctx.mark_pre(t)
            dead, live = (hv, hw) if variant[0] == "0" else (hw, hv)
            return {"t": t, "items": [cond, tv, tw], "dead": dead, "live": live, "pend0": pend}
        ex = explore(loader, setup_d, lambda it, st: it.call(tkit.method(it, st["t"], "conditional_expr"), [st["items"]], {}))
        check.absorb(ex, f"dead hybrid arm {variant}")
        if ex.paths:
            check.instances_generated += 1
        for p in ex.paths:
            inst = variant
            check.ob("conditional_expr[fold]#total", inst, p.ctx.pc, p.outcome == "return", detail="" if p.outcome == "return" else f"raises {p.value!r}")
            if p.outcome != "return":
                continue
            hld = p.state["t"].fields["il_ops_holder"]
            pend = pending(p.state["t"])
            dead, live = p.state["dead"], p.state["live"]

            def mentions(seq, h):
                return any(e is h for e in (seq_effects(seq, loader) or []))
            dead_gone = not any(mentions(sq, dead) for sq in pend.values()) and not any(v is dead for v in hld.fields["write_ops"].values())
            live_ok = live is None or sum(1 for sq in pend.values() if mentions(sq, live)) == 1
            left = [k for k, v in hld.fields["write_ops"].items() if not (live is not None and (v is live or any(mentions(sq, v) or sq is v for sq in pend.values())))]
            rp = ("c06.source", lambda mdl, variant=variant: {"case": f"dead-{variant}"}) if replay_on else None
            check.ob("conditional_expr[fold]#dead-arm-side-effect-is-evaluated-zero-times", inst, p.ctx.pc,
                     dead_gone and (live is not None or (len(pend) == 0 and left == [])), replay=rp,
                     detail=f"pending {list(pend)}, write table {list(hld.fields['write_ops'])}")
            if live is not None:
                check.ob("conditional_expr[fold]#live-arm-side-effect-stays-pending-exactly-once", inst, p.ctx.pc, bool(live_ok), replay=rp,
                         detail=f"pending {list(pend)}")


# ------------------------------------------------------------------------------------------ replay (source level)
SOURCES = {
    "postinc": ("{ int32_t n = RsV; RdV = n++; RtV = n; }", lambda t: t.index('SETL("h_tmp') < t.index("INC(")),
    "call": ("{ RdV = clz32(RtV); }", lambda t: t.index("hex_clz32(") < t.index('VARL("ret_val")')),
    "stmt-expr": ("{ int32_t i = 0; RdV = ({ i = 5; i; }); }", None),
}


@replay.register("c06.postfix_type")
def replay_postfix_type(a):
    c = irkit.real_compiler()
    s_, w = a["vt"]
    ct = f"{'' if s_ else 'u'}int{w}_t"
    txt = c.compile_c_stmt("{ %s v = 1; RdV = v%s; }" % (ct, a["sym"]))
    m = re.search(r"(INC|DEC)\(VARL\(\"v\"\), (\d+)\)", txt)
    bad = not m or int(m.group(2)) != w
    return bad, f"{{ {ct} v = 1; RdV = v{a['sym']}; }} updates v with {m.group(0) if m else None} (v is {w} bit wide)"


@replay.register("c06.source")
def replay_source(a):
    c = irkit.real_compiler()
    case = a["case"]
    if case == "toplevel":
        txt = c.compile_c_stmt("{ int32_t n = RsV; int32_t x = 0; x = n; n++; x = n; RdV = x; }")
        seq = [l for l in txt.splitlines() if "instruction_sequence =" in l][0]
        inc = [l.split("*")[1].split(" ")[0] for l in txt.splitlines() if "SEQN(2, op_ASSIGN_hybrid_tmp" in l][0]
        args = seq[seq.index("(") + 1:].split(", ")
        return args[1].strip() == inc, f"{{ x = n; n++; x = n; }}: the increment {inc} is the first effect of {seq.strip()} - before x = n (C: between the two assignments)"
    if case.startswith("dead-"):
        variant = case[5:]
        src = {"0 ? v++ : 3": "{ int32_t v = 1; RdV = 0 ? v++ : 3; RtV = v; }", "0 ? v++ : w++": "{ int32_t v = 1; int32_t w = 1; RdV = 0 ? v++ : w++; RtV = v; RsV = w; }",
               "1 ? v++ : w++": "{ int32_t v = 1; int32_t w = 1; RdV = 1 ? v++ : w++; RtV = v; RsV = w; }"}[variant]
        try:
            txt = c.compile_c_stmt(src)
        except Exception as e:
            return True, f"{src} raised {type(e).__name__}: {e}"
        lines = [l for l in txt.splitlines() if l.startswith("RzILOp")]
        names = {l.split("*")[1].split(" ")[0] for l in lines}
        used = set(re.findall(r"\b(?:seq|op|branch|cond|c_call|gcc_expr|jump)_\w+", " ".join(l.split("=", 1)[1] for l in lines)))
        undeclared = sorted(u for u in used if u not in names)
        incs = [l for l in lines if "INC(" in l]
        want = 0 if variant == "0 ? v++ : 3" else 1
        bad = bool(undeclared) or len(incs) != want
        return bad, f"{src}: increments emitted {len(incs)} (expected {want}); undeclared names used: {undeclared}"
    if case.startswith("gcc-order-"):
        arm = case.rsplit("-", 1)[1]
        body = "({ if (RuV) { i = 5; } i; })" if a.get("if_stmt") else "({ i = 5; i; })"
        src = "{ int32_t i = 0; RdV = (RsV == RtV) ? %s : 7; }" % body if arm == "then" else "{ int32_t i = 0; RdV = (RsV == RtV) ? 7 : %s; }" % body
        if a.get("if_stmt"):
            txt0 = c.compile_c_stmt(src)
            g = [l for l in txt0.splitlines() if "BRANCH(" in l and "op_EQ" in l]
            if not g:
                return True, f"{src}: no BRANCH guarded by the ?: condition is emitted; the hybrid keeps the unguarded statement"
        txt = c.compile_c_stmt(src)
        lines = [l for l in txt.splitlines() if l.startswith("RzILOp")]
        names = [l.split("*")[1].split(" ")[0] for l in lines]
        bad = []
        for i, l in enumerate(lines):
            for n in names[i + 1:]:
                if re.search(r"\b" + re.escape(n) + r"\b", l.split("=", 1)[1]):
                    bad.append(f"{names[i]} uses {n} before its declaration")
        return bool(bad), f"{src}: {bad or 'every variable is declared before its use'}"
    if case.startswith("stmt-in-arm-"):
        arm = case.rsplit("-", 1)[1]
        src = "{ int32_t k = 0; if (RsV) { k++; } else { RtV = 1; } RdV = k; }" if arm == "then" else "{ int32_t k = 0; if (RsV) { RtV = 1; } else { k++; } RdV = k; }"
        txt = c.compile_c_stmt(src)
        lines = txt.splitlines()
        inc = [l.split("*")[1].split(" ")[0] for l in lines if "RzILOpEffect *seq_" in l and "op_ASSIGN_hybrid_tmp" in l]
        br = [l for l in lines if "BRANCH(" in l][0]
        a_ = br[br.index("BRANCH(") + 7:br.rindex(")")].rsplit(", ", 2)
        side = a_[1] if arm == "then" else a_[2]

        def reaches(var, depth=0):
            if depth > 6:
                return False
            d = [l for l in lines if f"*{var.strip()} = " in l]
            if not d:
                return False
            if any(i in d[0].split("=", 1)[1] for i in inc):
                return True
            return any(reaches(v, depth + 1) for v in re.findall(r"seq_\w+", d[0].split("=", 1)[1]))
        ok = bool(inc) and reaches(side)
        return not ok, f"{src}: increment sequence {inc}; the {arm} arm of {br.strip()} {'contains' if ok else 'does NOT contain'} it"
    if case.startswith("order-"):
        n0 = int(case.split("-")[1])
        c.transformer.il_ops_holder.hybrid_op_count = n0      # the counter is never reset across behaviours: any value is reachable
        try:
            txt = c.compile_c_stmt("{ int32_t i = 0; int32_t j = 0; i++; j++; RdV = i + j; }")
        finally:
            c.transformer.il_ops_holder.hybrid_op_count = 0
        seq = [l for l in txt.splitlines() if "instruction_sequence =" in l][0]
        incs = re.findall(r'// (h_tmp\d+) = HYB\(\+\+(\w)\)', txt)
        order = re.findall(r"seq_\d+|op_\w+", seq)
        # the pending sequence of i++ must come before that of j++
        pend = [l.split("*")[1].split(" ")[0] for l in txt.splitlines() if "RzILOpEffect *seq_" in l and "op_ASSIGN_hybrid_tmp" in l]
        pos = [seq.index(x) for x in pend if x in seq]
        return pos != sorted(pos), f"counter at {n0}: {{ i++; j++; }} pending sequences {pend} appear at offsets {pos} of {seq.strip()}"
    if case.startswith("cond-both-"):
        arm = case.split("-")[2]
        src = "{ int32_t i = 0; int32_t j = 0; RdV = RsV ? ({ i = 5; i; }) : ({ j = 6; j; }); }"
        txt = c.compile_c_stmt(src)
        gs = [l for l in txt.splitlines() if "BRANCH(" in l]
        sides = []
        for g in gs:
            a = g[g.index("BRANCH(") + 7:g.rindex(")")].rsplit(", ", 2)
            sides.append("then" if a[2].strip() == "EMPTY()" else ("else" if a[1].strip() == "EMPTY()" else "?"))
        return arm not in sides, f"{src}: guards emitted for the arms {sides} ({len(gs)} BRANCH line(s)); the {arm} arm's statement must run only when that arm is selected"
    if case.startswith("cond-"):
        _, hk, arm = case.split("-", 2)
        if hk == "stmt":
            hk, arm = ("stmt-expr-if" if "expr-if" in case else "stmt-expr"), arm.split("-")[-1]
        src = {"postinc": "{ int32_t i = 0; RdV = RsV ? i++ : 7; RtV = i; }", "call": "{ RdV = RsV ? clz32(RtV) : 7; }",
               "stmt-expr": "{ int32_t i = 0; RdV = RsV ? ({ i = 5; i; }) : 7; }",
               "stmt-expr-if": "{ int32_t i = 0; RdV = RsV ? ({ if (RtV) { i = 5; } i; }) : 7; }"}[hk] if arm == "then" else \
              {"postinc": "{ int32_t i = 0; RdV = RsV ? 7 : i++; RtV = i; }", "call": "{ RdV = RsV ? 7 : clz32(RtV); }",
               "stmt-expr": "{ int32_t i = 0; RdV = RsV ? 7 : ({ i = 5; i; }); }",
               "stmt-expr-if": "{ int32_t i = 0; RdV = RsV ? 7 : ({ if (RtV) { i = 5; } i; }); }"}[hk]
        txt = c.compile_c_stmt(src)
        guarded = [l for l in txt.splitlines() if "BRANCH(" in l]
        if hk == "stmt-expr-if":
            # the inner if is one BRANCH; the ?: guard around the whole statement must be a second one
            has_guard = any(re.search(r"BRANCH\(NON_ZERO\((DUP\()?Rs\)", g) for g in guarded)
            return not has_guard, f"{src}: BRANCH lines {[g.strip()[:90] for g in guarded]}: {'one' if has_guard else 'none'} of them is guarded by the ?: condition Rs"
        if hk == "stmt-expr" and guarded:
            # the statement of the arm must be on the arm's own side of the BRANCH: BRANCH(c, stmt, EMPTY) for then, BRANCH(c, EMPTY, stmt) for else
            g = guarded[0]
            args = g[g.index("BRANCH(") + 7:g.rindex(")")].rsplit(", ", 2)
            side_ok = (args[2].strip() == "EMPTY()" and args[1].strip() != "EMPTY()") if arm == "then" else (args[1].strip() == "EMPTY()" and args[2].strip() != "EMPTY()")
            return not side_ok, f"{src}: statement of the {arm} arm guarded by {g.strip()}"
        return not guarded, f"{src}: side effect of the {arm} arm guarded by: {guarded or 'nothing (runs unconditionally)'}"
    if case.startswith("logic-"):
        op = case.split("-", 1)[1]
        src = "{ int32_t i = 0; RdV = RsV %s i++; RtV = i; }" % op
        txt = c.compile_c_stmt(src)
        guarded = [l for l in txt.splitlines() if "BRANCH(" in l]
        return not guarded, f"{src}: the increment is guarded by: {guarded or 'nothing (runs even when the left operand decides)'}"
    src, pred = SOURCES[case]
    txt = c.compile_c_stmt(src)
    return (not pred(txt)) if pred else False, f"{src} -> {[l for l in txt.splitlines() if 'RzILOpEffect' in l]}"


def gen_catalog_gcc(loader, check, replay_on=True):
    """GCCStmtDeclExpr emission: the statement is referenced through its effect variable exactly once"""
    def setup(it):
        st = c05.mk_effect(it, loader, "Assignment", "stmt")
        v = irkit.mk_var(it, "val", (True, 32))
        n = it.call(irkit.C(loader, "GCCStmtDeclExpr"), ["gcc_expr_5", st, v, v.fields["value_type"]], {})
        return {"n": n, "st": st}
    check.instances_declared += 1
    ex = explore(loader, setup, lambda it, s: (it.call(it.getattr_(s["n"], "il_write"), [], {}), it.call(it.getattr_(s["n"], "il_read"), [], {})))
    check.absorb(ex, "GCCStmtDeclExpr")
    if ex.paths:
        check.instances_generated += 1
    for p in ex.paths:
        inst = "({ stmt; val; })"
        check.ob("GCCStmtDeclExpr.il_write#total", inst, p.ctx.pc, p.outcome == "return", detail="" if p.outcome == "return" else f"raises {p.value!r}")
        if p.outcome == "return":
            w, r = p.value
            check.ob("GCCStmtDeclExpr.il_read#value-is-the-last-expression", inst, p.ctx.pc, r == 'VARL("val")', detail=repr(r))


def gen_history(loader, check, replay_on=True):
    """'exactly once' across behaviours: the pending table is empty whenever a new behaviour starts - also after a behaviour that was
    rejected while an effect was still pending (the reset / entry-point contracts of C14, restricted to the pending table)"""
    from . import c14
    saved = getattr(check, "ob_filter", None)
    check.ob_filter = r"#reset\.holder\.hybrid_effect_dict|#total|#history-independent"
    try:
        c14.gen_reset(loader, check, replay_on)
        c14.gen_entry_points(loader, check, replay_on)
    finally:
        check.ob_filter = saved


def gen_task(loader, check, what, replay_on=True):
    {"resolve": gen_resolve, "chk": gen_chk, "selected": gen_selected, "gcc": gen_catalog_gcc, "history": gen_history}[what](loader, check, replay_on)


def generate_reduced(loader, check):
    for w in ("resolve", "chk", "selected", "gcc", "history"):
        gen_task(loader, check, w, False)


def run(check: Check):
    check.trust("T-VCGEN: pyvc interpretation of the Python subset (mutant self-test, native source-level replay)")
    check.trust("T-RZIL: SEQN executes left to right; SETL(h_tmpN, v) evaluates v at that point (old value before INC, ret_val after the call)")
    check.trust("T-IND: 'sequenced immediately before its consumer' composes over nesting (every consumer callback discharges the clause for "
                "its own operands; pending operands of a hybrid are handled by resolve_hybrid itself)")
    check.assume("the pending table is keyed by the temporaries' names h_tmp<N> with symbolic N; user variables are not named h_tmp<digits>")
    check.assume("A-NAMES: add_op through its contract (except the dead-arm instance, which uses the real add_op on a fresh holder)")
    check.run_parallel("contracts.c06", "gen_task", [{"what": w} for w in ("resolve", "chk", "selected", "gcc", "history")], workers=WORKERS)
    run_mutants(check, MUTANTS, "contracts.c06", "generate_reduced")
    return check.finish(
        level="proof",
        rule="one obligation per (hybrid kind, type, pending-table shape / consumer callback / arm, clause); temporary numbering symbolic")
