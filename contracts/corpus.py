"""Monitored compilation of the bundled corpus (thorough tier of C01).

RUN-TIME CHECKING, NOT PROOF.  All 2181 bundled instruction definitions (every part) and the 13 bundled sub-routines
are compiled natively by the real compiler, in both output layouts, and the *structural* clauses of the contracts are
evaluated on the real emitted text:
  M1 decl.shape          (C11)  every line is a comment, a declaration `T [*]name = expr;`, or the final return
  M2 well-sorted         (C10)  every initialiser sort-checks (spec/rzil.py) given the sorts of the C variables declared
                                before it and ONE sort per IL local across the whole behaviour; C type matches the sort
  M3 declared-before-use (C11)  every C identifier used in an initialiser was declared on an earlier line
  M4 linearity           (C12)  every RzILOpPure variable is consumed raw exactly once and otherwise under DUP; every
                                RzILOpEffect variable is used exactly once; nothing declared is left unused
  M5 returns-sequence    (C11)  the body ends with `return instruction_sequence;` (or `return NOP();` for the no-op list)
  M6 layouts-agree       (C16)  READ_STATEMENTS and EXEC_CLASSES declare the same variables with the same initialisers
                                (modulo which use of a variable is the raw one and which are DUPs)
  M7 rejected-not-dropped(C15)  an instruction is either compiled or raises; no emitted text mentions a lark Tree/Token
  M9 attributes-match-text (C13) per part: MEM_WRITE iff STOREW, MEM_READ iff LOADW, BRANCH iff the jump flag is set, NEW iff a .new operand is
                                used, WPRED / WRITE_Pn iff a predicate register is written, COND only with a BRANCH; same in both layouts
  M8 node-well-formed    (C02/C03/C10) the callback postcondition WF(result) of spec/ir.py evaluated on every real node registered
                                while compiling, plus the conversion class of every Cast (which shipped instructions reach a known finding)
This supplies the cover evidence that the contracts' preconditions are reached by the shipped input and catches
contract / code disagreements on real data.  Results are reported under `monitored_corpus_run` and as obligations
flagged `bounded` (never counted as proved).
"""
from __future__ import annotations
import contextlib
import io
import os
import re
import time

from pyvc.values import Tpl
from spec import rzil, hexagon
from . import catalog

_ID = re.compile(r"[A-Za-z_]\w*")


def op_width(opvar):
    n = opvar[:-3] if opvar.endswith("_op") else opvar
    if n.endswith("_new"):
        n = n[:-4]
    m = re.fullmatch(r"([RNPCMVQGS])([a-z]{1,2})", n)
    if m:
        bits = hexagon.REG_CLASS[m.group(1)][0]
        return bits * 2 if len(m.group(2)) == 2 else bits
    m = re.fullmatch(r"([RPCVGS])(\d+)(?:_(\d+))?", n)
    if m:
        bits = hexagon.REG_CLASS[m.group(1)][0]
        return bits * 2 if m.group(3) is not None else bits
    return hexagon.alias(n, False)["width"]


def _uses(term, under_dup=False, out=None):
    """[(identifier, under_dup)] for every C identifier in a parsed initialiser"""
    if out is None:
        out = []
    k = term[0]
    if k == "id":
        out.append((term[1], under_dup))
    elif k == "call":
        for a in term[2]:
            _uses(a, under_dup or term[1] == "DUP", out)
    elif k in ("addr", "arrow", "ccast"):
        for a in term[1:]:
            if isinstance(a, tuple):
                _uses(a, under_dup, out)
    return out


FLOAT_OPS = re.compile(r"\b(BV2F|F2BV|F[A-Z]+|HEX_\w*_TO_\w+|IS_INF|IS_NAN|HEX_SETROUND|RZ_FLOAT\w*)\(")
_MACROS = {}


def macro_sorts():
    """result sorts of the plugin macros, from the repository's own data file qemu_rzil_macros.json (T-PLUGIN)"""
    if not _MACROS:
        import json
        path = os.path.join(os.environ.get("RZIL_REPO", "/repo"), "Resources/Hexagon/qemu_rzil_macros.json")
        with open(path) as f:
            for m in json.load(f)["macros"].values():
                rt = m["return_type"]
                mm = re.fullmatch(r"u?int(\d+)_t", rt)
                srt = ("bv", int(mm.group(1))) if mm else {"bool": "bool", "void": "effect"}.get(rt)
                name = m["rzil_macro"]
                if srt is None or (name in _MACROS and _MACROS[name] != srt):
                    _MACROS[name] = None          # float / ambiguous: not sort-checked by the monitor
                else:
                    _MACROS[name] = srt
    return _MACROS


class Tainted(Exception):
    pass


class MonEvaluator(rzil.Evaluator):
    def plugin(self, t, name, args):
        for a in args:
            self.ev(a)
        if name.startswith("hex_"):
            return rzil.Val("effect")          # call of a compiled sub-routine: an effect that sets ret_val
        ms = macro_sorts()
        if name in ms:
            if ms[name] is None:
                raise Tainted(name)
            return rzil.Val(ms[name])
        return super().plugin(t, name, args)

    def ev(self, t):
        if t[0] == "call" and t[1] in macro_sorts() and t[1] not in rzil.PLUGIN_PURE and not hasattr(self, "op_" + t[1]):
            return self.plugin(t, t[1], t[2])
        if t[0] == "call" and t[1].startswith("hex_"):
            return self.plugin(t, t[1], t[2])
        return super().ev(t)


def _undup(e):
    prev = None
    while prev != e:
        prev = e
        e = re.sub(r"\bDUP\((\w+)\)", r"\1", e)
    return e


BUILTIN_IDS = {"IL_TRUE", "IL_FALSE", "pkt", "hi", "bundle", "true", "false", "insn", "slot"}


def monitor_body(text, is_sub_routine=False, params=()):
    """-> (problems [(clause, detail)], stats dict, decls [(ctype, name, expr-text)])"""
    probs = []
    lines = [l.strip() for l in text.split("\n")]
    lines = [l for l in lines if l and not l.startswith("//")]
    if is_sub_routine:
        lines = [l for l in lines if l not in ("{", "}") and not re.fullmatch(r"(HexPkt \*pkt = bundle->pkt;|const HexInsn \*hi = bundle->insn;)", l)]
    if not lines:
        return [("M5 returns-sequence", "empty body")], {"lines": 0}, []
    last = lines[-1]
    body = lines[:-1]
    if last == "return NOP();" and not body:
        return [], {"lines": 1}, []
    if last != "return instruction_sequence;":
        probs.append(("M5 returns-sequence", f"last statement is {last!r}"))
        body = lines
    cvars, ctypes, locals_w, op_widths = {}, {}, {"ret_val": 64}, {}     # ret_val: the 64-bit return slot of calls (C03 / C08 contracts)
    raw, dup, order = {}, {}, []
    tainted, tainted_locals = set(), set()
    sortable = []
    decls = []
    for pname, psort in params:        # parameters of a sub-routine: borrowed pures / plugin handles
        ctypes[pname] = "RzILOpPure(borrowed)" if psort is not None else "HexOp(parameter)"
        cvars[pname] = psort if psort is not None else ("ext", "param")
        if psort is None:
            op_widths[pname] = op_width(pname) if re.fullmatch(r"[RNPCMVQGS][a-z]{1,2}V?", pname) else None
        order.append(pname)
    for ln in body:
        d = catalog.parse_decl(Tpl([ln]))
        if d[0] != "decl":
            probs.append(("M1 decl.shape", f"{ln[:120]!r}: {d[1] if len(d) > 1 else d[0]}"))
            continue
        ctype, is_ptr, name, expr = d[1:]
        etxt = "".join(expr)
        decls.append((ctype, name, etxt))
        if name in ctypes:
            probs.append(("M1 decl.shape", f"{name} declared twice"))
        if re.search(r"\b(Tree|Token)\(|<rzilcompiler|\bNone\b", etxt):
            probs.append(("M7 rejected-not-dropped", f"{name}: initialiser mentions a parser object: {etxt[:100]}"))
        if not catalog.balanced(expr):
            probs.append(("M1 decl.shape", f"{name}: unbalanced parentheses"))
            continue
        try:
            term = rzil.parse_expr(expr)
        except rzil.ParseError as e:
            probs.append(("M1 decl.shape", f"{name}: {e}"))
            continue
        for ident, under in _uses(term):
            if ident in ctypes:
                (dup if under else raw).setdefault(ident, []).append(name)
            elif ident not in BUILTIN_IDS and not ident.startswith("HEX_") and not ident.isupper():
                probs.append(("M3 declared-before-use", f"{name} uses {ident}, which is not declared on an earlier line"))
        if "HexOp" in ctype:
            ctypes[name] = ctype
            cvars[name] = ("ext", "HexOp")
            op_widths[name] = op_width(name)
            order.append(name)
            continue
        ctypes[name] = ctype
        order.append(name)
        sortable.append((name, ctype, term, etxt))
    # M2: sorts by fixpoint - an IL local has ONE sort in the whole behaviour, fixed by any of its SETLs, and the EXEC_CLASSES layout
    # declares the pures that read a local before the effects that assign it
    pending = list(sortable)
    while pending:
        progress, nxt = False, []
        for name, ctype, term, etxt in pending:
            used = {i for i, _ in _uses(term)} & set(ctypes)
            if any(u not in cvars for u in used):
                nxt.append((name, ctype, term, etxt))
                continue
            if used & tainted or FLOAT_OPS.search(etxt) or ctype not in ("RzILOpPure", "RzILOpEffect", "RzILOpBool") \
                    or any(l in tainted_locals for l in re.findall(r'VARL\("(\w+)"\)', etxt)):
                # floats and anything depending on a line that could not be sorted: text-level clauses only
                tainted.add(name)
                cvars[name] = "effect" if ctype == "RzILOpEffect" else ("bv", None)
                tainted_locals.update(re.findall(r'SETL\("(\w+)"', etxt))
                progress = True
                continue
            ev = MonEvaluator(locals_w=locals_w, op_widths=op_widths, cvars=cvars, strict_locals=True)
            try:
                v = ev.ev(term)
            except Tainted:
                tainted.add(name)
                cvars[name] = "effect" if ctype == "RzILOpEffect" else ("bv", None)
                progress = True
                continue
            except rzil.SortError as e:
                if "read before any SETL" in str(e):
                    nxt.append((name, ctype, term, etxt))      # the local's sort is not known yet: later
                    continue
                probs.append(("M2 well-sorted", f"{name}: {e}"))
                tainted.add(name)
                cvars[name] = "effect" if ctype == "RzILOpEffect" else ("bv", None)
                progress = True
                continue
            locals_w = ev.locals_w
            okc = (ctype == "RzILOpEffect") == (v.sort == "effect") and (ctype != "RzILOpBool" or v.sort == "bool")
            if not okc:
                probs.append(("M2 well-sorted", f"{ctype} {name} is initialised with a {v.sort}"))
            cvars[name] = v.sort
            progress = True
        if not progress:
            for name, ctype, term, etxt in nxt:
                unk = [l for l in re.findall(r'VARL\("(\w+)"\)', etxt) if l not in locals_w]
                if unk and not is_sub_routine:
                    probs.append(("M2 well-sorted", f"{name} reads the IL local(s) {sorted(set(unk))}, which no statement of the behaviour assigns"))
                tainted.add(name)
            break
        pending = nxt
    for name in order:
        ct = ctypes[name]
        r, dd = raw.get(name, []), dup.get(name, [])
        if "HexOp" in ct:
            continue     # operand handles are plain C values (not owned IL nodes)
        if name == "instruction_sequence":
            if r or dd:
                probs.append(("M4 linearity", "instruction_sequence is used by another initialiser"))
            continue
        if ct == "RzILOpPure(borrowed)":
            if len(r) > 1:
                probs.append(("M4 linearity", f"borrowed parameter {name} is consumed raw {len(r)} times (at most once; further uses under DUP): {r}"))
            continue
        if ct == "RzILOpEffect":
            if len(r) + len(dd) != 1 or dd:
                probs.append(("M4 linearity", f"effect {name} is used {len(r)} time(s) raw and {len(dd)} time(s) under DUP (must be exactly once, raw)"))
        else:
            if len(r) != 1:
                kind = "never consumed (leaks)" if not r and not dd else ("only duplicated, never consumed (leaks)" if not r else f"consumed raw {len(r)} times (double free)")
                probs.append(("M4 linearity", f"pure {name} is {kind}: raw uses in {r}, DUP uses in {dd}"))
    if "instruction_sequence" not in ctypes and last == "return instruction_sequence;":
        probs.append(("M5 returns-sequence", "instruction_sequence is not declared"))
    return probs, {"lines": len(body) + 1, "decls": len(decls), "locals": len(locals_w), "not_sort_checked": len(tainted)}, decls


def attr_problems(text, meta):
    """M9 (C13): the attribute list of a part against the text of that same part."""
    m = set(meta)
    probs = []

    def iff(attr, has, what):
        if has and attr not in m:
            probs.append(f"the text {what} but {attr} is not reported")
        if attr in m and not has:
            probs.append(f"{attr} is reported but the text does not {what.replace('contains', 'contain').replace('sets', 'set').replace('writes', 'write').replace('uses', 'use')}")
    iff("HEX_IL_INSN_ATTR_MEM_WRITE", "STOREW(" in text, "contains a store (STOREW)")
    iff("HEX_IL_INSN_ATTR_MEM_READ", "LOADW(" in text, "contains a load (LOADW)")
    iff("HEX_IL_INSN_ATTR_BRANCH", '"jump_flag"' in text, "sets the jump flag")
    iff("HEX_IL_INSN_ATTR_NEW", bool(re.search(r"_new_op\b|NREG2OP", text)), "uses a .new operand")
    wp = set(re.findall(r"WRITE_REG\(bundle, &?P(\d)(?:_new)?_op", text))
    iff("HEX_IL_INSN_ATTR_WPRED", bool(re.search(r"WRITE_REG\(bundle, &?P\w*_op", text)), "writes a predicate register")
    mp = {x[-1] for x in m if x.startswith("HEX_IL_INSN_ATTR_WRITE_P")}
    if wp != mp:
        probs.append(f"explicit predicate writes in the text {sorted(wp)} but WRITE_Pn attributes {sorted(mp)}")
    if "HEX_IL_INSN_ATTR_COND" in m and "BRANCH(" not in text:
        probs.append("HEX_IL_INSN_ATTR_COND is reported but the text contains no BRANCH")
    if not m:
        probs.append("empty attribute list (NONE expected)")
    if "HEX_IL_INSN_ATTR_NONE" in m and len(m) > 1:
        probs.append(f"NONE reported together with {sorted(m - {'HEX_IL_INSN_ATTR_NONE'})}")
    return probs


def _compilers(names=None):
    from rzilcompiler.Compiler import Compiler
    from rzilcompiler.ArchEnum import ArchEnum
    from rzilcompiler.Transformer.RZILTransformer import CodeFormat
    buf = io.StringIO()
    with contextlib.redirect_stdout(buf), contextlib.redirect_stderr(io.StringIO()):
        a = Compiler(ArchEnum.HEXAGON, CodeFormat.READ_STATEMENTS)
        b = Compiler(ArchEnum.HEXAGON, CodeFormat.EXEC_CLASSES)
        a.preprocessor.load_insn_behavior()
        if names is not None:
            a.preprocessor.behaviors = {n: v for n, v in a.preprocessor.behaviors.items() if n in names}
        if a.preprocessor.behaviors:
            a.parse_shortcode()
    return a, b


_NODES = []


def _install_node_monitor():
    """M8: the callback postcondition WF(result) (spec/ir.py) evaluated on every REAL node the callbacks register while the corpus is
    compiled, and the conversion class of every Cast (the C03 contract's case split).  Sidecar: add_op is wrapped in this process only."""
    from rzilcompiler.Transformer.RZILTransformer import RZILTransformer
    from spec import ir
    if getattr(RZILTransformer.add_op, "_monitored", False):
        return
    orig = RZILTransformer.add_op

    def add_op(self, op):
        r = orig(self, op)
        try:
            _observe(r)
        except Exception as e:      # a monitor never alters the behaviour it observes
            _NODES.append(f"monitor error: {type(e).__name__}: {e}")
        return r

    def _observe(r):
        names = {c.__name__ for c in type(r).__mro__}
        if "Pure" in names and "Effect" not in names and getattr(r, "value_type", None) is not None:
            try:
                flags, structs = ir.wf_split(r)
            except Exception as e:
                flags, structs = [], [f"WF could not be evaluated: {type(e).__name__}: {e}"]
            tags = []
            for f in flags:
                tags.append(("bool-sorted node typed without the BOOL flag" if "sort is bool" in f else "integer node typed with the BOOL flag") + f" ({type(r).__name__})")
            for st in structs:
                if "no ghost meaning" in st:
                    continue        # plugin macros / memory loads have no den in spec/ir.py: nothing to check, not a finding
                st = re.sub(r"<[^>]*>:? ?", "", st)
                tags.append(re.sub(r"\d+", "N", st)[:90] + f" ({type(r).__name__})")
            if "Cast" in names and r.ops and getattr(r.ops[0], "value_type", None) is not None:
                sv, dv = r.ops[0].value_type, r.value_type
                if sv.signed and not dv.signed and int(dv.bit_width) > int(sv.bit_width):
                    try:
                        is_bool = ir.sort(r.ops[0]) == "bool"
                    except Exception:
                        is_bool = False
                    if not is_bool and "Number" not in {c.__name__ for c in type(r.ops[0]).__mro__}:
                        tags.append("signed source widened to an unsigned target (emitted with a zero fill, C sign-extends)")
            if tags:
                _NODES.extend(tags)
    add_op._monitored = True
    RZILTransformer.add_op = add_op


def _compile(c, name, parsed, monitor=False):
    buf = io.StringIO()
    del _NODES[:]
    try:
        with contextlib.redirect_stdout(buf), contextlib.redirect_stderr(io.StringIO()):
            r = c.transform_insn(name, parsed)
        return ("ok", list(r.rzil), [list(m) for m in r.meta], sorted(set(_NODES)) if monitor else [])
    except Exception as e:     # rejected: that is an allowed outcome; the class is recorded
        return ("rejected", type(e).__name__, str(e)[:160])


def run_corpus(limit=None, names=None):
    """-> dict(results per instruction).  Native; cwd must be the repository."""
    t0 = time.time()
    _install_node_monitor()
    a, b = _compilers(names)
    res = {}
    items = list(a.parsed_insns.items())
    if names is not None:
        items = [(n, p) for n, p in items if n in names]
    if limit:
        items = items[:limit]
    for name, parsed in items:
        if parsed.exception:
            res[name] = {"outcome": "parse-rejected", "exception": parsed.exception.name}
            continue
        ra = _compile(a, name, parsed, monitor=True)
        rb = _compile(b, name, parsed)
        ent = {"outcome": ra[0], "parts": len(parsed.behaviors), "problems": []}
        if ra[0] == "ok":
            ent["problems"] += [("M8 node-well-formed", t) for t in ra[3]]
        if ra[0] != rb[0]:
            ent["problems"].append(("M6 layouts-agree", f"READ_STATEMENTS: {ra[0]}, EXEC_CLASSES: {rb[0]} {rb[1:]}"))
        if ra[0] == "ok":
            ent["lines"] = 0
            for k, text in enumerate(ra[1]):
                if text.strip() != "return NOP();" and k < len(ra[2]):
                    ent["problems"] += [("M9 attributes-match-text", f"part {k}: {d}") for d in attr_problems(text, ra[2][k])]
                    if rb[0] == "ok" and k < len(rb[2]) and sorted(rb[2][k]) != sorted(ra[2][k]):
                        ent["problems"].append(("M9 attributes-match-text", f"part {k}: the two layouts report different attributes {ra[2][k]} / {rb[2][k]}"))
                probs, st, decls = monitor_body(text)
                ent["lines"] += st.get("lines", 0)
                ent["problems"] += [(c, f"part {k}: {d}") for c, d in probs]
                if rb[0] == "ok" and k < len(rb[1]):
                    pb, stb, declsb = monitor_body(rb[1][k])
                    ent["lines"] += stb.get("lines", 0)
                    ent["problems"] += [(c, f"part {k} (EXEC_CLASSES): {d}") for c, d in pb]
                    # which use of a variable is the raw one and which are DUPs follows the emission order and may differ
                    # between the layouts (each layout is linear by M4); everything else must be identical
                    da = sorted((n, _undup(e)) for _, n, e in decls)
                    db = sorted((n, _undup(e)) for _, n, e in declsb)
                    if da != db:
                        diff = [x for x in da if x not in db][:2] + [x for x in db if x not in da][:2]
                        ent["problems"].append(("M6 layouts-agree", f"part {k}: the layouts declare different variables / initialisers, e.g. {diff}"))
            if rb[0] == "ok" and len(rb[1]) != len(ra[1]):
                ent["problems"].append(("M6 layouts-agree", f"{len(ra[1])} vs {len(rb[1])} parts"))
            if len(ra[1]) != len(parsed.behaviors):
                ent["problems"].append(("M5 returns-sequence", f"{len(parsed.behaviors)} parts in the source, {len(ra[1])} texts"))
        else:
            ent["exception"] = ra[1]
        res[name] = ent
    subs = {}
    from rzilcompiler.Transformer.Hybrids.SubRoutine import SubRoutineInitType
    from rzilcompiler.Transformer.ValueType import VTGroup
    for n, sr in a.sub_routines.items():
        body = sr.il_init(SubRoutineInitType.DEF)
        body = body[body.index("{"):]
        params = []
        for p_ in sr.ops:
            vt = p_.value_type
            ext = bool(vt.group & VTGroup.EXTERNAL)
            params.append((p_.get_name(), None if ext else ("bv", vt.bit_width)))
        probs, st, _ = monitor_body(body, is_sub_routine=True, params=params)
        subs[n] = {"problems": probs, "lines": st.get("lines", 0)}
    return {"instructions": res, "sub_routines": subs, "seconds": round(time.time() - t0, 1)}


def monitored_run(check, limit=None):
    from pyvc import replay as _r  # noqa: F401  (registers the replay kind below)
    cwd = os.getcwd()
    os.chdir(os.environ.get("RZIL_REPO", "/repo"))
    try:
        out = run_corpus(limit=limit)
    finally:
        os.chdir(cwd)
    ins = out["instructions"]
    acc = {n: e for n, e in ins.items() if e["outcome"] == "ok"}
    clauses = ["M1 decl.shape", "M2 well-sorted", "M3 declared-before-use", "M4 linearity", "M5 returns-sequence", "M6 layouts-agree", "M7 rejected-not-dropped", "M9 attributes-match-text"]
    fails = {c: [] for c in clauses}
    for n, e in list(acc.items()) + [(f"sub-routine {k}", v) for k, v in out["sub_routines"].items()]:
        for c, d in e["problems"]:
            fails.setdefault(c, []).append((n, d))
    for n, e in ins.items():
        if e["outcome"] == "rejected":
            for c, d in e.get("problems", []):
                fails.setdefault(c, []).append((n, d))
    m8 = fails.pop("M8 node-well-formed", [])
    by_tag = {}
    for n, d in m8:
        by_tag.setdefault(d, []).append(n)
    check.ob("corpus(run-time)#M8 node-well-formed", f"{len(acc) - len({n for n, _ in m8})} accepted instructions whose every registered node satisfies WF", [], True, bounded=True, family="runtime-monitor")
    for tag, ns in sorted(by_tag.items()):
        for n in sorted(set(ns)):
            check.ob("corpus(run-time)#M8 node-well-formed", f"{tag} :: {n}", [], False, bounded=True, family="runtime-monitor", detail=f"{n}: {tag}",
                     replay=("corpus.insn", lambda mdl, n=n: {"name": n, "clause": "M8 node-well-formed"}), observed_natively=True)
    check.extra["corpus_instructions_per_node_finding"] = {tag: len(set(ns)) for tag, ns in by_tag.items()}
    for c in clauses:
        bad = {}
        for n, d in fails[c]:
            bad.setdefault(n, []).append(d)
        check.ob(f"corpus(run-time)#{c}", f"{len(acc) + len(out['sub_routines']) - len([n for n in bad if not n.startswith('sub-routine') and n in acc]) - len([n for n in bad if n.startswith('sub-routine')])} bodies without finding", [], True, bounded=True, family="runtime-monitor")
        for n, ds in sorted(bad.items()):
            check.ob(f"corpus(run-time)#{c}", n, [], False, bounded=True, family="runtime-monitor", detail="; ".join(ds)[:400],
                     replay=("corpus.insn", lambda mdl, n=n, c=c: {"name": n, "clause": c}), observed_natively=True)
    import collections
    rej = collections.Counter(e.get("exception") for e in ins.values() if e["outcome"] != "ok")
    check.extra["monitored_corpus_run"] = {
        "label": "run-time checking of the real compiler on the bundled corpus - NOT counted as proved",
        "definitions": len(ins), "accepted": len(acc), "rejected_by_exception_class": dict(rej),
        "parts_compiled": sum(e.get("parts", 0) for e in acc.values()), "layouts": 2,
        "emitted_lines_monitored": sum(e.get("lines", 0) for e in acc.values()) + sum(v["lines"] for v in out["sub_routines"].values()),
        "sub_routines": len(out["sub_routines"]), "clauses": clauses,
        "findings_per_clause": {c: len({n for n, _ in fails[c]}) for c in clauses}, "seconds": out["seconds"]}
    check.bounded.append(f"monitored corpus run: {len(ins)} bundled definitions x 2 layouts + {len(out['sub_routines'])} sub-routines compiled natively, structural contract "
                         f"clauses M1-M7 evaluated on the emitted text (run-time checking; not proof)")
    check.instances_declared += 1
    check.instances_generated += 1
    return out


try:
    from pyvc import replay

    @replay.register("corpus.insn")
    def replay_insn(a):
        name = a["name"]
        if name.startswith("sub-routine "):
            out = run_corpus(names=set())
            e = out["sub_routines"].get(name.split(" ", 1)[1], {"problems": []})
        else:
            out = run_corpus(names={name})
            e = out["instructions"].get(name, {"problems": []})
        ps = [d for c, d in e["problems"] if c == a.get("clause", c) or a.get("clause", "").endswith(c)]
        return bool(ps), f"{name}: " + ("; ".join(ps)[:600] if ps else "no finding")
except Exception:      # pragma: no cover
    pass
