"""C16 - both output layouts denote the same effect.

The two layouts differ only in *where* the initialisers of the same IR nodes are written:
  EXEC_CLASSES     res = READ block ++ EXEC block ++ WRITE block ++ final
  READ_STATEMENTS  res = READ block ++ per-statement blocks ++ final
Obligations (all on the real code):
 1. fold shapes: fbody composes exactly these blocks in this order for each layout (emit functions through
    their contracts), the per-block fold invariants are C12's;
 2. counter independence: the text of a variable-backed read denotes the same value for every read history
    (bare variable or DUP(variable); den(DUP t) = den t) - symbolic counters;
 3. Effect.get_exec_op_list returns exactly the executable pures reachable from the effect (through nested
    pures, hybrids, sequences, branches, loops);
 4. WF-registered: every node a callback creates is registered (add_op), so the EXEC/WRITE tables contain every
    node reachable from the instruction sequence;
 5. coverage lemma (solver-only, quantified over an arbitrary node): 3 + 4 => both layouts initialise every
    node the final sequence reaches; together with declare-before-use (C11) both texts bind
    instruction_sequence to terms of equal den;
 6. nothing but fbody / emit_final_seq_return reads code_format; get_meta does not depend on it.
"""
from __future__ import annotations
import ast
import z3
from lark import Token

from pyvc.interp import explore, NativeAbs, AbsSeq, AbsCat, AbsAcc, LoopContract
from pyvc.loader import Loader, FuncInfo
from pyvc.values import Obj, Tpl, Atom
from pyvc.vc import Check
from pyvc import replay
from spec import rzil
from . import irkit, tkit, emit, catalog, c05, c12
from .common import WORKERS, conc_vt, run_mutants

PROP = "C16"
FILTER = r"fbody#|#den-independent|get_exec_op_list#|flatten_list#|#registered|lemma#|code_format#|#total|#raw|#emit|#loop|#frame|update_stmt|declared-at-most-once"

MUTANTS = [
    {"name": "fbody: READ_STATEMENTS layout skips the read block", "file": "rzilcompiler/Transformer/RZILTransformer.py",
     "old": "        if self.code_format in [CodeFormat.EXEC_CLASSES, CodeFormat.READ_STATEMENTS]:\n            res = self.emit_read_block(holder, res)",
     "new": "        if self.code_format in [CodeFormat.EXEC_CLASSES]:\n            res = self.emit_read_block(holder, res)"},
    {"name": "fbody: EXEC_CLASSES layout emits the write block before the exec block", "file": "rzilcompiler/Transformer/RZILTransformer.py",
     "old": "        if self.code_format in [CodeFormat.EXEC_CLASSES]:\n            res = self.emit_exec_block(holder, res)\n\n        if self.code_format in [CodeFormat.EXEC_CLASSES]:\n            res = self.emit_write_block(holder, res)",
     "new": "        if self.code_format in [CodeFormat.EXEC_CLASSES]:\n            res = self.emit_write_block(holder, res)\n\n        if self.code_format in [CodeFormat.EXEC_CLASSES]:\n            res = self.emit_exec_block(holder, res)"},
    {"name": "get_exec_op_list: operands of nested pures not followed", "file": "rzilcompiler/Transformer/Effects/Effect.py",
     "old": "                return [x] + [get_ops(y) for y in x.ops]", "new": "                return [x]"},
    {"name": "get_exec_op_list: every second operand of the effect skipped", "file": "rzilcompiler/Transformer/Effects/Effect.py",
     "old": "        return flatten_list([get_ops(o) for o in self.effect_ops])\n\n    def get_op_list", "new": "        return flatten_list([get_ops(o) for o in self.effect_ops[::2]])\n\n    def get_op_list"},
    {"name": "get_exec_op_list: nested effects not followed", "file": "rzilcompiler/Transformer/Effects/Effect.py",
     "old": "            elif isinstance(x, (Hybrid, Effect)):\n                return x.get_exec_op_list()", "new": "            elif isinstance(x, (Hybrid, Effect)):\n                return []"},
    {"name": "update_assign_src: compound operation node not registered", "file": "rzilcompiler/Transformer/RZILTransformer.py",
     "old": "            raise NotImplementedError(f\"Assign type {assign.assign_type} not handled.\")\n        self.add_op(assign.src)", "new": "            raise NotImplementedError(f\"Assign type {assign.assign_type} not handled.\")"},
    {"name": "GlobalVar.il_read: later reads use a different variable", "file": "rzilcompiler/Transformer/Pures/GlobalVar.py",
     "old": '            ret = f"DUP({self.pure_var()})"', "new": '            ret = f"DUP({self.pure_var()}_op)"'},
    {"name": "assignment_expr depends on the layout (extra cast in one layout)", "file": "rzilcompiler/Transformer/RZILTransformer.py",
     "old": "        assignment = Assignment(name, op_type, dest, src)\n        self.update_assign_src(assignment)", "new": "        if self.code_format == CodeFormat.EXEC_CLASSES:\n            src = self.promotion_cast(src)\n        assignment = Assignment(name, op_type, dest, src)\n        self.update_assign_src(assignment)"},
    {"name": "conditional_expr: ternary node not registered", "file": "rzilcompiler/Transformer/RZILTransformer.py",
     "old": '        return self.add_op(Ternary(f"cond", items[0], then_p, else_p))', "new": '        return Ternary(f"cond", items[0], then_p, else_p)'},
]


def block_stub(tag):
    def stub(it, f, args, kwargs):
        res = args[-1]
        return Tpl([res, Atom(tag, 1, kind="block")])
    return stub


def gen_shapes(loader, check, replay_on=True):
    T = loader.load(tkit.M_T).globals["RZILTransformer"]
    CF = loader.load(tkit.M_T).globals["CodeFormat"]
    check.under_contract(loader, T.methods["fbody"], T.methods["emit_read_block"], T.methods["emit_exec_block"], T.methods["emit_write_block"],
                         T.methods["emit_stmt_blocks"], T.methods["emit_final_seq_return"])
    want = {"EXEC_CLASSES": ["READ", "EXEC", "WRITE", "FINAL"], "READ_STATEMENTS": ["READ", "STMTS", "FINAL"]}
    for fmt in (CF.READ_STATEMENTS, CF.EXEC_CLASSES):
        inst = f"layout={fmt.name}"
        check.instances_declared += 1

        def setup(it, fmt=fmt):
            t = tkit.mk_transformer(it, code_format=fmt)
            t.fields["il_ops_holder"].fields["write_ops"]["e"] = c05.mk_effect(it, loader, "Assignment", "e")
            q = f"{tkit.M_T}.RZILTransformer."
            for fn, tag in (("emit_read_block", "READ"), ("emit_exec_block", "EXEC"), ("emit_write_block", "WRITE"), ("emit_stmt_blocks", "STMTS")):
                it.ctx.contracts[q + fn] = block_stub(tag)
            it.ctx.contracts[q + "emit_final_seq_return"] = lambda it_, f, a, k: Tpl([a[-1], Atom("FINAL", 1, kind="block")])
            return {"t": t}
        ex = explore(loader, setup, lambda it, st: it.call(tkit.method(it, st["t"], "fbody"), [[]], {}))
        check.absorb(ex, f"fbody {inst}")
        if ex.paths:
            check.instances_generated += 1
        for p in ex.paths:
            check.ob("fbody#total", inst, p.ctx.pc, p.outcome == "return", detail="" if p.outcome == "return" else f"raises {p.value!r}")
            if p.outcome == "return":
                t = emit.as_tpl(p.value)
                tags = [a.tag for a in t.atoms()]
                lits = [x for x in t.parts if isinstance(x, str) and x.strip()]
                check.ob("fbody#fold-shape: blocks in layout order, nothing else", inst, p.ctx.pc, tags == want[fmt.name] and not lits, detail=f"{tags} {lits}")
    # code_format is read only where the layout is assembled
    readers = []
    for cls_mod, cname in ((tkit.M_T, "RZILTransformer"), ("rzilcompiler.HexagonExtensions", "HexagonTransformerExtension"), (tkit.M_H, "ILOpsHolder")):
        cls = loader.load(cls_mod).globals[cname]
        for mname, f in cls.methods.items():
            if isinstance(f, FuncInfo):
                for node in ast.walk(f.node):
                    if isinstance(node, ast.Attribute) and node.attr == "code_format" and isinstance(node.ctx, ast.Load):
                        readers.append(f"{cname}.{mname}")
    pkg_readers = set(readers)
    for modname in list(irkit.CLS.values()):
        m = loader.load(modname)
        for node in ast.walk(m.tree):
            if isinstance(node, ast.Attribute) and node.attr == "code_format":
                pkg_readers.add(modname)
    allowed = {"RZILTransformer.fbody", "RZILTransformer.emit_final_seq_return"}
    check.ob("code_format#read-only-by-the-layout-assembly (callbacks, emitters and get_meta are layout independent)", "package scan", [],
             pkg_readers <= allowed, detail=f"read in {sorted(pkg_readers - allowed)}")
    check.instances_declared += 1
    check.instances_generated += 1


def gen_den_independent(loader, check, replay_on=True):
    """the text of a read denotes the node's value for every read history: x or DUP(x)"""
    RA = irkit.enum(loader, "Register", "RegisterAccessType")
    from pyvc.values import SInt
    R0 = z3.Int("reads0")
    for kind in ("Register", "Parameter", "PureExec", "Immediate"):
        inst = f"{kind} any-read-history"
        check.instances_declared += 1

        def setup(it, kind=kind):
            it.ctx.assume(R0 >= 0)
            if kind == "Register":
                o = it.call(irkit.C(loader, "Register"), ["Rs", RA.R, conc_vt(loader, (True, 32))], {})
            elif kind == "Parameter":
                o = it.call(irkit.C(loader, "Parameter"), ["x", conc_vt(loader, (True, 32))], {})
            elif kind == "Immediate":
                o = it.call(irkit.C(loader, "Immediate"), ["s", conc_vt(loader, (True, 32))], {})
                o.fields["assign_reads"] = SInt(z3.Int("assign_reads0"))
                it.ctx.assume(z3.Int("assign_reads0") >= 0)
                o.fields["assign_usage"] = it.ctx.bool("assign_usage0")
            else:
                ATy = irkit.enum(loader, "ArithmeticOp", "ArithmeticType")
                o = it.call(irkit.C(loader, "ArithmeticOp"), ["op_ADD_3", irkit.mk_var(it, "a", (True, 32)), irkit.mk_var(it, "b", (True, 32)), ATy("+")], {})
            o.fields["reads"] = SInt(R0)
            return o
        ex = explore(loader, setup, lambda it, o: it.call(it.getattr_(o, "il_read"), [], {}))
        check.absorb(ex, f"den-independent {inst}")
        if ex.paths:
            check.instances_generated += 1
        for i, p in enumerate(ex.paths):
            pi = f"{inst} path={i}"
            check.ob("il_read#total", pi, p.ctx.pc, p.outcome == "return")
            if p.outcome != "return":
                continue
            var = {"Register": "Rs", "Parameter": "x", "PureExec": "op_ADD_3", "Immediate": "s"}[kind]
            try:
                v = rzil.Evaluator(cvars={var: ("bv", 32)}, locals_w={"s": 32}).ev(rzil.parse_expr(emit.as_tpl(p.value).parts))
                ok = v.sort == ("bv", 32)
                same = (v.v is not None) and (z3.eq(z3.simplify(v.v), z3.BitVec(f"cvar_{var}", 32)) or z3.eq(z3.simplify(v.v), z3.BitVec("local_s", 32)))
            except (rzil.ParseError, rzil.SortError) as e:
                ok, same = False, False
            check.ob("il_read#den-independent-of-the-read-history (the variable or a DUP of it)", pi, p.ctx.pc, ok and same, detail=repr(p.value))


def gen_exec_list(loader, check, replay_on=True):
    Eff = irkit.C(loader, "Effect")
    check.under_contract(loader, Eff.methods["get_exec_op_list"])
    AT = irkit.enum(loader, "ArithmeticOp", "ArithmeticType")
    ATy = irkit.enum(loader, "Assignment", "AssignmentType")
    HT = irkit.enum(loader, "Hybrid", "HybridType")

    def pe(it, label, a=None, b=None):
        o = it.call(irkit.C(loader, "ArithmeticOp"), [label, a or irkit.mk_var(it, label + "_a", (True, 32)), b or irkit.mk_var(it, label + "_b", (True, 32)), AT("+")], {})
        o.label = label
        return o

    def asg(it, label, src):
        return it.call(irkit.C(loader, "Assignment"), [label, ATy("="), irkit.mk_var(it, label + "_d", (True, 32)), src], {})
    shapes = {
        "assignment of a leaf": lambda it: (asg(it, "e", irkit.mk_var(it, "x", (True, 32))), []),
        "assignment of a nested expression": lambda it: (lambda inner: (lambda outer: (asg(it, "e", outer), [outer, inner]))(pe(it, "outer", a=inner)))(pe(it, "inner")),
        "cast over an expression": lambda it: (lambda inner: (lambda c: (asg(it, "e", c), [c, inner]))(it.call(irkit.C(loader, "Cast"), ["cast", conc_vt(loader, (True, 64)), inner], {})))(pe(it, "inner")),
        "sequence of two assignments": lambda it: (lambda p1, p2: (it.call(irkit.C(loader, "Sequence"), ["seq", [asg(it, "e1", p1), asg(it, "e2", p2)]], {}), [p1, p2]))(pe(it, "p1"), pe(it, "p2")),
        "branch with condition and arms": lambda it: (lambda c, p1: (it.call(irkit.C(loader, "Branch"), ["br", c, asg(it, "t", p1), it.call(irkit.C(loader, "Empty"), ["e"], {})], {}), [c, p1]))(
            it.call(irkit.C(loader, "CompareOp"), ["cmp", irkit.mk_var(it, "ca", (True, 32)), irkit.mk_var(it, "cb", (True, 32)), irkit.enum(loader, "CompareOp", "CompareOpType")("<")], {}), pe(it, "p1")),
        "assignment whose source is a hybrid over an expression": lambda it: (lambda inner: (lambda h: (asg(it, "e", h), [h, inner]))(
            it.call(irkit.C(loader, "SubRoutineCall"), [it.call(irkit.C(loader, "SubRoutine"), ["fn", conc_vt(loader, (True, 32)), [it.call(irkit.C(loader, "Parameter"), ["x", conc_vt(loader, (True, 32))], {})], "b"], {}), [inner]], {})))(pe(it, "inner")),
    }
    for lab, mk in shapes.items():
        check.instances_declared += 1

        def setup(it, mk=mk):
            e, want = mk(it)
            return {"e": e, "want": want}
        ex = explore(loader, setup, lambda it, st: it.call(it.getattr_(st["e"], "get_exec_op_list"), [], {}))
        check.absorb(ex, f"get_exec_op_list {lab}")
        if ex.paths:
            check.instances_generated += 1
        for p in ex.paths:
            check.ob("get_exec_op_list#total", lab, p.ctx.pc, p.outcome == "return", detail="" if p.outcome == "return" else f"raises {p.value!r}")
            if p.outcome == "return":
                got, want = p.value, p.state["want"]
                ok = isinstance(got, list) and {id(x) for x in got} == {id(x) for x in want} and len(got) == len(want)
                check.ob("get_exec_op_list#returns-exactly-the-reachable-executable-pures", lab, p.ctx.pc, ok, detail=f"{got!r} vs {want!r}")
    # any operand tree: one unfolding per operand kind + the recursion through the function's own contract (the six shapes stay as ground instances)
    gen_exec_list_induction(loader, check)


# ------------------------------------------------------------------------------------------ get_exec_op_list, any tree (structural induction)
class GTok(NativeAbs):
    """the list a recursive call get_ops(x) returns, by the contract of get_ops:  flat(get_ops(x)) == R(x)"""
    pytype = list

    def __init__(self, x):
        self.x = x

    def hasattr(self, it, name):
        return hasattr([], name)

    def __repr__(self):
        return f"G({self.x!r})"


class OpsOf(LoopContract):
    """operand list of an executable pure / of an effect: any length; never iterated by the code under proof except through a comprehension"""
    name = "get_exec_op_list.operands"

    def __init__(self, loader):
        self.loader = loader

    def element_kinds(self):
        return ["operand"]

    def make_element(self, it, kind, seq):
        o = irkit.mk_var(it, "probe", (True, 32))
        o.label = "probe"
        return o


def gen_exec_list_induction(loader, check):
    """R(x) = [x] ++ concat(R(y) for y in x.ops)   if x is an executable pure (hybrids are)
       R(x) = x.get_exec_op_list()                  if x is a (non-pure) effect      (= concat(R(o) for o in x.effect_ops))
       R(x) = []                                     otherwise
    One unfolding of get_ops per case with the recursive calls replaced by the contract  flat(get_ops(y)) == R(y), and
    get_exec_op_list == flat([get_ops(o) for o in effect_ops]) for an operand list of any length (flatten_list through its own,
    separately proved, contract).  By induction over the (finite, acyclic) operand tree: get_exec_op_list(e) == concat R(o)."""
    Eff = irkit.C(loader, "Effect")
    geo = Eff.methods["get_exec_op_list"]
    flat_q = loader.load("rzilcompiler.Transformer.helper").globals["flatten_list"].qualname
    AT = irkit.enum(loader, "ArithmeticOp", "ArithmeticType")
    ATy = irkit.enum(loader, "Assignment", "AssignmentType")
    HT = irkit.enum(loader, "Hybrid", "HybridType")

    def get_ops_contract(it, f, args, kwargs):
        return GTok(args[0])

    def flat_contract(it, f, args, kwargs):
        return AbsAcc("flat", z3.Int("n_flat"), {"flat_of": args[0]})

    def mk_root(it, ops):
        e = it.call(irkit.C(loader, "Assignment"), ["root", ATy("="), irkit.mk_var(it, "d", (True, 32)), irkit.mk_var(it, "s", (True, 32))], {})
        e.fields["effect_ops"] = ops
        return e

    def mk_x(it, kind):
        if kind in ("executable pure", "hybrid"):
            if kind == "hybrid":
                # a hybrid is an executable pure as well as an effect: it is listed itself and its operands are followed
                v = irkit.mk_var(it, "v", (True, 32))
                x = it.call(irkit.C(loader, "PostfixIncDec"), ["x", v, v.fields["value_type"], HT("++")], {})
            else:
                x = it.call(irkit.C(loader, "ArithmeticOp"), ["x", irkit.mk_var(it, "a", (True, 32)), irkit.mk_var(it, "b", (True, 32)), AT("+")], {})
            ops = AbsSeq("x.ops", OpsOf(loader))
            it.ctx.assume(ops.length >= 0)
            x.fields["ops"] = ops
            return x
        if kind == "effect":
            x = it.call(irkit.C(loader, "Assignment"), ["x", ATy("="), irkit.mk_var(it, "xd", (True, 32)), irkit.mk_var(it, "xs", (True, 32))], {})
            tok = AbsSeq("R(x)")
            x.ghost["R"] = tok

            def stub(it_, obj, args, kwargs):
                obj.ghost["ncalls"] = obj.ghost.get("ncalls", 0) + 1
                return tok
            x.stubs["get_exec_op_list"] = stub
            return x
        if kind == "variable":
            return irkit.mk_var(it, "x", (True, 32))
        if kind == "immediate-like string":
            return "HEX_REG_FIELD"
        return None

    check.under_contract(loader, geo)
    # 1. one unfolding of get_ops for every kind of operand
    for kind in ("executable pure", "hybrid", "effect", "variable", "immediate-like string", "None"):
        check.instances_declared += 1

        def setup(it, kind=kind):
            it.ctx.contracts["<local>.get_ops"] = get_ops_contract
            it.ctx.contracts[flat_q] = flat_contract
            x = mk_x(it, kind)
            return {"x": x, "e": mk_root(it, [x])}
        ex = explore(loader, setup, lambda it, st: it.call(it.getattr_(st["e"], "get_exec_op_list"), [], {}), target="<local>.get_ops")
        check.absorb(ex, f"get_exec_op_list unfold {kind}")
        if ex.paths:
            check.instances_generated += 1
        for i, p in enumerate(ex.paths):
            pi = f"operand={kind} path={i}"
            check.path_obligations(p, pi)
            if p.outcome != "return":
                check.ob("get_exec_op_list#total", pi, p.ctx.pc, False, detail=f"raises {p.value!r}")
                continue
            r, x = p.value, p.state["x"]
            arg = r.ghost.get("flat_of") if isinstance(r, AbsAcc) else None
            ok_outer = isinstance(arg, list) and len(arg) == 1 and r.tail == []
            check.ob("get_exec_op_list#induction: the result is the flattening of one get_ops result per operand", pi, p.ctx.pc, bool(ok_outer), detail=repr(r))
            if not ok_outer:
                continue
            g = arg[0]
            if kind in ("executable pure", "hybrid"):
                ops = x.fields["ops"]
                ok = isinstance(g, AbsCat) and len(g.head) == 1 and g.head[0] is x and g.tail == [] and g.base.contract is ops.contract and g.base.length is ops.length \
                    and len(g.base.maps) == 1 and not g.base.meta
                check.ob("get_exec_op_list#induction.unfold: R(pure) = [pure] ++ (get_ops(y) for every operand y, in order)", pi, p.ctx.pc, bool(ok), detail=repr(g))
                p.state["mapped"] = g.base if ok else None
            elif kind == "effect":
                check.ob("get_exec_op_list#induction.unfold: R(nested effect) = its own get_exec_op_list(), asked once", pi, p.ctx.pc,
                         g is x.ghost["R"] and x.ghost.get("ncalls", 0) == 1, detail=repr(g))
            else:
                check.ob("get_exec_op_list#induction.unfold: R(leaf) = []", pi, p.ctx.pc, g == [], detail=repr(g))
    # 2. the mapped function of the comprehensions is get_ops (element-wise), for operand lists of any length
    for where in ("effect_ops of the effect", "ops of an executable pure"):
        check.instances_declared += 1

        def setup2(it, where=where):
            it.ctx.contracts["<local>.get_ops"] = get_ops_contract
            it.ctx.contracts[flat_q] = flat_contract
            if where.startswith("effect_ops"):
                ops = AbsSeq("effect_ops", OpsOf(loader))
                it.ctx.assume(ops.length >= 0)
                return {"ops": ops, "e": mk_root(it, ops), "x": None}
            x = mk_x(it, "executable pure")
            return {"ops": x.fields["ops"], "e": mk_root(it, [x]), "x": x}
        tgt = None if where.startswith("effect_ops") else "<local>.get_ops"

        def run2(it, st):
            r = it.call(it.getattr_(st["e"], "get_exec_op_list"), [], {})
            arg = r.ghost.get("flat_of") if isinstance(r, AbsAcc) else None
            d = arg if st["x"] is None else (arg[0].base if isinstance(arg, list) and arg and isinstance(arg[0], AbsCat) else None)
            st["derived"] = d
            if isinstance(d, AbsSeq) and len(d.maps) == 1 and d.contract is st["ops"].contract:
                probe = d.contract.make_element(it, "operand", d)
                st["probe"] = probe
                st["image"] = d.maps[0](it, probe)
            return r
        ex = explore(loader, setup2, run2, target=tgt)
        check.absorb(ex, f"get_exec_op_list map {where}")
        if ex.paths:
            check.instances_generated += 1
        for i, p in enumerate(ex.paths):
            pi = f"{where} (any length) path={i}"
            check.path_obligations(p, pi)
            if p.outcome != "return":
                check.ob("get_exec_op_list#total", pi, p.ctx.pc, False, detail=f"raises {p.value!r}")
                continue
            d, img = p.state.get("derived"), p.state.get("image")
            ok = isinstance(d, AbsSeq) and d.length is p.state["ops"].length and isinstance(img, GTok) and img.x is p.state.get("probe")
            check.ob("get_exec_op_list#induction.map: every operand (and nothing else) is passed to get_ops, in list order", pi, p.ctx.pc, bool(ok), detail=f"{d!r} image {img!r}")
            if where.startswith("effect_ops"):
                r = p.value
                check.ob("get_exec_op_list#induction: result == flat(get_ops(o) for o in effect_ops)", pi, p.ctx.pc,
                         isinstance(r, AbsAcc) and r.ghost.get("flat_of") is d and r.tail == [], detail=repr(r))


def gen_registered(loader, check, replay_on=True):
    """WF-registered: every non-inlined executable pure / effect created by a callback went through add_op"""
    T = loader.load(tkit.M_T).globals["RZILTransformer"]
    PE, Eff, Emp = irkit.C(loader, "PureExec"), irkit.C(loader, "Effect"), irkit.C(loader, "Empty")

    def V(it, n, t=(True, 8)):
        return irkit.mk_operand(it, "Variable", t, n)
    cases = {
        "additive_expr": lambda it: [V(it, "a"), Token("ADD_OP", "+"), V(it, "b", (False, 16))],
        "shift_expr": lambda it: [V(it, "a"), Token("LEFT_OP", "<<"), V(it, "b")],
        "relational_expr": lambda it: [V(it, "a"), Token("LT_OP", "<"), V(it, "b", (True, 32))],
        "logical_and_expr": lambda it: [V(it, "a"), Token("AND_OP", "&&"), V(it, "b")],
        "unary_expr": lambda it: [Token("UNARY_OP", "-"), V(it, "a")],
        "conditional_expr": lambda it: [V(it, "c"), V(it, "a"), V(it, "b", (True, 64))],
        "cast_expr": lambda it: [conc_vt(loader, (False, 64)), V(it, "a")],
        **{f"assignment_expr({op})": (lambda it, op=op: [irkit.mk_var(it, "d", (True, 32)), Token("ASSIGN_OP", op), V(it, "s")])
           for op in ("+=", "-=", "*=", "/=", "%=", "&=", "|=", "^=", "<<=", ">>=")},
        "assignment_expr(=)": lambda it: [irkit.mk_var(it, "d", (True, 32)), Token("ASSIGN_OP", "="), irkit.mk_operand(it, "CompareOp", (True, 32), "s")],
        "mem_store": lambda it: [Token("MEM_STORE", "mem_store_"), Token("SIGN_TYPE", "u"), Token("BIT_WIDTH", "16"), V(it, "ea", (False, 32)), V(it, "d")],
        "mem_load": lambda it: [Token("MEM_LOAD", "mem_load_"), Token("SIGN_TYPE", "s"), Token("BIT_WIDTH", "16"), V(it, "ea", (False, 32))],
        "jump": lambda it: [Token("JUMP", "JUMP"), V(it, "t", (True, 64))],
        "selection_stmt": lambda it: [Token("IF", "if"), V(it, "c"), c05.mk_effect(it, loader, "Assignment", "t"), Token("ELSE", "else"), c05.mk_effect(it, loader, "Assignment", "e")],
        "iteration_stmt": lambda it: [Token("FOR", "for"), c05.mk_effect(it, loader, "Assignment", "i"), V(it, "c"), c05.mk_effect(it, loader, "Assignment", "s"), c05.mk_effect(it, loader, "Assignment", "b")],
        "postfix_expr": lambda it: [irkit.mk_var(it, "v", (True, 32)), Token("INC_OP", "++")],
        "init_declarator": lambda it: [Token("IDENTIFIER", "nv"), V(it, "s")],
    }
    for name, mk in cases.items():
        cb = name.split("(")[0]
        inst = f"{name}"
        check.instances_declared += 1

        def setup(it, mk=mk):
            t = tkit.mk_transformer(it)
            items = mk(it)
            for x in items:
                if isinstance(x, Obj) and x.cls is irkit.C(loader, "Variable") and not x.stubs:
                    t.fields["il_ops_holder"].fields["read_ops"][x.fields["name"]] = x
            pre = set()

            def mark(o):
                if isinstance(o, Obj) and o.oid not in pre:
                    pre.add(o.oid)
                    for ch in list(o.fields.values()):
                        if isinstance(ch, list):
                            for c in ch:
                                mark(c)
                        else:
                            mark(ch)
            for x in items:
                mark(x)
            it.ctx.mark_pre(t)
            return {"t": t, "items": items, "pre": pre}
        ex = explore(loader, setup, lambda it, st, cb=cb: it.call(tkit.method(it, st["t"], cb), [st["items"]], {}))
        check.absorb(ex, f"registered {inst}")
        if ex.paths:
            check.instances_generated += 1
        for p in ex.paths:
            check.ob(f"{cb}#total", inst, p.ctx.pc, p.outcome == "return", detail="" if p.outcome == "return" else f"raises {p.value!r}")
            if p.outcome != "return":
                continue
            h = p.state["t"].fields["il_ops_holder"]
            added = {o.oid for o in h.ghost.get("added", [])}
            pend = list(h.fields["hybrid_effect_dict"].values())
            missing = []
            seen = set()

            def walk(o, depth=0):
                if not isinstance(o, Obj) or o.oid in seen or depth > 10:
                    return
                seen.add(o.oid)
                created = o.oid not in p.state["pre"]
                is_pe = o.cls.is_subclass_of(PE)
                is_eff = o.cls.is_subclass_of(Eff) and not o.cls.is_subclass_of(Emp)
                if created and (is_pe or is_eff) and not o.fields.get("inlined") and o.oid not in added:
                    # a Branch installed as the statement of a statement-expression is rendered inline by its owner
                    missing.append(repr(o))
                for k in ("ops", "effect_ops", "effects"):
                    for ch in (o.fields.get(k) or []):
                        walk(ch, depth + 1)
                for k in ("src", "dest", "cond", "then", "otherwise", "control", "compound", "va", "data_var", "target", "hybrid_owner"):
                    if k in o.fields:
                        walk(o.fields[k], depth + 1)
            walk(p.value)
            for s in pend:
                walk(s)
            check.ob(f"{cb}#registered: every created executable pure / effect is registered in the holder", inst, p.ctx.pc, not missing, detail="; ".join(missing[:3]))


def gen_lemma(loader, check, replay_on=True):
    """coverage lemma over abstract node sets (solver only): contracts 3 + 4 imply both layouts initialise everything reachable"""
    Node = z3.DeclareSort("Node")
    x, e = z3.Const("x", Node), z3.Const("e", Node)
    Reach = z3.Function("ReachableFromSequence", Node, z3.BoolSort())           # executable pures reachable from instruction_sequence
    ReachEff = z3.Function("EffectReachableFromSequence", Node, z3.BoolSort())
    RegExec = z3.Function("InExecTable", Node, z3.BoolSort())
    RegWrite = z3.Function("InWriteTable", Node, z3.BoolSort())
    reach1 = z3.Function("ReachableFromEffect", Node, Node, z3.BoolSort())     # pure x reachable from effect e
    execl = z3.Function("InExecOpListOf", Node, Node, z3.BoolSort())
    InitA = z3.Function("InitialisedByExecClasses", Node, z3.BoolSort())
    InitB = z3.Function("InitialisedByReadStatements", Node, z3.BoolSort())
    hyp = [
        z3.ForAll([x], z3.Implies(Reach(x), RegExec(x))),                                             # 4. WF-registered (pures)
        z3.ForAll([e], z3.Implies(ReachEff(e), RegWrite(e))),                                          # 4. WF-registered (effects)
        z3.ForAll([x], Reach(x) == z3.Exists([e], z3.And(ReachEff(e), reach1(e, x)))),                 # definition of reachability through effects
        z3.ForAll([e, x], execl(e, x) == reach1(e, x)),                                                # 3. get_exec_op_list contract
        z3.ForAll([x], InitA(x) == RegExec(x)),                                                        # C12 fold: EXEC block = fold over the exec table
        z3.ForAll([x], InitB(x) == z3.Exists([e], z3.And(RegWrite(e), execl(e, x)))),                  # C12 fold: per write-table entry, its exec list
    ]
    check.ob("lemma#coverage: both layouts initialise every executable pure the final sequence reaches", "all holder states", hyp,
             z3.ForAll([x], z3.Implies(Reach(x), z3.And(InitA(x), InitB(x)))))
    check.instances_declared += 1
    check.instances_generated += 1


def gen_task(loader, check, what, replay_on=True):
    if what == "loops":
        c12.gen_emit_loops(loader, check, replay_on)
        return
    if what == "gcc":
        # a statement-expression guarded inside ?: keeps its operand list in sync (both layouts compute the declaration order from it)
        from . import c06
        c06.gen_selected(loader, check, replay_on)
        return
    if what == "frame":
        # the text a node emits does not depend on which other node was emitted before: emitters change nothing but read /
        # declaration counters (so the two layouts, which emit in different orders, render every node identically up to DUP)
        pass
        catalog.gen_pureexec(loader, check, replay_on)
        catalog.gen_leaf_reads(loader, check, replay_on)
        catalog.gen_misc_nodes(loader, check, replay_on)
        c05.gen_effect_emission(loader, check, replay_on)
        c05.gen_sequence(loader, check, replay_on)
        return
    {"shapes": gen_shapes, "den": gen_den_independent, "exec_list": gen_exec_list, "registered": gen_registered, "lemma": gen_lemma}[what](loader, check, replay_on)
    if what == "exec_list":
        # the induction uses flatten_list(x) == flat(x): proved here as well (recursive function, own contract for the recursive calls)
        c05.gen_flatten(loader, check, replay_on)


def generate_reduced(loader, check):
    check.ob_filter = FILTER
    for w in ("shapes", "den", "exec_list", "registered", "lemma", "frame", "gcc"):
        gen_task(loader, check, w, False)


def run(check: Check):
    check.trust("T-VCGEN: pyvc interpretation of the Python subset (mutant self-test)")
    check.trust("T-RZIL: den(DUP t) = den t; initialiser order within a C function body is irrelevant as long as declare-before-use holds (C11)")
    check.trust("T-IND: equal den of the bound instruction_sequence in both layouts follows from: same IR (callbacks are layout independent), "
                "every reachable node initialised exactly once in both (coverage lemma + C12 folds), texts of reads differ only by DUP")
    check.trust("T-IND (operand trees): get_exec_op_list(e) == concat(R(o) for o in e.effect_ops) for every finite, acyclic operand tree follows by structural "
                "induction from the one-level unfoldings of get_ops proved for every operand kind with the recursive calls replaced by the function's own contract")
    check.assume("A-NAMES: add_op through its contract; the holder ghost list 'added' is the registration record")
    check.ob_filter = FILTER
    check.run_parallel("contracts.c16", "gen_task", [{"what": w} for w in ("shapes", "den", "exec_list", "registered", "lemma", "loops", "frame", "gcc")], workers=WORKERS,
                       sink_attrs={"ob_filter": FILTER})
    run_mutants(check, MUTANTS, "contracts.c16", "generate_reduced")
    return check.finish(
        level="proof",
        rule="one obligation per (layout / node kind with symbolic read history / tree shape / callback, clause) plus the quantified coverage lemma")
