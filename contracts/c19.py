"""C19 - loading and splitting resolved shortcode loses nothing.

Functions under contract (PreprocessorHexagon.py): split_resolved_shortcode, split_compounds,
load_insn_behavior.  The regular expressions are taken from the *real source* (the pattern strings the
functions pass to re.search / re.match), translated mechanically with CPython's own sre parser into
SMT-LIB regular expressions and a decomposition of the subject string into one string variable per
top-level pattern item (T-RE).  The contracts state that the decomposition is *unique*, so the result
does not depend on Python's backtracking order; cvc5 (strings) discharges them for strings of every
length, z3's sequence solver is tried first.
"""
from __future__ import annotations
import os
import re
import z3

try:
    import re._parser as sre_parse
    import re._constants as sre_c
except ImportError:  # pragma: no cover
    import sre_parse
    import sre_constants as sre_c

from pyvc.interp import explore, NativeAbs, PyRaise, AbsSeq, AbsAccDict, LoopContract
from pyvc.loader import Loader
from pyvc.values import Obj, ExcVal, Unsupported, SBool, SInt
from pyvc.vc import Check
from pyvc import replay
from .common import WORKERS, run_mutants

PROP = "C19"
Z3_TIMEOUT_MS = 1500
CVC5_TIMEOUT_MS = 60000
STRING_REFUTE_BOUND = 4
M_PP = "rzilcompiler.Preprocessor.Hexagon.PreprocessorHexagon"
MARK = "__COMPOUND_PART1__"

MUTANTS = [
    {"name": "split_resolved_shortcode: body group stops at the first ')'", "file": "rzilcompiler/Preprocessor/Hexagon/PreprocessorHexagon.py",
     "old": 'match = re.search(rf"insn\\((\\w+), (.+)\\)$", line, re.ASCII)', "new": 'match = re.search(rf"insn\\((\\w+), ([^)]+)\\)", line, re.ASCII)'},
    {"name": "split_resolved_shortcode: not anchored at the end", "file": "rzilcompiler/Preprocessor/Hexagon/PreprocessorHexagon.py",
     "old": 'match = re.search(rf"insn\\((\\w+), (.+)\\)$", line, re.ASCII)', "new": 'match = re.search(rf"insn\\((\\w+), (.+?)\\)", line, re.ASCII)'},
    {"name": "split_resolved_shortcode: returns groups swapped", "file": "rzilcompiler/Preprocessor/Hexagon/PreprocessorHexagon.py",
     "old": "        return match.group(1), match.group(2)", "new": "        return match.group(2), match.group(1)"},
    {"name": "split_resolved_shortcode: malformed line yields an empty pair instead of raising", "file": "rzilcompiler/Preprocessor/Hexagon/PreprocessorHexagon.py",
     "old": '            raise ValueError(f"Could not split shrtcode line: {line}")', "new": '            return "", ""'},
    {"name": "split_compounds: second part loses its closing text", "file": "rzilcompiler/Preprocessor/Hexagon/PreprocessorHexagon.py",
     "old": 'beh_p2 = "{" + match.group(2) + "}"', "new": 'beh_p2 = "{" + match.group(1) + "}"'},
    {"name": "split_compounds: first part without braces", "file": "rzilcompiler/Preprocessor/Hexagon/PreprocessorHexagon.py",
     "old": '__COMPOUND_PART1__(\\{.+})__COMPOUND_PART1__(.*)}$', "new": '__COMPOUND_PART1__\\{(.+)}__COMPOUND_PART1__(.*)}$'},
    {"name": "load_insn_behavior: lines starting with '/' are skipped as well", "file": "rzilcompiler/Preprocessor/Hexagon/PreprocessorHexagon.py",
     "old": '                if line[0] == "#":\n                    continue', "new": '                if line[0] == "#" or line[0] == "/":\n                    continue'},
    {"name": "load_insn_behavior: compound detection by a different marker", "file": "rzilcompiler/Preprocessor/Hexagon/PreprocessorHexagon.py",
     "old": '                if "__COMPOUND_PART1__" not in insn_beh:', "new": '                if "__COMPOUND_PART2__" not in insn_beh:'},
    {"name": "load_insn_behavior: second part dropped", "file": "rzilcompiler/Preprocessor/Hexagon/PreprocessorHexagon.py",
     "old": "                self.behaviors[insn_name] = [ib1, ib2]", "new": "                self.behaviors[insn_name] = [ib1]"},
    {"name": "load_insn_behavior: behaviours stored under a shortened name", "file": "rzilcompiler/Preprocessor/Hexagon/PreprocessorHexagon.py",
     "old": "                    self.behaviors[insn_name] = [insn_beh]\n                    continue", "new": "                    self.behaviors[insn_name[1:]] = [insn_beh]\n                    continue"},
]

ASCII_ANY = z3.Range("\x00", "\x7f")
NOT_NL = z3.Union(z3.Range("\x00", "\x09"), z3.Range("\x0b", "\x7f"))
WORD = z3.Union(z3.Range("a", "z"), z3.Range("A", "Z"), z3.Range("0", "9"), z3.Re("_"))
DIGIT = z3.Range("0", "9")
SPACE = z3.Union(*[z3.Re(c) for c in " \t\n\r\x0b\x0c"])


def sv(s):
    return z3.StringVal(s)


def _cfg(ctx):
    ctx.assume_feasible = True


class RegexTranslator:
    """sre parse tree -> list of top-level items (kind, z3 regex | literal, group index | None)."""

    def __init__(self, pattern, flags=0):
        self.tree = sre_parse.parse(pattern, flags)
        self.items = []
        self.anchored_end = False
        for op, av in self.tree:
            if op is sre_c.AT:
                if av in (sre_c.AT_END,):
                    self.anchored_end = True
                    continue
                raise Unsupported(f"regex anchor {av}")
            if op is sre_c.SUBPATTERN:
                gid, _, _, sub = av
                self.items.append(("group", self.seq(sub), gid))
            else:
                self.items.append(("item", self.node(op, av), None))

    def seq(self, sub):
        rs = [self.node(op, av) for op, av in sub]
        return z3.Concat(*rs) if len(rs) > 1 else rs[0]

    def node(self, op, av):
        if op is sre_c.LITERAL:
            return z3.Re(chr(av))
        if op is sre_c.ANY:
            return NOT_NL
        if op is sre_c.IN:
            neg = False
            parts = []
            for o, a in av:
                if o is sre_c.NEGATE:
                    neg = True
                elif o is sre_c.LITERAL:
                    parts.append(z3.Re(chr(a)))
                elif o is sre_c.RANGE:
                    parts.append(z3.Range(chr(a[0]), chr(a[1])))
                elif o is sre_c.CATEGORY:
                    parts.append(self.category(a))
                else:
                    raise Unsupported(f"regex class item {o}")
            u = z3.Union(*parts) if len(parts) > 1 else parts[0]
            return z3.Intersect(ASCII_ANY, z3.Complement(u)) if neg else u
        if op in (sre_c.MAX_REPEAT, sre_c.MIN_REPEAT):
            lo, hi, sub = av
            r = self.seq(sub)
            if lo == 0 and hi is sre_c.MAXREPEAT:
                return z3.Star(r)
            if lo == 1 and hi is sre_c.MAXREPEAT:
                return z3.Plus(r)
            if lo == 0 and hi == 1:
                return z3.Option(r)
            raise Unsupported("regex repeat bounds")
        if op is sre_c.SUBPATTERN:
            return self.seq(av[3])
        if op is sre_c.CATEGORY:
            return self.category(av)
        raise Unsupported(f"regex node {op}")

    def category(self, a):
        if a is sre_c.CATEGORY_WORD:
            return WORD
        if a is sre_c.CATEGORY_DIGIT:
            return DIGIT
        if a is sre_c.CATEGORY_SPACE:
            return SPACE
        if a is sre_c.CATEGORY_NOT_WORD:
            return z3.Intersect(ASCII_ANY, z3.Complement(WORD))
        raise Unsupported(f"regex category {a}")

    def whole(self):
        rs = [r for _, r, _ in self.items]
        return z3.Concat(*rs) if len(rs) > 1 else rs[0]


class SymStr(NativeAbs):
    pytype = str

    def __init__(self, t, ghost=None):
        self.t = t if z3.is_expr(t) else sv(t)
        self.ghost = ghost or {}

    def getitem(self, it, k):
        if isinstance(k, int) and k >= 0:
            # indexing an empty string raises IndexError in Python
            if it.ctx.branch(z3.Length(self.t) <= k):
                raise PyRaise(ExcVal(IndexError, ["string index out of range"]))
            return SymStr(z3.SubString(self.t, k, 1))
        raise Unsupported("string index")

    def eq_term(self, it, other):
        o = other.t if isinstance(other, SymStr) else (sv(other) if isinstance(other, str) else None)
        if o is None:
            return False
        return self.t == o

    def contains(self, it, item):
        o = item.t if isinstance(item, SymStr) else (sv(item) if isinstance(item, str) else None)
        if o is None:
            raise Unsupported("in on symbolic string")
        return z3.Contains(self.t, o)

    def binop(self, it, T, other, reflected):
        import ast
        if T is not ast.Add:
            raise Unsupported("string operator")
        o = other.t if isinstance(other, SymStr) else (sv(other) if isinstance(other, str) else None)
        if o is None:
            raise Unsupported("concat with non-string")
        return SymStr(z3.Concat(o, self.t) if reflected else z3.Concat(self.t, o))

    def truth_term(self, it):
        return z3.Length(self.t) > 0

    def to_str(self, it):
        return "<symbolic string>"

    def getattr(self, it, name):
        if name == "startswith":
            return _StartsWith(self)
        raise Unsupported(f"SymStr.{name}")


class _StartsWith(NativeAbs):
    def __init__(self, s):
        self.s = s

    def call(self, it, args, kwargs):
        o = args[0].t if isinstance(args[0], SymStr) else sv(args[0])
        return SBool(z3.PrefixOf(o, self.s.t))


class _Dummy:
    pass


class SymMatch(NativeAbs):
    def __init__(self, groups):
        self.groups = groups

    def getattr(self, it, name):
        if name == "group":
            return _Group(self)
        raise Unsupported(f"Match.{name}")

    def truth_term(self, it):
        return True


class _Group(NativeAbs):
    def __init__(self, m):
        self.m = m

    def call(self, it, args, kwargs):
        return SymStr(self.m.groups[args[0]])


def search_lang(pat, flags=0, kind="search"):
    """the language of subjects in which re.<kind>(pat) finds a match (same term the stub branches on)"""
    tr = RegexTranslator(pat, int(flags))
    anyc = z3.Star(z3.AllChar(z3.ReSort(z3.StringSort())))
    tail_lang = z3.Union(z3.Re(""), z3.Re("\n")) if tr.anchored_end else anyc
    pre_lang = anyc if kind == "search" else z3.Re("")
    return z3.Concat(pre_lang, tr.whole(), tail_lang), tr, tail_lang, pre_lang


def re_stub(kind, seen):
    """Contract of re.search / re.match for a symbolic subject (T-RE).
    Fork: the subject has a match -> fresh string variables for every top-level pattern item, constrained by
    the item's regex, concatenating (with the prefix for search and the $-tail) to the subject;
    no match -> the subject is not in the search language."""
    def stub(it, fn, args, kwargs):
        pat, subj = args[0], args[1]
        flags = args[2] if len(args) > 2 else 0
        if not isinstance(subj, SymStr):
            if isinstance(subj, str) and isinstance(pat, str):
                return fn(*args, **kwargs)
            raise Unsupported("re with non-symbolic subject")
        lang, tr, tail_lang, pre_lang = search_lang(pat, flags, kind)
        seen.append((kind, pat, int(flags)))
        it.ctx.stats["assumed_calls"][f"re.{kind} semantics via sre_parse -> SMT regex (T-RE)"] = 1
        n = it.ctx.fresh_name("m")
        if it.ctx.branch(z3.InRe(subj.t, lang)):
            vs = []
            groups = {}
            for i, (k, r, gid) in enumerate(tr.items):
                v = z3.String(f"{n}_p{i}")
                it.ctx.assume(z3.InRe(v, r))
                vs.append(v)
                if gid is not None:
                    groups[gid] = v
            pre = z3.String(f"{n}_pre")
            tail = z3.String(f"{n}_tail")
            it.ctx.assume(z3.InRe(tail, tail_lang))
            if kind == "match":
                it.ctx.assume(pre == sv(""))
            it.ctx.assume(subj.t == z3.Concat(pre, *vs, tail))
            m = SymMatch(groups)
            m.pre = pre
            it.ctx.ghost_matches = getattr(it.ctx, "ghost_matches", []) + [m]
            return m
        return None
    return stub


def install_re(it, seen):
    it.ctx.contracts["re.search"] = re_stub("search", seen)
    it.ctx.contracts["re.match"] = re_stub("match", seen)


def no_marker(x):
    return z3.Not(z3.Contains(x, sv(MARK)))


# ------------------------------------------------------------------------------------------
def gen_split_line(loader, check, replay_on=True):
    PP = loader.load(M_PP).globals["PreprocessorHexagon"]
    f = PP.methods["split_resolved_shortcode"]
    check.under_contract(loader, f)
    N, B, NL = z3.String("NAME"), z3.String("BODY"), z3.String("NL")
    seen = []

    # (1) every well-formed line yields exactly (NAME, BODY)
    check.instances_declared += 1

    def setup(it):
        install_re(it, seen)
        it.ctx.assume(z3.InRe(N, z3.Plus(WORD)))
        it.ctx.assume(z3.InRe(B, z3.Plus(NOT_NL)))
        it.ctx.assume(z3.Or(NL == sv(""), NL == sv("\n")))
        return SymStr(z3.Concat(sv("insn("), N, sv(", "), B, sv(")"), NL))
    ex = explore(loader, setup, lambda it, line: it.call(f, [line], {}), configure=_cfg)
    check.absorb(ex, "split_resolved_shortcode well-formed line")
    if ex.paths:
        check.instances_generated += 1
    outcomes = set()
    for i, p in enumerate(ex.paths):
        pi = f"well-formed line path={i}"
        pc = list(p.ctx.pc)
        outcomes.add(p.outcome)
        rp = ("c19.split_line", lambda mdl: {"name": str(mdl.get("NAME", "a")), "body": str(mdl.get("BODY", "b")), "nl": str(mdl.get("NL", ""))}) if replay_on else None
        # leftmost-match rule of re.search: the line itself starts with a match, so the chosen match starts at 0
        for m in getattr(p.ctx, "ghost_matches", []):
            pc.append(m.pre == sv(""))
        check.ob("split_resolved_shortcode#total-on-well-formed-lines", pi, pc, p.outcome == "return", replay=rp,
                 detail="" if p.outcome == "return" else f"raises {p.value!r}")
        if p.outcome != "return":
            continue
        r = p.value
        ok = isinstance(r, tuple) and len(r) == 2 and all(isinstance(x, SymStr) for x in r)
        check.ob("split_resolved_shortcode#returns-pair", pi, pc, ok)
        if ok:
            check.ob("split_resolved_shortcode#ensures.name", pi, pc, r[0].t == N, replay=rp)
            check.ob("split_resolved_shortcode#ensures.body", pi, pc, r[1].t == B, replay=rp)
    # (2) a line that is not of the insn(NAME, BODY) form is rejected (ValueError), never split
    check.instances_declared += 1
    L = z3.String("LINE")
    wf = z3.Concat(z3.Star(z3.AllChar(z3.ReSort(z3.StringSort()))), z3.Re("insn("), z3.Plus(WORD), z3.Re(", "), z3.Plus(NOT_NL), z3.Re(")"),
                   z3.Union(z3.Re(""), z3.Re("\n")))

    def setup2(it):
        install_re(it, seen)
        it.ctx.assume(z3.Not(z3.InRe(L, wf)))
        return SymStr(L)
    ex = explore(loader, setup2, lambda it, line: it.call(f, [line], {}), configure=_cfg)
    check.absorb(ex, "split_resolved_shortcode malformed line")
    if ex.paths:
        check.instances_generated += 1
    for i, p in enumerate(ex.paths):
        pi = f"malformed line path={i}"
        rp = ("c19.malformed", lambda mdl: {"line": str(mdl.get("LINE", "x"))}) if replay_on else None
        ok = p.outcome == "raise" and p.value.cls is ValueError
        check.ob("split_resolved_shortcode#malformed-line-raises-ValueError", pi, p.ctx.pc, ok, replay=rp,
                 detail=f"outcome {p.outcome} {p.value!r}")
    for name, body, nl in (("A2_add", "{ RdV = RsV + RtV; }", "\n"), ("J2_x", "{ f(a, (b), c); g(\"), \"); }", ""), ("S2_y", "{ if (x) { insn(Q, z) } }", "\n"),
                           ("a", ")", ""), ("V6_z", "{ a = b ? (c) : d; })", "\n")):
        inst = f"ground name={name!r} body={body!r}"
        check.instances_declared += 1
        ex = explore(loader, lambda it, name=name, body=body, nl=nl: f"insn({name}, {body}){nl}", lambda it, line: it.call(f, [line], {}))
        check.absorb(ex, f"split_resolved_shortcode {inst}")
        if ex.paths:
            check.instances_generated += 1
        for p in ex.paths:
            rp = ("c19.split_line", lambda mdl, name=name, body=body, nl=nl: {"name": name, "body": body, "nl": nl}) if replay_on else None
            check.ob("split_resolved_shortcode#ensures.ground-witness", inst, p.ctx.pc, p.outcome == "return" and p.value == (name, body), replay=rp,
                     detail=f"{p.outcome} {p.value!r}")
    check.extra["regexes_translated"] = sorted({f"re.{k}({pt!r}, flags={fl})" for k, pt, fl in seen})


def gen_split_compounds(loader, check, replay_on=True):
    PP = loader.load(M_PP).globals["PreprocessorHexagon"]
    f = PP.methods["split_compounds"]
    check.under_contract(loader, f)
    PRE, P1, REST = z3.String("PRE"), z3.String("P1"), z3.String("REST")
    seen = []
    # text before the first marker: empty (all P1, REST symbolic) and two concrete witness classes (fully ground, so the
    # verdict cannot depend on solver search): the general statement is false on this tree (known finding F20)
    for pre_case in ("empty", "witness(a;)", "witness(x = 1; )"):
        inst = f"text-before-first-marker={pre_case}"
        check.instances_declared += 1

        def setup(it, pre_case=pre_case):
            install_re(it, seen)
            if pre_case == "empty":
                for x in (P1, REST):
                    it.ctx.assume(z3.InRe(x, z3.Star(NOT_NL)))
                    it.ctx.assume(no_marker(x))
                it.ctx.assume(z3.Length(P1) > 0)
                it.ctx.assume(PRE == sv(""))
            else:
                it.ctx.assume(PRE == sv(pre_case[len("witness("):-1]))
                it.ctx.assume(P1 == sv("b;"))
                it.ctx.assume(REST == sv("c;"))
            return SymStr(z3.Concat(sv("{"), PRE, sv(MARK), sv("{"), P1, sv("}"), sv(MARK), REST, sv("}")))
        ex = explore(loader, setup, lambda it, beh: it.call(f, [beh], {}), configure=_cfg)
        check.absorb(ex, f"split_compounds {inst}")
        if ex.paths:
            check.instances_generated += 1
        for i, p in enumerate(ex.paths):
            pi = f"{inst} path={i}"
            pc = p.ctx.pc
            wit = pre_case[len("witness("):-1] if pre_case != "empty" else None
            rp = ("c19.compound", lambda mdl, wit=wit: {"pre": wit if wit is not None else str(mdl.get("PRE", "")),
                                                         "p1": "b;" if wit is not None else str(mdl.get("P1", "a")),
                                                         "rest": "c;" if wit is not None else str(mdl.get("REST", ""))}) if replay_on else None
            check.ob("split_compounds#total-on-two-marker-bodies", pi, pc, p.outcome == "return", replay=rp,
                     detail="" if p.outcome == "return" else f"raises {p.value!r}")
            if p.outcome != "return":
                continue
            r = p.value
            ok = isinstance(r, tuple) and len(r) == 2 and all(isinstance(x, SymStr) for x in r)
            check.ob("split_compounds#returns-pair", pi, pc, ok)
            if not ok:
                continue
            check.ob("split_compounds#ensures.part1-is-the-marked-block", pi, pc, r[0].t == z3.Concat(sv("{"), P1, sv("}")), replay=rp)
            check.ob("split_compounds#ensures.part2-is-the-rest-in-braces", pi, pc, r[1].t == z3.Concat(sv("{"), REST, sv("}")), replay=rp)
            # nothing lost: statements of part1 followed by those of part2 == the body with only the markers removed
            inner2 = z3.SubString(r[1].t, 1, z3.Length(r[1].t) - 2)
            orig_wo_markers = z3.Concat(PRE, sv("{"), P1, sv("}"), REST)
            check.ob("split_compounds#ensures.nothing-lost", pi, pc, z3.Concat(r[0].t, inner2) == orig_wo_markers, replay=rp)
    # ground witness classes (nested braces, statement-expressions, empty rest): fully concrete, so verdicts never depend on solver search
    for p1, rest in (("a;", ""), ("if (x) { y; } z;", "c;"), ("{ }", "if (c) { d; }"), ("for (i = 0; i < 2; i++) { RdV = ({ x; }); }", "{ e; } f;"),
                     ("P0 = cmp(RsV, (1, 2));", "if (P0) { JUMP(riV); }"),
                     # the rest starts with a block and ends with a brace but consists of several top-level items
                     ("a;", "{ b; } { c; }"), ("a;", "{ b; } if (c) { d; }"), ("a;", " { b; } for (i = 0; i < 2; i++) { c; } ")):
        inst = f"ground part1={p1!r} rest={rest!r}"
        check.instances_declared += 1

        def setupg(it, p1=p1, rest=rest):
            return "{" + MARK + "{" + p1 + "}" + MARK + rest + "}"
        ex = explore(loader, setupg, lambda it, beh: it.call(f, [beh], {}))
        check.absorb(ex, f"split_compounds {inst}")
        if ex.paths:
            check.instances_generated += 1
        for p in ex.paths:
            rp = ("c19.compound", lambda mdl, p1=p1, rest=rest: {"pre": "", "p1": p1, "rest": rest}) if replay_on else None
            ok = p.outcome == "return" and p.value == ("{" + p1 + "}", "{" + rest + "}")
            check.ob("split_compounds#ensures.ground-witness", inst, p.ctx.pc, ok, replay=rp, detail=f"{p.outcome} {p.value!r}")
    check.extra.setdefault("regexes_translated", [])
    check.extra["regexes_translated"] = sorted(set(check.extra["regexes_translated"]) | {f"re.{k}({pt!r}, flags={fl})" for k, pt, fl in seen})
    check.notes.append("brace balance of the two parts follows from the exact decomposition: part1 == '{' P1 '}' and part2 == '{' REST '}' "
                       "are balanced whenever P1 and REST are (lemma on balanced strings, metatheory)")


class LinesLoop(LoopContract):
    """for line in f.readlines(): ...   invariant: behaviors == {NAME_i: parts(BODY_i)} for all non-comment lines i < k"""
    name = "load_insn_behavior.lines"

    def __init__(self, kinds):
        self.kinds = kinds

    def element_kinds(self):
        return self.kinds

    def havoc_prefix(self, it, env, seq):
        k = z3.Int("k")
        it.ctx.assume(z3.And(k >= 0, k < seq.length))
        self.acc = AbsAccDict("behaviors", {"spec": "entries of lines[0:k]"})
        env.vars["self"].fields["behaviors"] = self.acc

    def make_element(self, it, kind, seq):
        N, B = z3.String("NAME"), z3.String("BODY")
        it.ctx.assume(z3.InRe(N, z3.Plus(WORD)))
        it.ctx.assume(z3.InRe(B, z3.Plus(NOT_NL)))
        if kind == "comment":
            c = z3.String("COMMENT")
            return SymStr(z3.Concat(sv("#"), c), {"wf": False, "comment": True})
        if kind == "simple":
            it.ctx.assume(no_marker(B))
            return SymStr(z3.Concat(sv("insn("), N, sv(", "), B, sv(")\n")), {"wf": True, "name": N, "body": B, "compound": None})
        if kind == "compound":
            P1, REST = z3.String("P1"), z3.String("REST")
            for x in (P1, REST):
                it.ctx.assume(z3.InRe(x, z3.Star(NOT_NL)))
                it.ctx.assume(no_marker(x))
            it.ctx.assume(z3.Length(P1) > 0)
            Bc = z3.Concat(sv("{"), sv(MARK), sv("{"), P1, sv("}"), sv(MARK), REST, sv("}"))
            it.ctx.assume(B == Bc)
            return SymStr(z3.Concat(sv("insn("), N, sv(", "), Bc, sv(")\n")), {"wf": True, "name": N, "body": Bc, "compound": (P1, REST)})
        if kind == "malformed":
            L = z3.String("LINE")
            wf = z3.Concat(z3.Star(z3.AllChar(z3.ReSort(z3.StringSort()))), z3.Re("insn("), z3.Plus(WORD), z3.Re(", "), z3.Plus(NOT_NL), z3.Re(")"),
                           z3.Union(z3.Re(""), z3.Re("\n")))
            it.ctx.assume(z3.Not(z3.InRe(L, wf)))
            it.ctx.assume(z3.Length(L) > 0)
            it.ctx.assume(z3.Not(z3.PrefixOf(sv("#"), L)))
            return SymStr(L, {"wf": False})
        raise ValueError(kind)

    def check_step(self, it, env, seq, kind, elem, broke):
        N, B = z3.String("NAME"), z3.String("BODY")
        tail = self.acc.tail
        pc_extra = [m.pre == sv("") for m in getattr(it.ctx, "ghost_matches", [])]
        if kind == "comment":
            self.oblige(it, "load_insn_behavior#loop.step.comment-line-adds-nothing", "", len(tail) == 0)
        elif kind == "malformed":
            self.oblige(it, "load_insn_behavior#loop.step.malformed-line-is-not-skipped", "", False,
                        detail="a malformed line was processed without raising")
        else:
            ok = len(tail) == 1 and isinstance(tail[0][0], SymStr)
            self.oblige(it, "load_insn_behavior#loop.step.one-entry", "", ok, detail=repr(tail))
            if ok:
                key, val = tail[0]
                self.oblige(it, "load_insn_behavior#loop.step.key-is-NAME", "", z3.Implies(z3.And(*pc_extra) if pc_extra else z3.BoolVal(True), key.t == N))
                if kind == "simple":
                    good = isinstance(val, list) and len(val) == 1 and isinstance(val[0], SymStr)
                    self.oblige(it, "load_insn_behavior#loop.step.simple-body-kept-whole", "",
                                z3.Implies(z3.And(*pc_extra) if pc_extra else z3.BoolVal(True), val[0].t == B) if good else False)
                else:
                    P1, REST = z3.String("P1"), z3.String("REST")
                    good = isinstance(val, list) and len(val) == 2 and all(isinstance(x, SymStr) for x in val)
                    self.oblige(it, "load_insn_behavior#loop.step.compound-two-parts", "",
                                z3.Implies(z3.And(*pc_extra) if pc_extra else z3.BoolVal(True),
                                           z3.And(val[0].t == z3.Concat(sv("{"), P1, sv("}")), val[1].t == z3.Concat(sv("{"), REST, sv("}")))) if good else False)

    def havoc_exit(self, it, env, seq):
        env.vars["self"].fields["behaviors"] = AbsAccDict("behaviors", {"spec": "entries of all lines", "all": True})


def split_line_contract(it, f, args, kwargs):
    """Contract of split_resolved_shortcode (discharged in gen_split_line): a well-formed line 'insn(NAME, BODY)[\\n]' yields
    exactly (NAME, BODY); any other line raises ValueError."""
    line = args[-1]
    g = getattr(line, "ghost", {})
    if g.get("wf"):
        return (SymStr(g["name"]), SymStr(g["body"], {"compound": g.get("compound")}))
    raise PyRaise(ExcVal(ValueError, ["Could not split shrtcode line"]))


def split_compounds_contract(it, f, args, kwargs):
    """Contract of split_compounds (discharged in gen_split_compounds) for bodies '{' M '{' P1 '}' M REST '}' (nothing before
    the first marker): returns ('{' P1 '}', '{' REST '}')."""
    beh = args[-1]
    c = getattr(beh, "ghost", {}).get("compound")
    if not c:
        it.ctx.obligations.append(("load_insn_behavior#requires(split_compounds): body has the two-marker form", "", False, "called on a body without markers"))
        raise PyRaise(ExcVal(AttributeError, ["'NoneType' object has no attribute 'group'"]))
    P1, REST = c
    return (SymStr(z3.Concat(sv("{"), P1, sv("}"))), SymStr(z3.Concat(sv("{"), REST, sv("}"))))


def gen_load(loader, check, replay_on=True):
    PP = loader.load(M_PP).globals["PreprocessorHexagon"]
    f = PP.methods["load_insn_behavior"]
    check.under_contract(loader, f)
    seen = []
    check.instances_declared += 1
    kinds = ["comment", "simple", "compound", "malformed"]

    class _F(NativeAbs):
        def __init__(self, lines):
            self.lines = lines

        def getattr(self, it, name):
            if name == "readlines":
                return _C(self.lines)
            raise Unsupported(name)

    class _C(NativeAbs):
        def __init__(self, v):
            self.v = v

        def call(self, it, args, kwargs):
            return self.v

    def with_hook(it, s, env):
        env.vars[s.items[0].optional_vars.id] = _F(env.vars["__lines__"])
        it.exec_block(s.body, env)

    def setup(it):
        it.ctx.contracts[f"{M_PP}.PreprocessorHexagon.split_resolved_shortcode"] = split_line_contract
        it.ctx.contracts[f"{M_PP}.PreprocessorHexagon.split_compounds"] = split_compounds_contract
        pp = Obj(PP)
        pp.fields["behaviors"] = {}
        pp.fields["shortcode_path"] = "x"
        lines = AbsSeq("lines", LinesLoop(kinds))
        it.ctx.assume(lines.length >= 0)
        it.ctx.with_hook = lambda it_, s, env: (env.vars.__setitem__("__lines__", lines), with_hook(it_, s, env))[1]
        return pp
    ex = explore(loader, setup, lambda it, pp: it.call(it.getattr_(pp, "load_insn_behavior"), [], {}), configure=_cfg)
    check.absorb(ex, "load_insn_behavior")
    if ex.paths:
        check.instances_generated += 1
    seen_kinds = set()
    for i, p in enumerate(ex.paths):
        pi = f"lines=any path={i}"
        check.path_obligations(p, pi)
        seen_kinds.add(p.outcome)
        if p.outcome == "raise":
            # only a malformed line may make loading raise, and it raises ValueError
            dec = [str(c) for c in p.ctx.pc if "loop!" in str(c)]
            ok = p.value.cls is ValueError
            check.ob("load_insn_behavior#raises-only-ValueError-for-malformed-lines", pi, p.ctx.pc, ok, detail=f"{p.value!r}")
    check.ob("load_insn_behavior#loop.paths: steps, rejection and exit explored", "lines=any", [],
             {"loop-step", "raise", "return"} <= seen_kinds, detail=str(seen_kinds))


def gen_corpus(loader, check, replay_on=True):
    """Ground obligations over the bundled file: the real functions against an independent splitter."""
    from rzilcompiler.Preprocessor.Hexagon.PreprocessorHexagon import PreprocessorHexagon as P
    path = os.path.join(loader.repo, "Resources/Hexagon/Preprocessor/shortcode_resolved.h")
    n = nc = 0
    bad = []
    with open(path) as fh:
        for line in fh:
            if line[0] == "#":
                continue
            n += 1
            body_start = line.index(", ") + 2
            name = line[len("insn("):line.index(", ")]
            body = line.rstrip("\n")[body_start:-1]
            try:
                r = P.split_resolved_shortcode(line)
            except Exception as e:
                r = e
            if r != (name, body):
                bad.append(f"{name}: {r!r}")
            if MARK in body:
                nc += 1
                p1, p2 = P.split_compounds(body)
                a = body.index(MARK)
                b = body.index(MARK, a + 1)
                e1, e2 = body[a + len(MARK):b], "{" + body[b + len(MARK):-1] + "}"
                if (p1, p2) != (e1, e2) or body[:a] != "{":
                    bad.append(f"compound {name}")
    check.ob("corpus#every-bundled-line-splits-into-NAME-BODY", f"{n} lines, {nc} compounds", [], not bad, detail="; ".join(bad[:3]))
    check.extra["corpus_lines"] = n
    check.extra["corpus_compounds"] = nc
    check.instances_declared += 1
    check.instances_generated += 1


# ------------------------------------------------------------------------------------------ replay
@replay.register("c19.split_line")
def replay_split_line(a):
    from rzilcompiler.Preprocessor.Hexagon.PreprocessorHexagon import PreprocessorHexagon as P
    line = f"insn({a['name']}, {a['body']}){a['nl']}"
    try:
        r = P.split_resolved_shortcode(line)
    except Exception as e:
        return True, f"split_resolved_shortcode({line!r}) raised {type(e).__name__}"
    return r != (a["name"], a["body"]), f"split_resolved_shortcode({line!r}) = {r!r}; expected {(a['name'], a['body'])!r}"


@replay.register("c19.malformed")
def replay_malformed(a):
    from rzilcompiler.Preprocessor.Hexagon.PreprocessorHexagon import PreprocessorHexagon as P
    if re.search(r"insn\(\w+, [^\n]+\)\n?$", a["line"], re.ASCII) and re.search(r"insn\(\w+, [^\n]+\)\n?\Z", a["line"], re.ASCII):
        return False, "model line is well-formed"
    try:
        r = P.split_resolved_shortcode(a["line"])
    except ValueError:
        return False, "rejected with ValueError"
    except Exception as e:
        return True, f"raised {type(e).__name__} instead of ValueError"
    return True, f"malformed line {a['line']!r} was split into {r!r}"


@replay.register("c19.compound")
def replay_compound(a):
    from rzilcompiler.Preprocessor.Hexagon.PreprocessorHexagon import PreprocessorHexagon as P
    beh = "{" + a["pre"] + MARK + "{" + a["p1"] + "}" + MARK + a["rest"] + "}"
    try:
        p1, p2 = P.split_compounds(beh)
    except Exception as e:
        return True, f"split_compounds({beh!r}) raised {type(e).__name__}"
    orig = a["pre"] + "{" + a["p1"] + "}" + a["rest"]
    lost = (p1 + p2[1:-1]) != orig
    return lost or p1 != "{" + a["p1"] + "}" or p2 != "{" + a["rest"] + "}", \
        f"split_compounds({beh!r}) = ({p1!r}, {p2!r}); statements of the body without markers: {orig!r}"


def gen_state(loader, check, replay_on=True):
    """what is loaded depends only on the file: the loader keeps no class- or module-level mutable state that a second
    PreprocessorHexagon (a second Compiler in the process) would inherit, and no memoisation"""
    import ast
    from .c14 import is_mutable_container_expr, init_closure_assigned
    from pyvc.loader import _is_cache_decorator, ClassInfo, FuncInfo
    m = loader.load(M_PP)
    PP = m.globals["PreprocessorHexagon"]
    bad = []
    assigned = init_closure_assigned(PP)
    for a, e in PP.attr_exprs.items():
        if is_mutable_container_expr(e) and a not in assigned:
            bad.append(f"class-level container PreprocessorHexagon.{a} is not re-bound in __init__")
    for node in m.tree.body:
        if isinstance(node, (ast.Assign, ast.AnnAssign)) and node.value is not None and is_mutable_container_expr(node.value):
            bad.append(f"module-level container (line {node.lineno})")
    for node in ast.walk(m.tree):
        if isinstance(node, ast.Global):
            bad.append(f"global statement (line {node.lineno})")
        if isinstance(node, ast.FunctionDef) and any(_is_cache_decorator(d) for d in node.decorator_list):
            bad.append(f"memoised function {node.name}")
    rp = ("c19.two_instances", lambda mdl: {}) if replay_on else None
    check.ob("load_insn_behavior#reads: no class-/module-level mutable state or memoisation in PreprocessorHexagon.py", "PreprocessorHexagon.py", [], not bad,
             replay=rp, detail="; ".join(bad))
    check.instances_declared += 1
    check.instances_generated += 1


@replay.register("c19.two_instances")
def replay_two_instances(a):
    import tempfile
    from rzilcompiler.Preprocessor.Hexagon.PreprocessorHexagon import PreprocessorHexagon
    from rzilcompiler.Configuration import Conf
    lines = "insn(A_one, { RdV = RsV; })\ninsn(B_two, { RdV = RtV; })\n"
    with tempfile.NamedTemporaryFile("w", suffix=".h", delete=False) as fh:
        fh.write(lines)
        path = fh.name
    orig = Conf.get_path
    try:
        Conf.get_path = staticmethod(lambda *args, **kw: __import__("pathlib").Path(path))
        res = []
        for _ in range(2):
            pp = PreprocessorHexagon(path)
            pp.load_insn_behavior()
            res.append(dict(pp.behaviors))
    finally:
        Conf.get_path = orig
        os.unlink(path)
    return res[0] != res[1], f"first instance loads {sorted(res[0])}, a second instance in the same process loads {sorted(res[1])}"


def gen_task(loader, check, what, replay_on=True):
    {"line": gen_split_line, "compound": gen_split_compounds, "load": gen_load, "corpus": gen_corpus, "state": gen_state}[what](loader, check, replay_on)


def generate_reduced(loader, check):
    for w in ("line", "compound", "load", "corpus", "state"):
        gen_task(loader, check, w, False)


def run(check: Check):
    check.trust("T-VCGEN: pyvc interpretation of the Python subset (mutant self-test, native replay)")
    check.trust("T-RE: re.search / re.match semantics: mechanical translation of the real pattern strings (CPython sre parser) into SMT-LIB "
                "regular expressions, one string variable per top-level item, `$` = end or before a final newline, `.` = any char "
                "but newline, re.ASCII classes; leftmost rule: a subject that starts with a match is matched at offset 0. "
                "Because the contracts prove the decomposition unique, greedy/lazy backtracking order is irrelevant.")
    check.assume("strings range over ASCII (the bundled file is ASCII); BODY contains no newline; compound bodies contain exactly two markers")
    check.assume("the string obligations are discharged by cvc5 (--strings-exp) when z3's sequence solver answers unknown")
    check.run_parallel("contracts.c19", "gen_task", [{"what": w} for w in ("line", "compound", "load", "corpus", "state")], workers=WORKERS)
    run_mutants(check, MUTANTS, "contracts.c19", "generate_reduced")
    return check.finish(
        level="proof",
        rule="one obligation per (function, input class, path, clause); strings symbolic (unbounded length) over ASCII")
