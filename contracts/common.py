"""Shared helpers of the sidecar contracts: symbolic ValueType objects, type tables, mutant runner."""
from __future__ import annotations
import os
import z3

from pyvc.loader import Loader
from pyvc.values import Obj, SInt, SBool
from pyvc.vc import Ob, Check
from spec import c11

M_VT = "rzilcompiler.Transformer.ValueType"
WORKERS = int(os.environ.get("VERIF_WORKERS", str(min(16, os.cpu_count() or 8))))
T8 = c11.T8
TX = T8 + [(s, w) for w in (1, 2, 4, 128, 1024, 2048) for s in (True, False)]


def tname(t):
    return c11.tname(t)


def vt_group(loader):
    return loader.load(M_VT).globals["VTGroup"]


def mk_vt(loader, signed, width, group=None, label=None):
    """Heap record of a ValueType with the given (concrete or symbolic) fields; __init__ is not
    run (its checks concern EXTERNAL/FLOAT groups only, which the integer contracts exclude)."""
    m = loader.load(M_VT)
    cls = m.globals["ValueType"]
    G = m.globals["VTGroup"]
    o = Obj(cls, label=label)
    o.fields["_signed"] = signed
    o.fields["_bit_width"] = width
    o.fields["group"] = G.PURE if group is None else group
    o.fields["format"] = None
    o.fields["external_type"] = None
    return o


def sym_vt(it, loader, prefix, group=None):
    s = SBool(z3.Bool(f"{prefix}_s"))
    w = SInt(z3.Int(f"{prefix}_w"))
    it.ctx.assume(w.t >= 1)
    return mk_vt(loader, s, w, group, label=prefix)


def conc_vt(loader, t, group=None, label=None):
    return mk_vt(loader, t[0], t[1], group, label=label or tname(t))


def zb(v):
    """interpreter value -> z3 Bool"""
    if isinstance(v, SBool):
        return v.t
    if isinstance(v, bool):
        return z3.BoolVal(v)
    raise TypeError(f"not a bool: {v!r}")


def zi(v):
    if isinstance(v, SInt):
        return v.t
    if isinstance(v, bool):
        raise TypeError("bool where int expected")
    if isinstance(v, int):
        return z3.IntVal(v)
    raise TypeError(f"not an int: {v!r}")


def free_consts(term):
    out = set()
    seen = set()

    def walk(t):
        if t.get_id() in seen:
            return
        seen.add(t.get_id())
        if z3.is_const(t) and t.decl().kind() == z3.Z3_OP_UNINTERPRETED:
            out.add(t.decl().name())
        for c in t.children():
            walk(c)
    walk(term)
    return out


def integer_groups(loader):
    G = vt_group(loader)
    return [("PURE", G.PURE), ("PURE|BOOL", G.PURE | G.BOOL), ("PURE|CONST", G.PURE | G.CONST),
            ("PURE|HYBRID_LVAR", G.PURE | G.HYBRID_LVAR), ("PURE|CONST|HYBRID_LVAR", G.PURE | G.CONST | G.HYBRID_LVAR)]


def apply_mutant(repo, mutant):
    """Returns overlay {relpath: mutated source}. mutant = {file, old, new}; old must occur exactly once."""
    p = os.path.join(repo, mutant["file"])
    with open(p) as f:
        src = f.read()
    if src.count(mutant["old"]) != 1:
        return None
    return {mutant["file"]: src.replace(mutant["old"], mutant["new"])}


def _mutant_worker(a):
    prop, m, module, func, repo = a
    import importlib
    from pyvc.vc import discharge_z3, REFUTED
    if m is None:
        ov = {}
        m = {"name": "<baseline>"}
    else:
        ov = apply_mutant(repo, m)
    if ov is None:
        return {"mutant": m["name"], "result": "not-applicable (source text changed)"}
    sink = Check(prop, "mutant")
    try:
        gen = getattr(importlib.import_module(module), func)
        gen(Loader(repo, overlay=ov), sink)
    except Exception as e:
        return {"mutant": m["name"], "result": f"generator raised {type(e).__name__}: {e}"}
    failed = []
    bound = getattr(importlib.import_module(module), "STRING_REFUTE_BOUND", 0)
    refute_ms = getattr(importlib.import_module(module), "MUTANT_REFUTE_MS", 5000)
    for ob in sink.obs:
        if ob.status is None:
            discharge_z3(ob, 1500)
        if ob.status == "unknown" and bound:
            from pyvc.vc import refute_with_length_bound
            refute_with_length_bound(ob, bound, refute_ms)
        if ob.status == REFUTED:
            failed.append(ob.key)
    return {"mutant": m["name"], "failed": failed, "undecided_paths": len(sink.undecided)}


def run_mutants(check: Check, mutants, module, func, repo="/repo", workers=WORKERS):
    """Mutant self-test: each source mutation (applied in memory to the text the generator
    reads) must make at least one obligation fail.  module.func(loader, sink) produces the
    obligations; replay is skipped (the native code is not mutated)."""
    import multiprocessing as mp
    jobs = [(check.prop, m, module, func, repo) for m in [None] + list(mutants)]
    if workers <= 1:
        res = [_mutant_worker(j) for j in jobs]
    else:
        with mp.get_context("fork").Pool(min(workers, len(jobs))) as pool:
            res = pool.map(_mutant_worker, jobs)
    base = set(res[0].get("failed", []))
    out = []
    for r in res[1:]:
        if "failed" in r:
            new = [k for k in r["failed"] if k not in base]
            und = r["undecided_paths"] > res[0].get("undecided_paths", 0)
            r = {"mutant": r["mutant"], "killed": bool(new) or und, "n_newly_failed": len(new), "failed_obligations": new[:3],
                 "undecided_paths": r["undecided_paths"],
                 "detected_as": "violation" if new else ("undecided (exit 2: needs contract)" if und else "not detected")}
        out.append(r)
    res = out
    check.mutants.extend(res)
    check.extra["mutant_baseline_failures"] = len(base)
    surv = [m for m in res if m.get("killed") is False]
    if surv:
        check.notes.append(f"checker-strength gap: surviving mutants {[m['mutant'] for m in surv]}")
