"""C02 - integer operators follow C11 promotion, common-type and operator semantics.

Emission contracts on the real ArithmeticOp / BitOp / CompareOp / BooleanOp / Ternary il_exec
(eval_RzIL(text) == den(node), well-sorted, operand texts used once) and callback contracts on
additive_expr, multiplicative_expr, and/xor/or_expr + bit_operations, shift_expr, unary_expr,
relational/equality_expr + compare_op, logical_and/or_expr + boolean_expr, conditional_expr:
the node built from children of any class and any of the eight integer types is well-formed, has
the C11 result type and denotes the C11 value for all operand values.
"""
from __future__ import annotations
import os
import z3
from lark import Token

from pyvc.loader import Loader
from pyvc.values import Obj
from pyvc.vc import Check
from pyvc import replay
from spec import c11, ir
from . import irkit, tkit, emit
from .common import WORKERS, T8, tname, conc_vt, run_mutants
from .c03 import callback_paths, mk_rp, _real_operand, _concrete_den, faithful

PROP = "C02"
M_T = tkit.M_T

ARITH = [("+", "ADD_OP", "additive_expr"), ("-", "SUB_OP", "additive_expr"), ("*", "MUL_OP", "multiplicative_expr")]
DIVMOD = [("/", "DIV_OP", "multiplicative_expr"), ("%", "MOD_OP", "multiplicative_expr")]   # family "div": used by C01
BITW = [("&", "BIT_AND_OP", "and_expr"), ("^", "BIT_XOR_OP", "exclusive_or_expr"), ("|", "BIT_OR_OP", "inclusive_or_expr")]
SHIFT = [("<<", "LEFT_OP", "shift_expr"), (">>", "RIGHT_OP", "shift_expr")]
CMP = [("<", "LT_OP", "relational_expr"), (">", "GT_OP", "relational_expr"), ("<=", "LE_OP", "relational_expr"),
       (">=", "GE_OP", "relational_expr"), ("==", "EQ_OP", "equality_expr"), ("!=", "NE_OP", "equality_expr")]
LOGIC = [("&&", "AND_OP", "logical_and_expr"), ("||", "OR_OP", "logical_or_expr")]
UNARY = ["~", "-", "!"]

MUTANTS = [
    {"name": "BitOp.il_exec: SHIFTRA <-> SHIFTR0", "file": "rzilcompiler/Transformer/Pures/BitOp.py",
     "old": "            if self.ops[0].value_type.signed:\n                # QEMU", "new": "            if not self.ops[0].value_type.signed:\n                # QEMU"},
    {"name": "BitOp.il_exec: left shift emitted as logical right shift", "file": "rzilcompiler/Transformer/Pures/BitOp.py",
     "old": 'return f"SHIFTL0({self.ops[0].il_read()}', "new": 'return f"SHIFTR0({self.ops[0].il_read()}'},
    {"name": "BitOp.il_exec: XOR emitted as OR", "file": "rzilcompiler/Transformer/Pures/BitOp.py",
     "old": 'return f"LOGXOR(', "new": 'return f"LOGOR('},
    {"name": "CompareOp.il_exec: signed only if both operands signed", "file": "rzilcompiler/Transformer/Pures/CompareOp.py",
     "old": "if (self.ops[0].value_type.signed or self.ops[1].value_type.signed)", "new": "if (self.ops[0].value_type.signed and not self.ops[1].value_type.signed)"},
    {"name": "CompareOp.il_exec: GT emits LT", "file": "rzilcompiler/Transformer/Pures/CompareOp.py",
     "old": 'code = f"{sl}GT(', "new": 'code = f"{sl}LT('},
    {"name": "CompareOp.il_exec: NE without INV", "file": "rzilcompiler/Transformer/Pures/CompareOp.py",
     "old": 'code = f"INV(EQ({self.ops[0].il_read()}, {self.ops[1].il_read()}))"', "new": 'code = f"EQ({self.ops[0].il_read()}, {self.ops[1].il_read()})"'},
    {"name": "ArithmeticOp.il_exec: SUB operands swapped", "file": "rzilcompiler/Transformer/Pures/ArithmeticOp.py",
     "old": 'return f"{code}{self.ops[0].il_read()}, {self.ops[1].il_read()})"', "new": 'return f"{code}{self.ops[1].il_read()}, {self.ops[0].il_read()})"'},
    {"name": "BooleanOp.il_exec: && emitted as OR", "file": "rzilcompiler/Transformer/Pures/BooleanOp.py",
     "old": 'return f"AND({a}, {b})"', "new": 'return f"OR({a}, {b})"'},
    {"name": "BooleanOp.il_exec: ! without INV for comparison operands", "file": "rzilcompiler/Transformer/Pures/BooleanOp.py",
     "old": 'return f"INV({a})"', "new": 'return f"INV(INV({a}))"'},
    {"name": "Ternary.il_exec: arms swapped", "file": "rzilcompiler/Transformer/Pures/Ternary.py",
     "old": 'return f"ITE({cond}, {self.ops[1].il_read()}, {self.ops[2].il_read()})"', "new": 'return f"ITE({cond}, {self.ops[2].il_read()}, {self.ops[1].il_read()})"'},
    {"name": "additive_expr: right operand not promoted", "file": "rzilcompiler/Transformer/RZILTransformer.py",
     "old": "            a = self.promotion_cast(a)\n            b = self.promotion_cast(b)\n            a, b = self.cast_operands(a=a, b=b, immutable_a=False)\n        return self.add_op(ArithmeticOp(name, a, b, op_type))",
     "new": "            a = self.promotion_cast(a)\n            a, b = self.cast_operands(a=a, b=b, immutable_a=False)\n        return self.add_op(ArithmeticOp(name, a, b, op_type))"},
    {"name": "multiplicative_expr: operands converted to a's type instead of the common type", "file": "rzilcompiler/Transformer/RZILTransformer.py",
     "old": "        a, b = self.cast_operands(a=a, b=b, immutable_a=False)\n        v = ArithmeticOp(name, a, b, op_type)",
     "new": "        a, b = self.cast_operands(a=a, b=b, immutable_a=True)\n        v = ArithmeticOp(name, a, b, op_type)"},
    {"name": "bit_operations: unary operand not promoted", "file": "rzilcompiler/Transformer/RZILTransformer.py",
     "old": "            a = self.promotion_cast(items[1])\n", "new": "            a = items[1]\n"},
    {"name": "unary_expr: - builds NOT", "file": "rzilcompiler/Transformer/RZILTransformer.py",
     "old": "            v = self.bit_operations(items, BitOperationType.NEG)", "new": "            v = self.bit_operations(items, BitOperationType.NOT)"},
    {"name": "compare_op: operands swapped", "file": "rzilcompiler/Transformer/RZILTransformer.py",
     "old": "        return self.add_op(CompareOp(f\"op_{op_type.name}\", a, b, op_type))", "new": "        return self.add_op(CompareOp(f\"op_{op_type.name}\", b, a, op_type))"},
    {"name": "conditional_expr: arms swapped", "file": "rzilcompiler/Transformer/RZILTransformer.py",
     "old": "        return self.add_op(Ternary(f\"cond\", items[0], then_p, else_p))", "new": "        return self.add_op(Ternary(f\"cond\", items[0], else_p, then_p))"},
    {"name": "boolean_expr: || builds &&", "file": "rzilcompiler/Transformer/RZILTransformer.py",
     "old": "            t = BooleanOpType(items[1])\n", "new": "            t = BooleanOpType(\"&&\")\n"},
    {"name": "shift_expr: shift direction taken from a fixed token", "file": "rzilcompiler/Transformer/RZILTransformer.py",
     "old": "return self.bit_operations(items, BitOperationType(items[1]))", "new": "return self.bit_operations(items, BitOperationType.LSHIFT)"},
]


# ------------------------------------------------------------------------------------------ emission
def gen_emission(loader, check, kinds, replay_on=True, first=None):
    """first: restrict the first operand's kind (work splitting)"""
    AT = irkit.enum(loader, "ArithmeticOp", "ArithmeticType")
    BT = irkit.enum(loader, "BitOp", "BitOperationType")
    CT = irkit.enum(loader, "CompareOp", "CompareOpType")
    LT = irkit.enum(loader, "BooleanOp", "BooleanOpType")
    for cn in ("ArithmeticOp", "BitOp", "CompareOp", "BooleanOp", "Ternary"):
        c = irkit.C(loader, cn)
        check.under_contract(loader, c.methods["il_exec"], c.methods["__init__"])
    bvk = [k for k in kinds if k in irkit.BV_KINDS or k in irkit.EXTRA_BV_KINDS]
    kinds1 = [k for k in kinds if first is None or k == first]
    bvk1 = [k for k in bvk if first is None or k == first]

    def R(f):
        return f if replay_on else None
    # arithmetic / bitwise: operands of equal type (class invariant established by the callbacks)
    for t in T8:
        for ka in bvk1:
            for kb in bvk:
                for op in ("+", "-", "*"):
                    def build(it, t=t, ka=ka, kb=kb, op=op):
                        a, b = irkit.mk_operand(it, ka, t, "a"), irkit.mk_operand(it, kb, t, "b")
                        return it.call(irkit.C(loader, "ArithmeticOp"), ["op", a, b, AT(op)], {}), [a, b]
                    emit.run_emission(check, loader, f"ArithmeticOp.il_exec({op})", f"type={tname(t)} kinds={ka},{kb}", build,
                                      replay_builder=R(lambda sp, op=op: ["arith", op, sp[0], sp[1]]))
                for op in ("&", "|", "^"):
                    def build(it, t=t, ka=ka, kb=kb, op=op):
                        a, b = irkit.mk_operand(it, ka, t, "a"), irkit.mk_operand(it, kb, t, "b")
                        return it.call(irkit.C(loader, "BitOp"), ["op", a, b, BT(op)], {}), [a, b]
                    emit.run_emission(check, loader, f"BitOp.il_exec({op})", f"type={tname(t)} kinds={ka},{kb}", build,
                                      replay_builder=R(lambda sp, op=op: ["bitop", op, sp[0], sp[1]]))
                for op in ("<", ">", "<=", ">=", "==", "!="):
                    def build(it, t=t, ka=ka, kb=kb, op=op):
                        a, b = irkit.mk_operand(it, ka, t, "a"), irkit.mk_operand(it, kb, t, "b")
                        return it.call(irkit.C(loader, "CompareOp"), ["op", a, b, CT(op)], {}), [a, b]
                    emit.run_emission(check, loader, f"CompareOp.il_exec({op})", f"type={tname(t)} kinds={ka},{kb}", build,
                                      replay_builder=R(lambda sp, op=op: ["cmp", op, sp[0], sp[1]]))
            for op in ("~", "-"):
                def build(it, t=t, ka=ka, op=op):
                    a = irkit.mk_operand(it, ka, t, "a")
                    return it.call(irkit.C(loader, "BitOp"), ["op", a, None, BT(op)], {}), [a]
                emit.run_emission(check, loader, f"BitOp.il_exec(unary {op})", f"type={tname(t)} kind={ka}", build,
                                  replay_builder=R(lambda sp, op=op: ["bitop", op, sp[0], None]))
    # shifts: any pair of types; C-side precondition (count in range) is part of den's domain
    for ta in T8:
        for tb in T8:
            for ka in bvk1[:2]:
                for op in ("<<", ">>"):
                    def build(it, ta=ta, tb=tb, ka=ka, op=op):
                        a, b = irkit.mk_operand(it, ka, ta, "a"), irkit.mk_operand(it, "Variable", tb, "b")
                        # C: behaviour is defined only for 0 <= count < width of the (promoted) left operand
                        it.ctx.assume(z3.ULT(z3.ZeroExt(64 - tb[1], b.ghost["den"]) if tb[1] < 64 else b.ghost["den"],
                                             z3.BitVecVal(ta[1], 64)))
                        return it.call(irkit.C(loader, "BitOp"), ["op", a, b, BT(op)], {}), [a, b]
                    emit.run_emission(check, loader, f"BitOp.il_exec({op})", f"left={tname(ta)} count={tname(tb)} kind={ka}", build,
                                      replay_builder=R(lambda sp, op=op: ["bitop", op, sp[0], sp[1]]))
    # logical operators and ?: - every operand class (bool-sorted operands must not be wrapped in NON_ZERO)
    for ka in kinds1:
        for kb in kinds:
            for ta in ((True, 32), (False, 8), (True, 64)):
                for op in ("&&", "||"):
                    def build(it, ka=ka, kb=kb, ta=ta, op=op):
                        a, b = irkit.mk_operand(it, ka, ta, "a"), irkit.mk_operand(it, kb, (False, 16), "b")
                        return it.call(irkit.C(loader, "BooleanOp"), ["op", a, b, LT(op)], {}), [a, b]
                    emit.run_emission(check, loader, f"BooleanOp.il_exec({op})", f"kinds={ka},{kb} type(a)={tname(ta)}", build,
                                      replay_builder=R(lambda sp, op=op: ["boolop", op, sp[0], sp[1]]))
        for ta in T8:
            def build(it, ka=ka, ta=ta):
                a = irkit.mk_operand(it, ka, ta, "a")
                return it.call(irkit.C(loader, "BooleanOp"), ["op", a, None, LT("!")], {}), [a]
            emit.run_emission(check, loader, "BooleanOp.il_exec(!)", f"kind={ka} type={tname(ta)}", build,
                              replay_builder=R(lambda sp: ["boolop", "!", sp[0], None]))
            for tarm in ((True, 32), (False, 64), (True, 8)):
                for karm in (bvk[:2] + ["CompareOp"]):
                    def build(it, ka=ka, ta=ta, tarm=tarm, karm=karm):
                        c = irkit.mk_operand(it, ka, ta, "c")
                        x, y = irkit.mk_operand(it, karm, tarm, "a"), irkit.mk_operand(it, karm, tarm, "b")
                        return it.call(irkit.C(loader, "Ternary"), ["cond", c, x, y], {}), [c, x, y]
                    emit.run_emission(check, loader, "Ternary.il_exec", f"cond={ka}:{tname(ta)} arms={karm}:{tname(tarm)}", build,
                                      replay_builder=R(lambda sp: ["ternary", sp[0], sp[1], sp[2]]))
    # conditions of every bit-vector valued node class (a ternary, a cast, an arithmetic result ... as condition): always also in the
    # quick tier - whether a condition is wrapped in NON_ZERO is decided per node class
    if first is None or first == kinds1[0]:
        for kc in [k for k in irkit.BV_KINDS if k not in kinds]:
            for ta in ((True, 32), (False, 8)):
                def build(it, kc=kc, ta=ta):
                    c = irkit.mk_operand(it, kc, ta, "c")
                    x, y = irkit.mk_operand(it, "Variable", (True, 32), "a"), irkit.mk_operand(it, "Variable", (True, 32), "b")
                    return it.call(irkit.C(loader, "Ternary"), ["cond", c, x, y], {}), [c, x, y]
                emit.run_emission(check, loader, "Ternary.il_exec", f"cond={kc}:{tname(ta)} arms=Variable:st32", build, replay_builder=None)

                def build2(it, kc=kc, ta=ta):
                    a, b = irkit.mk_operand(it, kc, ta, "a"), irkit.mk_operand(it, "Variable", (False, 16), "b")
                    return it.call(irkit.C(loader, "BooleanOp"), ["op", a, b, LT("&&")], {}), [a, b]
                emit.run_emission(check, loader, "BooleanOp.il_exec(&&)", f"kinds={kc},Variable type(a)={tname(ta)}", build2, replay_builder=None)


# ------------------------------------------------------------------------------------------ callbacks
def pair_tag(ka, ta, kb, tb):
    """classification of the *input* (never of the outcome), used to name known-finding instance classes"""
    ba, bb = ka in irkit.BOOL_KINDS, kb in irkit.BOOL_KINDS
    mix = ("b" if ba else "i") + ("b" if bb else "i")
    la = "-" if ba else ("n" if ta[1] < 32 else "w")
    lb = "-" if bb else ("n" if tb[1] < 32 else "w")
    if ba or bb or ta[0] == tb[0]:
        sg = "same"
    else:
        uw, sw = (tb[1], ta[1]) if ta[0] else (ta[1], tb[1])
        sg = "mixed-uge" if uw >= sw else "mixed-slt"
    return f"mix={mix} la={la} lb={lb} sg={sg}"


def c_den(o):
    """C view of an abstract operand: (z3 value, C type).  A bool-sorted operand is a C int 0/1."""
    if o.ghost["sort"] == "bool":
        return z3.If(o.ghost["den"], z3.BitVecVal(1, 32), z3.BitVecVal(0, 32)), (True, 32)
    return o.ghost["den"], o.ghost["ctype"]


def result_obligations(check, name, pi, p, result, expect_type, expect_val, rp, expect_bool=False, pre=None):
    pc = list(p.ctx.pc) + list(pre or [])
    # frame: the type objects of the operands (which may be shared with a declaration, a parameter or a routine's return type) are
    # not modified - a callback that needs another type builds a new ValueType
    wr = sorted({f"{getattr(o, 'label', None) or o.cls.name}.{f}" for (o, f, old, new) in p.ctx.pre_writes() if o.cls.name == "ValueType"})
    check.ob(f"{name}#frame: operand types are not modified", pi, p.ctx.pc, not wr, detail=f"writes {wr}")
    ok = isinstance(result, Obj) and result.fields.get("value_type") is not None
    check.ob(f"{name}#result-is-typed-node", pi, pc, ok, replay=rp)
    if not ok:
        return
    flags, structs = ir.wf_split(result)
    check.ob(f"{name}#WF.operands", pi, pc, not structs, detail="; ".join(structs)[:300], replay=rp)
    check.ob(f"{name}#WF.bool-flag", pi, pc, not flags, detail="; ".join(flags)[:300], replay=rp)
    if structs:
        return
    srt = ir.sort(result)
    if expect_bool:
        check.ob(f"{name}#yields-boolean", pi, pc, srt == "bool", replay=rp)
        if srt == "bool":
            check.ob(f"{name}#value", pi, pc, ir.den(result) == (expect_val != 0), replay=rp)
        return
    rt = ir.vt(result)
    check.ob(f"{name}#width", pi, pc, srt == ("bv", expect_type[1]), replay=rp,
             detail=f"result is {srt}, C11 result type {tname(expect_type)}")
    check.ob(f"{name}#signedness", pi, pc, rt[0] == expect_type[0] or srt != ("bv", expect_type[1]), replay=rp,
             detail=f"result typed {tname(rt)}, C11 result type {tname(expect_type)}")
    if srt == ("bv", expect_type[1]):
        check.ob(f"{name}#value", pi, pc, ir.den(result) == expect_val, replay=rp)


REDUCED_TYPES = [(True, 8), (False, 16), (True, 32), (False, 64)]


def gen_callbacks(loader, check, kind_pairs, replay_on=True, families=None, full_types=False):
    T = loader.load(M_T).globals["RZILTransformer"]
    for fn in ("additive_expr", "multiplicative_expr", "and_expr", "exclusive_or_expr", "inclusive_or_expr", "shift_expr",
               "bit_operations", "unary_expr", "relational_expr", "equality_expr", "compare_op", "logical_and_expr",
               "logical_or_expr", "boolean_expr", "conditional_expr", "promotion_cast", "cast_operands", "init_a_cast"):
        check.under_contract(loader, T.methods[fn])
    families = set(families or ["arith", "bitw", "shift", "cmp", "logic", "unary", "cond"])

    def R(rkind, **kw):
        return mk_rp(rkind, **kw) if replay_on else None

    def types_for(k, full=True):
        if k not in irkit.BV_KINDS:
            return [(True, 32)]
        return T8 if full else REDUCED_TYPES

    def setup2(ka, ta, kb, tb):
        def setup(it):
            a, b = irkit.mk_operand(it, ka, ta, "a"), irkit.mk_operand(it, kb, tb, "b")
            t = tkit.mk_transformer(it)
            it.ctx.mark_pre(t, a, b)
            return {"t": t, "a": a, "b": b, "skip": bool(ir.wf_problems(a) or ir.wf_problems(b))}
        return setup

    binops = []
    if "arith" in families:
        binops += [(o, "arith") for o in ARITH]
    if "div" in families:
        binops += [(o, "div") for o in DIVMOD]
    if "bitw" in families:
        binops += [(o, "bitw") for o in BITW]
    if "shift" in families:
        binops += [(o, "shift") for o in SHIFT]
    if "cmp" in families:
        binops += [(o, "cmp") for o in CMP]
    if "logic" in families:
        binops += [(o, "logic") for o in LOGIC]
    for (ka, kb) in kind_pairs:
        if ka in ("Number", "Bool", "Sizeof") and kb in ("Number", "Bool", "Sizeof"):
            continue   # both literals: compile-time folding, contract in C09
        full = full_types or (ka, kb) == ("Variable", "Variable")
        for ta in types_for(ka, full):
            for tb in types_for(kb, full):
                for (op, tok, cb), fam in binops:
                    tag = f"a={ka}:{tname(ta)} b={kb}:{tname(tb)} {pair_tag(ka, ta, kb, tb)}"
                    name = f"{cb}({op})"

                    def run(it, st, op=op, tok=tok, cb=cb):
                        if st["skip"]:
                            return None
                        return it.call(tkit.method(it, st["t"], cb), [[st["a"], Token(tok, op), st["b"]]], {})
                    for p, pi in callback_paths(check, loader, name, tag, setup2(ka, ta, kb, tb), run):
                        if p.state["skip"]:
                            check.extra.setdefault("operands_outside_WF", [])
                            for k in (ka, kb):
                                if k == "BooleanOp" and k not in check.extra["operands_outside_WF"]:
                                    check.extra["operands_outside_WF"].append(k)
                            continue
                        rp = R("c02.callback", cb=cb, op=op, tok=tok, ka=ka, ta=list(ta), kb=kb, tb=list(tb))
                        check.ob(f"{name}#total", pi, p.ctx.pc, p.outcome == "return", replay=rp,
                                 detail="" if p.outcome == "return" else f"raises {p.value!r}")
                        if p.outcome != "return":
                            continue
                        a, b = p.state["a"], p.state["b"]
                        (xa, cta), (xb, ctb) = c_den(a), c_den(b)
                        pre = [c11.shift_defined(op, cta, xb, ctb)] if fam == "shift" else ([c11.div_defined(op, xa, cta, xb, ctb)] if fam == "div" else None)
                        result_obligations(check, name, pi, p, p.value, c11.binop_type(op, cta, ctb),
                                           c11.binop_value(op, xa, cta, xb, ctb), rp, expect_bool=fam in ("cmp", "logic"), pre=pre)
    if "unary" in families:
        for ka in sorted({k for k, _ in kind_pairs}):
            if ka in ("Number", "Bool", "Sizeof"):
                continue  # literal operand: folded (C09)
            for ta in types_for(ka, True):
                for op in UNARY:
                    tag = f"a={ka}:{tname(ta)}"
                    name = f"unary_expr({op})"

                    def setup(it, ka=ka, ta=ta):
                        a = irkit.mk_operand(it, ka, ta, "a")
                        t = tkit.mk_transformer(it)
                        it.ctx.mark_pre(t, a)
                        return {"t": t, "a": a, "skip": bool(ir.wf_problems(a))}

                    def run(it, st, op=op):
                        if st["skip"]:
                            return None
                        return it.call(tkit.method(it, st["t"], "unary_expr"), [[Token("UNARY_OP", op), st["a"]]], {})
                    for p, pi in callback_paths(check, loader, name, tag, setup, run):
                        if p.state["skip"]:
                            continue
                        rp = R("c02.callback", cb="unary_expr", op=op, tok="UNARY_OP", ka=ka, ta=list(ta), kb=None, tb=None)
                        check.ob(f"{name}#total", pi, p.ctx.pc, p.outcome == "return", replay=rp,
                                 detail="" if p.outcome == "return" else f"raises {p.value!r}")
                        if p.outcome != "return":
                            continue
                        xa, cta = c_den(p.state["a"])
                        result_obligations(check, name, pi, p, p.value, c11.unop_type(op, cta), c11.unop_value(op, xa, cta), rp,
                                           expect_bool=(op == "!"))
    if "cond" in families:
        for kc in ("Variable", "CompareOp", "Register"):
            for (ka, kb) in kind_pairs:
                full = full_types or ((ka, kb) == ("Variable", "Variable") and kc == "Variable")
                for ta in types_for(ka, full):
                    for tb in types_for(kb, full):
                        tag = f"cond={kc} a={ka}:{tname(ta)} b={kb}:{tname(tb)} {pair_tag(ka, ta, kb, tb)}"
                        name = "conditional_expr"

                        def setup(it, kc=kc, ka=ka, ta=ta, kb=kb, tb=tb):
                            c = irkit.mk_operand(it, kc, (True, 32), "c")
                            a, b = irkit.mk_operand(it, ka, ta, "a"), irkit.mk_operand(it, kb, tb, "b")
                            t = tkit.mk_transformer(it)
                            it.ctx.mark_pre(t, a, b, c)
                            return {"t": t, "a": a, "b": b, "c": c, "skip": bool(ir.wf_problems(a) or ir.wf_problems(b))}

                        def run(it, st):
                            if st["skip"]:
                                return None
                            return it.call(tkit.method(it, st["t"], "conditional_expr"), [[st["c"], st["a"], st["b"]]], {})
                        for p, pi in callback_paths(check, loader, name, tag, setup, run):
                            if p.state["skip"]:
                                continue
                            rp = R("c02.callback", cb="conditional_expr", op="?:", tok="", ka=ka, ta=list(ta), kb=kb, tb=list(tb), kc=kc)
                            check.ob(f"{name}#total", pi, p.ctx.pc, p.outcome == "return", replay=rp,
                                     detail="" if p.outcome == "return" else f"raises {p.value!r}")
                            if p.outcome != "return":
                                continue
                            a, b, c = p.state["a"], p.state["b"], p.state["c"]
                            (xa, cta), (xb, ctb) = c_den(a), c_den(b)
                            cd = c.ghost["den"]
                            ct = cd if c.ghost["sort"] == "bool" else (cd != 0)
                            both_bool = a.ghost["sort"] == "bool" and b.ghost["sort"] == "bool"
                            result_obligations(check, name, pi, p, p.value, c11.cond_type(cta, ctb),
                                               c11.cond_value(ct, xa, cta, xb, ctb), rp, expect_bool=both_bool)


# ------------------------------------------------------------------------------------------ replay
@replay.register("c02.callback")
def replay_callback(a):
    from rzilcompiler.Transformer.RZILTransformer import RZILTransformer
    from rzilcompiler.ArchEnum import ArchEnum
    mdl = {k: (0 if v is None else v) for k, v in (a.get("model") or {}).items()}
    ka, ta = a["ka"], tuple(a["ta"])

    def lit(nm, k, t):
        # the literal's value: its own model variable when the path constrained it, else the value of its denotation
        v = mdl.get(nm + "_lit")
        if v is None:
            v = mdl.get(nm, 0)
        return (v or 0) % (1 << t[1]) if k == "Number" else 0
    oa = _real_operand(ka, ta, "a", lit("a", ka, ta))
    vals = {}
    kinds_used = [ka, a.get("kb"), a.get("kc")]

    def setv(nm, k, t):
        v = mdl.get(nm, 0)
        if k == "Number":
            v = lit(nm, k, t)
        if k in irkit.BOOL_KINDS:
            vals[(nm + "_nz", 8)] = 1 if v else 0
            vals[(nm + "_z", 8)] = 0
            return z3.BitVecVal(1 if v else 0, 32), (True, 32)
        vals[(nm, t[1])] = int(v)
        return z3.BitVecVal(int(v), t[1]), t
    xa, cta = setv("a", ka, ta)
    t = RZILTransformer(ArchEnum.HEXAGON)
    cb, op = a["cb"], a["op"]
    try:
        if cb == "unary_expr":
            r = t.unary_expr([Token("UNARY_OP", op), oa])
            et, ev = c11.unop_type(op, cta), c11.unop_value(op, xa, cta)
            is_bool = op == "!"
            desc = f"{op}a  (a: {ka} {tname(ta)} = {mdl.get('a', 0):#x})"
        else:
            kb, tb = a["kb"], tuple(a["tb"])
            ob = _real_operand(kb, tb, "b", lit("b", kb, tb))
            xb, ctb = setv("b", kb, tb)
            if cb == "conditional_expr":
                oc = _real_operand(a["kc"], (True, 32), "c")
                cv = mdl.get("c", 0)
                if a["kc"] in irkit.BOOL_KINDS:
                    vals[("c_nz", 8)] = 1 if cv else 0
                    vals[("c_z", 8)] = 0
                else:
                    vals[("c", 32)] = int(cv)
                r = t.conditional_expr([oc, oa, ob])
                et = c11.cond_type(cta, ctb)
                ev = c11.cond_value(z3.BoolVal(bool(cv)), xa, cta, xb, ctb)
                is_bool = ka in irkit.BOOL_KINDS and kb in irkit.BOOL_KINDS
                desc = f"c ? a : b (c={cv}, a: {ka} {tname(ta)} = {mdl.get('a', 0):#x}, b: {kb} {tname(tb)} = {mdl.get('b', 0):#x})"
            else:
                r = getattr(t, cb)([oa, Token(a["tok"], op), ob])
                et, ev = c11.binop_type(op, cta, ctb), c11.binop_value(op, xa, cta, xb, ctb)
                is_bool = op in ("<", ">", "<=", ">=", "==", "!=", "&&", "||")
                desc = f"a {op} b (a: {ka} {tname(ta)} = {mdl.get('a', 0):#x}, b: {kb} {tname(tb)} = {mdl.get('b', 0):#x})"
    except Exception as e:
        return True, f"{cb} raised {type(e).__name__}: {e}"
    flags, structs = ir.wf_split(r)
    if structs:
        return True, f"{cb}: {desc} -> {r}: not well-formed: {structs}"
    if flags and a.get("clause") == "WF.bool-flag":
        return True, f"{cb}: {desc} -> {r}: {flags}"
    want = z3.simplify(ev).as_long()
    srt = ir.sort(r)
    if is_bool:
        if srt != "bool":
            return True, f"{cb}: {desc} -> {r}: sort {srt}, a comparison/logical result must be boolean"
        got = _concrete_den(r, vals)
        if bool(got) == bool(want) and not faithful(*kinds_used):
            return "inconclusive", f"{cb}: {desc} with stand-in variables for {kinds_used}: agrees with C11"
        return bool(got) != bool(want), f"{cb}: {desc} -> {r}: IR value {got}, C11 value {want}"
    rt = ir.vt(r)
    if srt != ("bv", et[1]) or rt[0] != et[0]:
        return True, f"{cb}: {desc} -> {r}: typed {tname(rt)}, C11 result type {tname(et)}"
    got = _concrete_den(r, vals)
    if got is None:
        return "inconclusive", f"{cb}: {desc} -> {r}: the IR value could not be evaluated concretely"
    if got == want and not faithful(*kinds_used):
        return "inconclusive", f"{cb}: {desc} with stand-in variables for {kinds_used}: agrees with C11"
    return got != want, f"{cb}: {desc} -> {r}: IR value {got:#x}, C11 value {want:#x}"


# ------------------------------------------------------------------------------------------
QUICK_KINDS = ["Variable", "Number", "CompareOp", "Bool"]
QUICK_PAIRS = [(a, b) for a in QUICK_KINDS + ["BooleanOp"] for b in QUICK_KINDS + ["BooleanOp"]] + [
    ("Register", "Cast"), ("HybridTmp", "Variable"), ("Variable", "HybridTmp")]


def gen_task(loader, check, what, kinds=None, pairs=None, families=None, replay_on=True, full_types=False, first=None):
    if what == "emission":
        gen_emission(loader, check, kinds, replay_on, first)
    else:
        gen_callbacks(loader, check, [tuple(p) for p in pairs], replay_on, families, full_types)


def tasks_for(tier):
    ek = ["Variable", "Number", "CastOfNumber", "CompareOp", "BooleanOp", "Bool"] if tier == "quick" else irkit.ALL_KINDS + irkit.EXTRA_BV_KINDS
    pairs = QUICK_PAIRS if tier == "quick" else [(a, b) for a in irkit.ALL_KINDS for b in irkit.ALL_KINDS]
    ts = [{"what": "emission", "kinds": ek, "first": k} for k in ek]
    for fam in ["arith", "bitw", "shift", "cmp", "logic", "unary", "cond"]:
        n = 4 if tier == "quick" else 16
        for i in range(n):
            ts.append({"what": "callbacks", "pairs": [list(p) for p in pairs[i::n]], "families": [fam],
                       "full_types": tier == "thorough"})
    return ts


def generate_reduced(loader, check):
    gen_emission(loader, check, ["Variable", "CompareOp"], False)
    gen_callbacks(loader, check, [("Variable", "Variable"), ("Variable", "CompareOp")], False)


def run(check: Check):
    check.trust("T-VCGEN: pyvc interpretation of the Python subset (mitigated by mutant self-test and native replay of every counter-model)")
    check.trust("T-C11: spec/c11.py promotion / usual arithmetic conversions / operator semantics with QEMU conventions")
    check.trust("T-RZIL: spec/rzil.py semantics and sort rules of ADD SUB MUL LOG* NEG SHIFT* S/U-compare EQ INV AND OR NON_ZERO ITE")
    check.trust("T-IND: depth > 1 by structural induction (contracts only use a child's class, type, sort, opaque den)")
    check.assume("A-NAMES: RZILTransformer.add_op used through its contract (contracts/tkit.py)")
    check.assume("C-side undefined behaviour excluded by precondition: shift count in [0, width of promoted left operand)")
    check.assume("pairs of two literal operands take the folding path whose contract is C09's")
    check.assume("BooleanOp children are not WF on this tree (typed like their first operand, no BOOL flag); callbacks are "
                 "verified for WF children; the defect is reported at boolean_expr#WF")
    check.run_parallel("contracts.c02", "gen_task", tasks_for(check.tier), workers=WORKERS)
    run_mutants(check, MUTANTS, "contracts.c02", "generate_reduced")
    return check.finish(
        level="proof",
        rule="one obligation per (function, operator, operand kinds, operand types, clause); operand values universally "
             "quantified as z3 bit-vectors; distinct = distinct (obligation, instance) keys")
