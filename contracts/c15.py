"""C15 - nothing in the source is silently dropped: translate it or raise.

  * mechanical production inventory: the grammar is loaded with lark's own loader on every run; every rule
    is classified (callback / inlined-single-child / produces a lark Tree); a rule that is not in
    contracts/productions.json makes the check undecided;
  * rejecting contracts: jump_stmt raises for goto/continue/break/`return;`; iteration_stmt raises for while/do,
    selection_stmt for switch; c_call raises for unknown functions; postfix_expr raises for array / member /
    pointer access, unary_expr for * and &;
  * drop-freedom of the item consumers: a lark Tree (the value of a rule without handler: labels, comma
    expressions, ...) reaching Sequence.__init__ (any list length - fold invariant) or the final
    instruction sequence raises;
  * Tree injection: every callback, given a Tree in any child position, either raises or returns a value that
    still contains the Tree (so that a later consumer or the emission rejects it) - it never returns a normal
    node from which the Tree has vanished.
"""
from __future__ import annotations
import json
import os
import z3
from lark import Token, Tree, Lark

from pyvc.interp import explore, AbsSeq
from pyvc.loader import Loader, FuncInfo
from pyvc.values import Obj, Tpl
from pyvc.vc import Check
from pyvc import replay
from . import irkit, tkit, c05
from .common import WORKERS, conc_vt, run_mutants

PROP = "C15"
HERE = os.path.dirname(os.path.abspath(__file__))

MUTANTS = [
    {"name": "jump_stmt: break passes through again", "file": "rzilcompiler/Transformer/RZILTransformer.py",
     "old": 'items[0].type in ["GOTO", "CONTINUE", "BREAK"]', "new": 'items[0].type in ["GOTO", "CONTINUE"]'},
    {"name": "jump_stmt: return without value yields an empty statement", "file": "rzilcompiler/Transformer/RZILTransformer.py",
     "old": '        if items[0] == "return":\n', "new": '        if items[0] == "return" and len(items) < 2:\n            return self.add_op(Empty("empty"))\n        if items[0] == "return":\n'},
    {"name": "Sequence.__init__: unhandled productions are filtered out again", "file": "rzilcompiler/Transformer/Effects/Sequence.py",
     "old": "            elif isinstance(e, Tree):\n                # A grammar rule without handler (label, comma expression...) reached a statement list.\n                raise NotImplementedError(f\"'{e.data}' is not supported.\")\n", "new": ""},
    {"name": "emit_final_seq_return: Trees filtered before the sequence is built", "file": "rzilcompiler/Transformer/RZILTransformer.py",
     "old": "                if isinstance(op, (Effect, Tree))", "new": "                if isinstance(op, Effect)"},
    {"name": "iteration_stmt: while loops become empty statements", "file": "rzilcompiler/Transformer/RZILTransformer.py",
     "old": '            raise NotImplementedError(f"{items[0]} loop not supported.")', "new": '            return self.add_op(Empty("empty"))'},
    {"name": "selection_stmt: switch translated as if", "file": "rzilcompiler/Transformer/RZILTransformer.py",
     "old": '        if items[0] == "if" and len(items) == 3:', "new": '        if items[0] in ("if", "switch") and len(items) == 3:'},
    {"name": "selection_stmt: else arm dropped when it is not a list", "file": "rzilcompiler/Transformer/RZILTransformer.py",
     "old": '                self.add_op(Sequence(f"seq_else", flatten_list(items[4])))', "new": '                self.add_op(Sequence(f"seq_else", items[4] if isinstance(items[4], list) else []))'},
    {"name": "for_loop: step expression not sequenced", "file": "rzilcompiler/Transformer/RZILTransformer.py",
     "old": 'self.add_op(Sequence(f"seq", flatten_list(items[4]) + [items[3]])),', "new": 'self.add_op(Sequence(f"seq", flatten_list(items[4]))),'},
    {"name": "unary_expr: address-of silently yields its operand", "file": "rzilcompiler/Transformer/RZILTransformer.py",
     "old": '            raise NotImplementedError(f"Unary expression {items[0]} not handler.")', "new": "            v = items[1]"},
    {"name": "new grammar rule without classification", "file": "Resources/Hexagon/grammar.lark",
     "old": "\t| cancel_slot_stmt \";\"\n\ncancel_slot_stmt: \"cancel_slot\"\n", "new": "\t| cancel_slot_stmt \";\"\n\t| abort_stmt \";\"\n\ncancel_slot_stmt: \"cancel_slot\"\nabort_stmt: \"abort_now\"\n"},
]


def reachable(v, target, seen=None, depth=0):
    seen = seen if seen is not None else set()
    if v is target:
        return True
    if depth > 12:
        return False
    if isinstance(v, Obj):
        if v.oid in seen:
            return False
        seen.add(v.oid)
        return any(reachable(x, target, seen, depth + 1) for x in v.fields.values())
    if isinstance(v, (list, tuple, set)):
        return any(reachable(x, target, seen, depth + 1) for x in v)
    if isinstance(v, dict):
        return any(reachable(x, target, seen, depth + 1) for x in v.values())
    return False


# ------------------------------------------------------------------------------------------ inventory
def gen_inventory(loader, check, replay_on=True):
    gpath = os.path.join(loader.repo, "Resources/Hexagon/grammar.lark")
    src = loader.overlay.get("Resources/Hexagon/grammar.lark")
    if src is None:
        with open(gpath) as f:
            src = f.read()
    L = Lark(src, start="fbody", parser="earley")
    T = loader.load(tkit.M_T).globals["RZILTransformer"]
    callbacks = {n for n, f in T.methods.items() if isinstance(f, FuncInfo)}
    with open(os.path.join(HERE, "productions.json")) as f:
        known = json.load(f)
    rules = {}
    for r in L.rules:
        name = r.alias or r.origin.name
        if isinstance(name, Token):
            name = str(name)
        d = rules.setdefault(str(name), {"expand1": bool(r.options.expand1), "alts": [], "single_terminal": []})
        kept = [s for s in r.expansion if not (s.is_term and getattr(s, "filter_out", False))]
        d["alts"].append(len(kept))
        placeholders = sum(1 for x in (getattr(r.options, "empty_indices", None) or ()) if x)    # `[x]` leaves a None child: not inlined
        if len(kept) == 1 and kept[0].is_term and not placeholders:
            d["single_terminal"].append(str(kept[0].name))
    inv = {}
    for name, d in sorted(rules.items()):
        if name.startswith("_") or name.startswith("__"):
            cls = "inlined-by-lark"
        elif name in callbacks:
            cls = "callback"
        elif d["expand1"] and all(n == 1 for n in d["alts"]):
            cls = "transparent"
        elif d["expand1"]:
            cls = "transparent-or-tree"      # alternatives with several children produce a lark Tree
        else:
            cls = "tree"
        inv[name] = cls
        if name not in known:
            check.undecided.append((f"production inventory: rule {name}", f"not classified in contracts/productions.json (mechanical class {cls}; needs contract)"))
        else:
            # a rule may gain a handler or become transparent, but a handled rule must not lose its handler silently
            ok = not (known[name] == "callback" and cls != "callback")
            check.ob("inventory#translating-production-keeps-its-callback", name, [], ok, detail=f"{name}: was {known[name]}, now {cls}")
            if cls == "callback":
                # a `?rule` is inlined by lark when an alternative has ONE child: the callback is bypassed.  That is fine when the child
                # is a translated value (the chain of expression rules), but an alternative consisting of a single terminal would let a
                # bare token (break, continue, return ...) flow into the statement list without ever reaching the callback
                bypass = d["single_terminal"] if d["expand1"] else []
                check.ob("inventory#callback-is-not-bypassed-for-a-bare-terminal", name, [], not bypass,
                         detail=f"rule ?{name}: the alternatives {bypass} have a single terminal child and skip the callback {name}()",
                         replay=("c15.source", lambda mdl: {"src": "{ RdV = 1; if (RsV) { break; } RtV = 2; }"}) if replay_on and bypass else None)
    check.extra["production_inventory"] = inv
    check.extra["productions_producing_trees"] = sorted(n for n, c in inv.items() if c in ("tree", "transparent-or-tree"))
    check.ob("inventory#scanned", f"{len(inv)} rules", [], len(inv) > 50)
    check.instances_declared += 1
    check.instances_generated += 1


# ------------------------------------------------------------------------------------------ rejecting contracts
def gen_rejecting(loader, check, replay_on=True):
    T = loader.load(tkit.M_T).globals["RZILTransformer"]
    X = loader.load("rzilcompiler.HexagonExtensions").globals["HexagonTransformerExtension"]
    check.under_contract(loader, T.methods["jump_stmt"], T.methods["iteration_stmt"], T.methods["selection_stmt"], T.methods["c_call"],
                         T.methods["sub_routine"], T.methods["postfix_expr"], T.methods["unary_expr"], X.methods["get_val_type_by_fcn"])

    def case(name, inst, cb, mk_items, expect_raise=True, rp=None):
        check.instances_declared += 1

        def setup(it):
            t = tkit.mk_transformer(it)
            return {"t": t, "items": mk_items(it)}
        ex = explore(loader, setup, lambda it, st: it.call(tkit.method(it, st["t"], cb), [st["items"]], {}))
        check.absorb(ex, f"{name} {inst}")
        if ex.paths:
            check.instances_generated += 1
        for i, p in enumerate(ex.paths):
            if expect_raise:
                check.ob(f"{name}#raises", inst, p.ctx.pc, p.outcome == "raise", replay=rp,
                         detail=f"returned {p.value!r}" if p.outcome == "return" else "")
            else:
                check.ob(f"{name}#accepted", inst, p.ctx.pc, p.outcome == "return", detail="" if p.outcome == "return" else f"raises {p.value!r}")

    def R(src):
        return ("c15.source", lambda mdl, src=src: {"src": src}) if replay_on else None
    case("jump_stmt", "goto l;", "jump_stmt", lambda it: [Token("GOTO", "goto"), Token("IDENTIFIER", "l")], rp=R("{ RdV = 1; goto l; }"))
    case("jump_stmt", "continue;", "jump_stmt", lambda it: [Token("CONTINUE", "continue")], rp=R("{ RdV = 1; continue; }"))
    case("jump_stmt", "break;", "jump_stmt", lambda it: [Token("BREAK", "break")], rp=R("{ RdV = 1; break; }"))
    case("jump_stmt", "return; (no value)", "jump_stmt", lambda it: [Token("RETURN", "return")], rp=R("{ RdV = 1; return; }"))
    case("jump_stmt", "JUMP(...) effect is passed on", "jump_stmt", lambda it: [c05.mk_effect(it, loader, "NOP", "j")], expect_raise=False)
    case("iteration_stmt", "while", "iteration_stmt", lambda it: [Token("WHILE", "while"), irkit.mk_operand(it, "Variable", (True, 32), "c"), c05.mk_effect(it, loader, "NOP", "b")],
         rp=R("{ while (RsV) { RdV = 1; } }"))
    case("iteration_stmt", "do-while", "iteration_stmt", lambda it: [Token("DO", "do"), c05.mk_effect(it, loader, "NOP", "b"), Token("WHILE", "while"), irkit.mk_operand(it, "Variable", (True, 32), "c")],
         rp=R("{ do { RdV = 1; } while (RsV); }"))
    case("selection_stmt", "switch", "selection_stmt", lambda it: [Token("SWITCH", "switch"), irkit.mk_operand(it, "Variable", (True, 32), "c"), c05.mk_effect(it, loader, "NOP", "b")],
         rp=R("{ switch (RsV) { RdV = 1; } }"))
    for fn in ("memcpy", "foo", "fSATN"):
        case("sub_routine", f"unknown function {fn}", "sub_routine", lambda it, fn=fn: [fn, irkit.mk_operand(it, "Variable", (True, 32), "a")],
             rp=R("{ RdV = %s(RsV); }" % fn))
    case("postfix_expr", "array access a[i]", "postfix_expr", lambda it: [irkit.mk_operand(it, "Variable", (True, 32), "a"), irkit.mk_operand(it, "Number", (True, 32), "i")],
         rp=R("{ RdV = RsV[1]; }"))
    case("postfix_expr", "member access a.b", "postfix_expr", lambda it: [irkit.mk_operand(it, "Variable", (True, 32), "a"), Token("IDENTIFIER", "b")], rp=R("{ RdV = RsV.b; }"))
    case("postfix_expr", "pointer member a->b", "postfix_expr", lambda it: [irkit.mk_operand(it, "Variable", (True, 32), "a"), Token("PTR_OP", "->"), Token("IDENTIFIER", "b")],
         rp=R("{ RdV = RsV->b; }"))
    case("unary_expr", "dereference *p", "unary_expr", lambda it: [Token("UNARY_OP", "*"), irkit.mk_operand(it, "Variable", (True, 32), "a")], rp=R("{ RdV = *RsV; }"))
    case("unary_expr", "address-of &x", "unary_expr", lambda it: [Token("UNARY_OP", " &R"), irkit.mk_operand(it, "Variable", (True, 32), "a")])


# ------------------------------------------------------------------------------------------ consumers + Tree injection
def gen_consumers(loader, check, replay_on=True):
    T = loader.load(tkit.M_T).globals["RZILTransformer"]
    Seq = irkit.C(loader, "Sequence")
    check.under_contract(loader, Seq.methods["__init__"], T.methods["emit_final_seq_return"])
    # Sequence.__init__ over a list of any length: a Tree element raises (loop rule, arbitrary position)
    check.instances_declared += 1

    def setup(it):
        s = AbsSeq("effects", c05.SeqInitLoop(loader))
        it.ctx.assume(s.length >= 0)
        return s
    ex = explore(loader, setup, lambda it, s: it.call(Seq, ["seq", s], {}), target=f"{irkit.CLS['Sequence']}.Sequence.__init__")
    check.absorb(ex, "Sequence.__init__ any length")
    if ex.paths:
        check.instances_generated += 1
    saw_tree = False
    for i, p in enumerate(ex.paths):
        kind = getattr(p.ctx, "loop_kind", (None, None))[1]
        if kind == "Tree":
            saw_tree = True
            rp = ("c15.source", lambda mdl: {"src": "{ RdV = 1; l: RsV = 2; }"}) if replay_on else None
            check.ob("Sequence.__init__#a-production-without-handler-in-a-statement-list-raises", f"position=any path={i}", p.ctx.pc,
                     p.outcome == "raise" and p.value.cls is NotImplementedError, replay=rp, detail=f"outcome {p.outcome}")
        elif p.outcome == "loop-step":
            for (n, inst, goal, detail) in p.ctx.obligations:
                if "element=" in inst and any(k in inst for k in ("NOP", "Assignment")):
                    check.ob("Sequence.__init__#effects-are-kept", f"path={i} {inst}", p.ctx.pc, goal, detail=detail)
    check.ob("Sequence.__init__#tree-element-case-explored", "any", [], saw_tree)

    # final instruction sequence: a Tree among the top-level items raises
    for pos in (0, 1, 2):
        check.instances_declared += 1

        def setup2(it, pos=pos):
            t = tkit.mk_transformer(it)
            items = [c05.mk_effect(it, loader, "Assignment", f"s{i}") for i in range(2)]
            items.insert(pos, Tree("expr", []))
            return {"t": t, "items": items}
        ex = explore(loader, setup2, lambda it, st: it.call(tkit.method(it, st["t"], "emit_final_seq_return"), [st["items"], ""], {}))
        check.absorb(ex, f"emit_final_seq_return tree@{pos}")
        if ex.paths:
            check.instances_generated += 1
        for p in ex.paths:
            rp = ("c15.source", lambda mdl: {"src": "{ RdV = 1, RsV = 2; }"}) if replay_on else None
            check.ob("emit_final_seq_return#a-production-without-handler-among-the-statements-raises", f"position={pos}", p.ctx.pc,
                     p.outcome == "raise", replay=rp, detail=f"returned text without the unhandled production" if p.outcome == "return" else "")


def gen_injection(loader, check, replay_on=True):
    """every callback with a Tree in child position i: raises, or the Tree is still reachable from the result"""
    T = loader.load(tkit.M_T).globals["RZILTransformer"]

    def V(it, n="a", t=(True, 32)):
        return irkit.mk_operand(it, "Variable", t, n)

    def E(it, n="e"):
        return c05.mk_effect(it, loader, "Assignment", n)
    table = {
        "additive_expr": (lambda it: [V(it, "a"), Token("ADD_OP", "+"), V(it, "b")], [0, 2]),
        "multiplicative_expr": (lambda it: [V(it, "a"), Token("MUL_OP", "*"), V(it, "b")], [0, 2]),
        "and_expr": (lambda it: [V(it, "a"), Token("BIT_AND_OP", "&"), V(it, "b")], [0, 2]),
        "inclusive_or_expr": (lambda it: [V(it, "a"), Token("BIT_OR_OP", "|"), V(it, "b")], [0, 2]),
        "exclusive_or_expr": (lambda it: [V(it, "a"), Token("BIT_XOR_OP", "^"), V(it, "b")], [0, 2]),
        "shift_expr": (lambda it: [V(it, "a"), Token("LEFT_OP", "<<"), V(it, "b")], [0, 2]),
        "relational_expr": (lambda it: [V(it, "a"), Token("LT_OP", "<"), V(it, "b")], [0, 2]),
        "equality_expr": (lambda it: [V(it, "a"), Token("EQ_OP", "=="), V(it, "b")], [0, 2]),
        "logical_and_expr": (lambda it: [V(it, "a"), Token("AND_OP", "&&"), V(it, "b")], [0, 2]),
        "logical_or_expr": (lambda it: [V(it, "a"), Token("OR_OP", "||"), V(it, "b")], [0, 2]),
        "unary_expr": (lambda it: [Token("UNARY_OP", "~"), V(it, "a")], [1]),
        "cast_expr": (lambda it: [conc_vt(loader, (False, 64)), V(it, "a")], [1]),
        "conditional_expr": (lambda it: [V(it, "c"), V(it, "a"), V(it, "b")], [0, 1, 2]),
        "assignment_expr": (lambda it: [irkit.mk_var(it, "d", (True, 32)), Token("ASSIGN_OP", "="), V(it, "s")], [0, 2]),
        "init_declarator": (lambda it: [Token("IDENTIFIER", "v"), V(it, "s")], [1]),
        "mem_store": (lambda it: [Token("MEM_STORE", "mem_store_"), Token("SIGN_TYPE", "u"), Token("BIT_WIDTH", "32"), V(it, "ea", (False, 32)), V(it, "d")], [3, 4]),
        "mem_load": (lambda it: [Token("MEM_LOAD", "mem_load_"), Token("SIGN_TYPE", "u"), Token("BIT_WIDTH", "32"), V(it, "ea", (False, 32))], [3]),
        "jump": (lambda it: [Token("JUMP", "JUMP"), V(it, "t", (False, 32))], [1]),
        "jump_stmt": (lambda it: [Token("RETURN", "return"), V(it, "r")], [1]),
        "postfix_expr": (lambda it: [irkit.mk_var(it, "v", (True, 32)), Token("INC_OP", "++")], [0]),
        "selection_stmt": (lambda it: [Token("IF", "if"), V(it, "c"), E(it, "t"), Token("ELSE", "else"), E(it, "e")], [1, 2, 4]),
        "iteration_stmt": (lambda it: [Token("FOR", "for"), E(it, "init"), V(it, "c"), E(it, "step"), E(it, "body")], [1, 2, 3, 4]),
        "gcc_extended_expr": (lambda it: [E(it, "s"), V(it, "v")], [0, 1]),
        "block_item": (lambda it: [E(it, "s")], [0]),
        "block_item_list": (lambda it: [E(it, "s0"), E(it, "s1")], [0, 1]),
        "argument_expr_list": (lambda it: [V(it, "a"), V(it, "b")], [0, 1]),
        "macro_expr": (lambda it: [Token("RIZIN_MACRO", "extract32"), V(it, "a", (False, 32)), V(it, "b"), V(it, "c")], [1, 2, 3]),
        "sub_routine": (lambda it: ["fn1", V(it, "a")], [1]),
        "declaration": (lambda it: [conc_vt(loader, (True, 32)), "x"], [1]),
    }
    covered = set()
    for cb, (mk, positions) in sorted(table.items()):
        check.under_contract(loader, T.methods[cb])
        covered.add(cb)
        for pos in positions:
            inst = f"{cb} child={pos}"
            check.instances_declared += 1

            def setup(it, mk=mk, pos=pos, cb=cb):
                t = tkit.mk_transformer(it, params=[it.call(irkit.C(loader, "Parameter"), ["p0", conc_vt(loader, (True, 32))], {})] if cb == "jump_stmt" else None,
                                        return_type=conc_vt(loader, (True, 32)) if cb == "jump_stmt" else None)
                if cb == "macro_expr":
                    mac = it.call(irkit.C(loader, "Macro"), ["extract32", conc_vt(loader, (False, 32)), [conc_vt(loader, (False, 32)), conc_vt(loader, (True, 32)), conc_vt(loader, (True, 32))], "EXTRACT32"], {})
                    t.fields["macros"]["extract32"] = mac
                if cb == "sub_routine":
                    par = it.call(irkit.C(loader, "Parameter"), ["x", conc_vt(loader, (True, 32))], {})
                    t.fields["sub_routines"]["fn1"] = it.call(irkit.C(loader, "SubRoutine"), ["fn1", conc_vt(loader, (True, 32)), [par], "return x;"], {})
                items = mk(it)
                tree = Tree("expr", [])
                items[pos] = tree
                for x in items:
                    if isinstance(x, Obj) and x.cls.is_subclass_of(irkit.C(loader, "Variable")) and not x.stubs:
                        t.fields["il_ops_holder"].fields["read_ops"][x.fields["name"]] = x
                return {"t": t, "items": items, "tree": tree}
            ex = explore(loader, setup, lambda it, st, cb=cb: it.call(tkit.method(it, st["t"], cb), [st["items"]], {}))
            check.absorb(ex, f"injection {inst}")
            if ex.paths:
                check.instances_generated += 1
            for i, p in enumerate(ex.paths):
                if p.outcome == "raise":
                    check.ob("callback#unhandled-child-is-rejected-or-passed-on", inst, p.ctx.pc, True)
                elif p.outcome == "return":
                    kept = reachable(p.value, p.state["tree"]) or reachable(p.state["t"].fields["il_ops_holder"].fields["hybrid_effect_dict"], p.state["tree"])
                    check.ob("callback#unhandled-child-is-rejected-or-passed-on", inst, p.ctx.pc, kept,
                             detail=f"{cb} returned {p.value!r} from which the unhandled child has vanished")
    rule_cbs = set(check.extra.get("production_inventory", {}))
    check.extra["injection_covered_callbacks"] = sorted(covered)


# ------------------------------------------------------------------------------------------ replay
UNHANDLED_FORMS = ["{ RdV = 1; l: RsV = 2; }", "{ RdV = 1, RsV = 2; }", "{ l: { RdV = 1; RsV = 2; } }", "{ if (RsV) { l: { RdV = 1; RtV = 2; } } }",
                   "{ RdV = 1; m: l: RsV = 2; }", "{ l: RdV = 1, RsV = 2; }"]


@replay.register("c15.source")
def replay_source(a):
    c = irkit.real_compiler()
    srcs = [a["src"]]
    if a.get("family") == "unhandled-production" or any(a["src"] == f for f in UNHANDLED_FORMS):
        srcs += [f for f in UNHANDLED_FORMS if f != a["src"]]      # the clause speaks about every production without handler
    out = []
    for src in srcs:
        try:
            txt = c.compile_c_stmt(src)
        except Exception as e:
            out.append(f"{src} is rejected ({type(e).__name__})")
            continue
        seq = [l for l in txt.splitlines() if "instruction_sequence =" in l]
        return True, f"{src} is accepted and compiles to: {seq}"
    return False, "; ".join(out)


def gen_stmt_lists(loader, check, replay_on=True):
    """statement lists of if / else / for bodies and blocks, including blocks nested in blocks: every statement reaches the emitted
    sequence, in order (the statement-list clauses of C05's callback contracts)"""
    saved = getattr(check, "ob_filter", None)
    check.ob_filter = r"statements-in-order|#total|in-order|runs-body-then-step|#flatten|loop\."
    try:
        c05.gen_stmt_callbacks(loader, check, replay_on)
        c05.gen_task(loader, check, "flatten", replay_on)
    finally:
        check.ob_filter = saved


def gen_task(loader, check, what, replay_on=True):
    {"inventory": gen_inventory, "rejecting": gen_rejecting, "consumers": gen_consumers, "injection": gen_injection, "stmt_lists": gen_stmt_lists}[what](loader, check, replay_on)


def generate_reduced(loader, check):
    for w in ("inventory", "rejecting", "consumers", "injection", "stmt_lists"):
        gen_task(loader, check, w, False)


def run(check: Check):
    check.trust("T-VCGEN: pyvc interpretation of the Python subset (mutant self-test, native replay)")
    check.trust("T-LARK: Transformer.transform calls the callback named after each rule (alias) bottom-up; a rule without callback yields "
                "Tree(rule, children) unless it is a ?rule with exactly one child, which is replaced by that child")
    check.trust("T-IND: a Tree that is still contained in a callback's result is rejected later - by a statement-list consumer (proved here) "
                "or by emission, which calls il_read/il_write/effect_var on every child (a lark Tree has none of them)")
    check.assume("A-NAMES: add_op through its contract")
    check.assume("value placeholders (Pure items in statement lists) and pending side effects are C06's; this check covers statements, "
                 "unsupported constructs and unhandled productions")
    check.run_parallel("contracts.c15", "gen_task", [{"what": w} for w in ("inventory", "rejecting", "consumers", "injection", "stmt_lists")], workers=WORKERS)
    run_mutants(check, MUTANTS, "contracts.c15", "generate_reduced")
    return check.finish(
        level="proof",
        rule="one obligation per grammar rule (inventory), per rejected construct, per consumer and per (callback, child position) injection")
