"""IR construction kit for the sidecar contracts.

* abstract operands: heap records of the real IR classes (built by interpreting the real
  constructors) whose il_read() is replaced by its *contract* - a fresh atom carrying the ghost
  sort/den - so that a caller is checked against the callee's contract, not its body;
* a tiny JSON language to rebuild the same situation with the real classes for native replay.
"""
from __future__ import annotations
import z3

from pyvc.values import Obj, Tpl, Atom, SInt
from spec import c11, rzil, ir
from .common import conc_vt, tname

P = "rzilcompiler.Transformer.Pures."
H = "rzilcompiler.Transformer.Hybrids."
E = "rzilcompiler.Transformer.Effects."

CLS = {
    "Variable": P + "Variable", "Register": P + "Register", "Immediate": P + "Immediate", "Number": P + "Number",
    "Sizeof": P + "Sizeof", "Parameter": P + "Parameter", "Cast": P + "Cast", "ArithmeticOp": P + "ArithmeticOp",
    "BitOp": P + "BitOp", "CompareOp": P + "CompareOp", "BooleanOp": P + "BooleanOp", "Ternary": P + "Ternary",
    "MemLoad": P + "MemLoad", "MacroInvocation": P + "Macro", "LocalVar": P + "LocalVar", "Bool": P + "Bool",
    "LetVar": P + "LetVar", "PureExec": P + "PureExec", "Pure": P + "Pure", "GlobalVar": P + "GlobalVar",
    "ReturnValue": P + "ReturnValue", "Macro": P + "Macro", "MemAccessType": P + "MemLoad",
    "PostfixIncDec": H + "PostfixIncDec", "GCCStmtDeclExpr": H + "GCCStmtDeclExpr", "Call": H + "Call",
    "SubRoutine": H + "SubRoutine", "SubRoutineCall": H + "SubRoutine", "Hybrid": H + "Hybrid",
    "Assignment": E + "Assignment", "Sequence": E + "Sequence", "Branch": E + "Branch", "ForLoop": E + "ForLoop",
    "Empty": E + "Empty", "NOP": E + "NOP", "Jump": E + "Jump", "MemStore": E + "MemStore", "Effect": E + "Effect",
}

# operand kinds K: every IR class that can appear as a child of an emitting node
BV_KINDS = ["Variable", "Register", "Immediate", "Number", "Sizeof", "Parameter", "Cast", "ArithmeticOp", "BitOp",
            "Ternary", "MemLoad", "MacroInvocation", "HybridTmp"]
BOOL_KINDS = ["CompareOp", "BooleanOp", "Bool"]
# further bit-vector operand shapes some emitters look into (not part of ALL_KINDS: added explicitly where they matter)
EXTRA_BV_KINDS = ["CastOfNumber", "PredRegister"]
ALL_KINDS = BV_KINDS + BOOL_KINDS


def C(loader, name):
    return loader.load(CLS[name]).globals[name]


def enum(loader, module_cls, name):
    return loader.load(CLS[module_cls]).globals[name]


def il_read_stub(it, obj, args, kwargs):
    """Contract of Pure.il_read() for an abstract operand: returns text denoting den(obj) of
    sort(obj); the operand's read counter advances (the only permitted effect)."""
    n = obj.ghost["nreads"] = obj.ghost.get("nreads", 0) + 1
    obj.ghost.setdefault("read_log", []).append(n)
    meta = {"sort": obj.ghost["sort"], "den": obj.ghost["den"], "owner": obj}
    return Tpl([Atom(obj.label, n, meta=meta, kind="read")])


def str_stub(it, obj, args, kwargs):
    return Tpl([Atom(obj.label, 0, kind="str")])


def mk_var(it, name, t, group=None):
    L = it.loader
    return it.call(C(L, "Variable"), [name, conc_vt(L, t, group)], {})


def mk_operand(it, kind, t, label):
    """Abstract operand of IR class `kind` whose C type is t (for bool-sorted kinds t is the type
    of its own children)."""
    L = it.loader
    G = L.load("rzilcompiler.Transformer.ValueType").globals["VTGroup"]
    w = t[1]
    if kind == "Variable":
        o = mk_var(it, label, t)
    elif kind == "HybridTmp":
        owner = it.call(C(L, "PostfixIncDec"), ["op_INC", mk_var(it, label + "_v", t), conc_vt(L, t),
                                                enum(L, "Hybrid", "HybridType")("++")], {})
        o = it.call(C(L, "LocalVar"), ["h_tmp0", conc_vt(L, t, G.PURE | G.HYBRID_LVAR)], {"hybrid_owner": owner})
    elif kind == "Register":
        RA = enum(L, "Register", "RegisterAccessType")
        o = it.call(C(L, "Register"), ["Rs", RA.R, conc_vt(L, t)], {})
    elif kind == "PredRegister":
        # a predicate register operand (Pu): 8 bits, any value (0x00 / 0xff are only the values the compare instructions produce)
        RA = enum(L, "Register", "RegisterAccessType")
        o = it.call(C(L, "Register"), ["Pu", RA.R, conc_vt(L, t)], {})
    elif kind == "Immediate":
        o = it.call(C(L, "Immediate"), ["s", conc_vt(L, t)], {})
    elif kind == "Number":
        o = it.call(C(L, "Number"), ["const_1", SInt(z3.Int(label + "_lit")), conc_vt(L, t)], {})
    elif kind == "CastOfNumber":
        # a literal of type int that had to be converted to t (what `x < 0` builds for a 64-bit or unsigned x): Cast(t, Number)
        lit = z3.Int(label + "_lit")
        num = it.call(C(L, "Number"), ["const_lit", SInt(lit), conc_vt(L, (True, 32))], {})
        num.fields["inlined"] = True
        it.ctx.assume(z3.And(lit >= 0, lit < 2 ** 31))       # source literals are non-negative (a folded negative one converted to a wider unsigned type is finding F1)
        o = it.call(C(L, "Cast"), ["cast", conc_vt(L, t), num], {})
        o.fields["inlined"] = True
    elif kind == "Sizeof":
        o = it.call(C(L, "Sizeof"), ["op_sizeof", mk_var(it, label + "_v", (True, 32))], {})
        o.fields["value_type"] = conc_vt(L, t)
    elif kind == "Parameter":
        o = it.call(C(L, "Parameter"), [label, conc_vt(L, t)], {})
    elif kind == "Cast":
        o = it.call(C(L, "Cast"), ["cast", conc_vt(L, t), mk_var(it, label + "_v", (False, 64 if w != 64 else 32))], {})
    elif kind == "ArithmeticOp":
        AT = enum(L, "ArithmeticOp", "ArithmeticType")
        o = it.call(C(L, "ArithmeticOp"), ["op_ADD", mk_var(it, label + "_a", t), mk_var(it, label + "_b", t), AT("+")], {})
    elif kind == "BitOp":
        BT = enum(L, "BitOp", "BitOperationType")
        o = it.call(C(L, "BitOp"), ["op_AND", mk_var(it, label + "_a", t), mk_var(it, label + "_b", t), BT("&")], {})
    elif kind == "Ternary":
        o = it.call(C(L, "Ternary"), ["cond", mk_var(it, label + "_c", (True, 32)), mk_var(it, label + "_a", t),
                                      mk_var(it, label + "_b", t)], {})
    elif kind == "MemLoad":
        mat = it.call(C(L, "MemAccessType"), [conc_vt(L, t), True], {})
        o = it.call(C(L, "MemLoad"), ["ml_EA", mk_var(it, "EA", (False, 32)), mat], {})
    elif kind == "MacroInvocation":
        mac = it.call(C(L, "Macro"), ["extract32", conc_vt(L, t), [conc_vt(L, (False, 32))], "EXTRACT32"], {})
        o = it.call(C(L, "MacroInvocation"), ["extract32", [mk_var(it, label + "_a", (False, 32))], mac], {})
    elif kind == "CompareOp":
        CT = enum(L, "CompareOp", "CompareOpType")
        o = it.call(C(L, "CompareOp"), ["op_LT", mk_var(it, label + "_a", t), mk_var(it, label + "_b", t), CT("<")], {})
    elif kind == "BooleanOp":
        BT = enum(L, "BooleanOp", "BooleanOpType")
        o = it.call(C(L, "BooleanOp"), ["op_AND", mk_var(it, label + "_a", t), mk_var(it, label + "_b", t), BT("&&")], {})
    elif kind == "Bool":
        o = it.call(C(L, "Bool"), ["True", True], {})
    else:
        raise ValueError(kind)
    o.label = label
    if kind in BOOL_KINDS:
        o.ghost["sort"] = "bool"
        o.ghost["den"] = z3.Bool(label)
    else:
        o.ghost["sort"] = ("bv", w)
        o.ghost["den"] = z3.BitVec(label, w)
    if kind == "CastOfNumber":
        # den == conv_C11(int -> t) of the literal's value
        v32 = z3.Int2BV(z3.Int(label + "_lit"), 32)
        conv = v32 if w == 32 else (z3.Extract(w - 1, 0, v32) if w < 32 else z3.SignExt(w - 32, v32))
        it.ctx.assume(o.ghost["den"] == conv)
    if kind == "Number" and w <= 64:
        # the literal's value is what the node denotes (source literals have at most 64 bits; for the wide vector types of the thorough
        # tier the operand stays opaque - an Int2BV of 1024 bits only costs solver time): den == the w-bit pattern of its (in-range) value
        lit = z3.Int(label + "_lit")
        it.ctx.assume(z3.And(lit >= (-(2 ** (w - 1)) if t[0] else 0), lit < (2 ** (w - 1) if t[0] else 2 ** w)))
        it.ctx.assume(o.ghost["den"] == z3.Int2BV(lit, w))
    o.ghost["kind"] = kind
    o.ghost["ctype"] = t
    o.stubs["il_read"] = il_read_stub
    o.stubs["__str__"] = str_stub
    return o


def op_type(o):
    """C type the operand's value_type currently says (concrete)."""
    return ir.vt(o)


# ------------------------------------------------------------------------------------------
# native replay: rebuild with the real classes
def real_build(spec, env=None):
    """spec: ["var", name, [s,w]] | ["cast", [s,w], x] | ["arith", op, a, b] | ["bitop", op, a, b|None]
    | ["cmp", op, a, b] | ["boolop", op, a, b|None] | ["ternary", c, a, b] | ["num", value, [s,w]]"""
    from rzilcompiler.Transformer.ValueType import ValueType, VTGroup
    from rzilcompiler.Transformer.Pures.Variable import Variable
    from rzilcompiler.Transformer.Pures.Cast import Cast
    from rzilcompiler.Transformer.Pures.ArithmeticOp import ArithmeticOp, ArithmeticType
    from rzilcompiler.Transformer.Pures.BitOp import BitOp, BitOperationType
    from rzilcompiler.Transformer.Pures.CompareOp import CompareOp, CompareOpType
    from rzilcompiler.Transformer.Pures.BooleanOp import BooleanOp, BooleanOpType
    from rzilcompiler.Transformer.Pures.Ternary import Ternary
    from rzilcompiler.Transformer.Pures.Number import Number
    k = spec[0]
    if k == "var":
        return Variable(spec[1], ValueType(spec[2][0], spec[2][1]))
    if k == "bool":
        from rzilcompiler.Transformer.Pures.Bool import Bool
        b = Bool("True" if spec[1] else "False", bool(spec[1]))
        b.inlined = True
        return b
    if k == "num":
        n = Number("const", spec[1], ValueType(spec[2][0], spec[2][1]))
        n.inlined = True
        return n
    if k == "cast":
        c = Cast("cast", ValueType(spec[1][0], spec[1][1]), real_build(spec[2]))
        c.inlined = True
        return c
    if k == "arith":
        n = ArithmeticOp("op", real_build(spec[2]), real_build(spec[3]), ArithmeticType(spec[1]))
    elif k == "bitop":
        n = BitOp("op", real_build(spec[2]), real_build(spec[3]) if spec[3] is not None else None,
                  BitOperationType(spec[1]))
    elif k == "cmp":
        n = CompareOp("op", real_build(spec[2]), real_build(spec[3]), CompareOpType(spec[1]))
    elif k == "boolop":
        n = BooleanOp("op", real_build(spec[2]), real_build(spec[3]) if spec[3] is not None else None,
                      BooleanOpType(spec[1]))
    elif k == "ternary":
        n = Ternary("op", real_build(spec[1]), real_build(spec[2]), real_build(spec[3]))
    else:
        raise ValueError(k)
    n.inlined = True   # so that il_read() renders the whole expression
    return n


def eval_text_concrete(text, locals_w, values):
    """Parses emitted text, sort-checks it and evaluates it with VARL(name) := values[name].
    Returns (sort, python value | None, error | None)."""
    try:
        term = rzil.parse_expr(text)
        ev = rzil.Evaluator(locals_w=locals_w, strict_locals=True)
        v = ev.ev(term)
    except (rzil.ParseError, rzil.SortError) as e:
        return None, None, f"{type(e).__name__}: {e}"
    if v.v is None:
        return v.sort, None, None
    subs = []
    for n, w in locals_w.items():
        if n in values:
            subs.append((z3.BitVec(f"local_{n}", w), z3.BitVecVal(values[n], w)))
    r = z3.simplify(z3.substitute(v.v, *subs))
    if z3.is_bv_value(r):
        return v.sort, r.as_long(), None
    if z3.is_true(r) or z3.is_false(r):
        return v.sort, z3.is_true(r), None
    return v.sort, None, f"not ground: {r}"


def spec_leaves(spec, out=None):
    out = {} if out is None else out
    if isinstance(spec, list):
        if spec and spec[0] == "var":
            out[spec[1]] = spec[2][1]
        else:
            for x in spec:
                spec_leaves(x, out)
    return out


def c_eval_concrete(expr, values):
    """Evaluates a z3 expression of spec.c11 under concrete leaf values -> python int/bool."""
    subs = [(z3.BitVec(n, w), z3.BitVecVal(v, w)) for (n, w), v in values.items()]
    r = z3.simplify(z3.substitute(expr, *subs))
    if z3.is_bv_value(r):
        return r.as_long()
    if z3.is_true(r) or z3.is_false(r):
        return z3.is_true(r)
    raise ValueError(f"not ground {r}")


_COMPILERS = {}


def real_compiler(fmt=None):
    """a (cached) real Compiler for source-level replays; every replay leaves it reset (compile_c_stmt resets)"""
    from rzilcompiler.Compiler import Compiler
    from rzilcompiler.ArchEnum import ArchEnum
    from rzilcompiler.Transformer.RZILTransformer import CodeFormat
    import io
    import contextlib
    key = fmt or "READ_STATEMENTS"
    if key not in _COMPILERS:
        with contextlib.redirect_stdout(io.StringIO()):
            _COMPILERS[key] = Compiler(ArchEnum.HEXAGON, code_format=CodeFormat[key])
    c = _COMPILERS[key]
    c.transformer.reset()
    return c
