"""C08 - sub-routine calls follow the C calling convention and isolate the callee.

Convention (contracts on the real functions):
  * cast_arg_list / cast_sub_routine_args: for argument lists of ANY length (fold invariant): external / enum / packet
    parameters are passed through unchanged, value arguments become conv_C11(arg -> parameter type), positions
    are kept, a count mismatch is rejected;
  * build_arg_list (any length): comma-joined texts in parameter order - values are read, operands of external
    type are passed by their operand variable / name;
  * sub_routine / macro_expr callbacks: known routine -> SubRoutineCall over the converted arguments, placeholder
    of the declared return type; unknown name -> rejected (c_call); argument count mismatch -> rejected;
  * the return path is C03's lemma (jump_stmt + SubRoutine.il_read); SubRoutineCall emission is in the catalogue;
  * add_sub_routine / compile_sub_routine: parameter declarations parsed into typed Parameters (table over the C
    type spellings), body compiled on a fresh transformer (C14), routine registered.
Isolation: a compiled routine body may assign only its own locals, ret_val and its own temporaries h_tmp0..; the
call-site obligation is that these are disjoint from what is live in the caller.  The temporaries restart at
h_tmp0 in every routine (fresh holder), so the obligation is refutable - known finding F10.
"""
from __future__ import annotations
import json
import os
import re
import z3
from lark import Token

from pyvc.interp import explore, NativeAbs, AbsSeq, LoopContract
from pyvc.loader import Loader
from pyvc.values import Obj, Tpl, Atom, SInt, Unsupported
from pyvc.vc import Check
from pyvc import replay
from spec import c11, ir
from . import irkit, tkit, emit, c05
from .common import WORKERS, T8, tname, conc_vt, run_mutants
from .c03 import c_conv_den

PROP = "C08"
Z3_TIMEOUT_MS = 4000
CVC5_TIMEOUT_MS = 30000

MUTANTS = [
    {"name": "get_fcn_param_types: the slot argument of STORE_SLOT_CANCELLED is passed as a 32-bit value", "file": "rzilcompiler/HexagonExtensions.py",
     "old": 'return [ValueType(False, 32, VTGroup.EXTERNAL, "HexPkt *"), ValueType(False, 8)]', "new": 'return [ValueType(False, 32, VTGroup.EXTERNAL, "HexPkt *"), ValueType(False, 32)]'},
    {"name": "get_val_type_by_fcn: get_npc yields a signed value", "file": "rzilcompiler/HexagonExtensions.py",
     "old": '        if fcn_name == "get_npc":\n            return ValueType(False, 32)', "new": '        if fcn_name == "get_npc":\n            return ValueType(True, 32)'},
    {"name": "cast_arg_list: arguments before an external parameter are skipped too (continue -> break)", "file": "rzilcompiler/Transformer/RZILTransformer.py",
     "old": "            if p_type.group & VTGroup.EXTERNAL:\n                # Here we pass non Pures. So we can't cast them.\n                continue", "new": "            if p_type.group & VTGroup.EXTERNAL:\n                # Here we pass non Pures. So we can't cast them.\n                break"},
    {"name": "cast_arg_list: converted argument stored at position 0", "file": "rzilcompiler/Transformer/RZILTransformer.py",
     "old": '            args[i] = self.init_a_cast(p_type, arg, "param_cast")', "new": '            args[0] = self.init_a_cast(p_type, arg, "param_cast")'},
    {"name": "cast_arg_list: count mismatch tolerated", "file": "rzilcompiler/Transformer/RZILTransformer.py",
     "old": "        if len(args) != len(param_types):\n            raise ValueError(\n                f\"Argument and parameter count mismatch", "new": "        if len(args) > len(param_types):\n            raise ValueError(\n                f\"Argument and parameter count mismatch"},
    {"name": "build_arg_list: separator dropped", "file": "rzilcompiler/Transformer/Hybrids/SubRoutine.py",
     "old": '        if i > 0:\n            code += ", "', "new": '        if i > 1:\n            code += ", "'},
    {"name": "build_arg_list: value arguments passed by name instead of read", "file": "rzilcompiler/Transformer/Hybrids/SubRoutine.py",
     "old": "            # Normal pure.\n            code += arg.il_read()", "new": "            # Normal pure.\n            code += arg.get_name()"},
    {"name": "sub_routine: arguments not converted", "file": "rzilcompiler/Transformer/RZILTransformer.py",
     "old": "            self.add_op(SubRoutineCall(self.sub_routines[routine_name], casted_args))", "new": "            self.add_op(SubRoutineCall(self.sub_routines[routine_name], items[1:]))"},
    {"name": "macro_expr: result typed like the first argument", "file": "rzilcompiler/Transformer/Pures/Macro.py",
     "old": "        PureExec.__init__(self, name, arguments, macro.return_type)", "new": "        PureExec.__init__(self, name, arguments, arguments[0].value_type if arguments else macro.return_type)"},
    {"name": "get_value_type_by_c_type: uintN_t signed", "file": "rzilcompiler/Transformer/ValueType.py",
     "old": '    is_signed = False if type_match["sign"] == "u" else True', "new": '    is_signed = True'},
    {"name": "compile_sub_routine: parameter order reversed", "file": "rzilcompiler/Compiler.py",
     "old": "            params.append(p)\n", "new": "            params.insert(0, p)\n"},
    {"name": "resolve_hybrid: temporaries not prefixed", "file": "rzilcompiler/Transformer/RZILTransformer.py",
     "old": 'tmp_x_name = f"{self.tmp_prefix}h_tmp{self.il_ops_holder.hybrid_op_count}"', "new": 'tmp_x_name = f"h_tmp{self.il_ops_holder.hybrid_op_count}"'},
    {"name": "compile_sub_routine: body temporaries share the caller's names", "file": "rzilcompiler/Compiler.py",
     "old": '            tmp_prefix=f"{name}_",\n', "new": ""},
    {"name": "SubRoutineCall.il_write: arguments built against reversed parameter types", "file": "rzilcompiler/Transformer/Hybrids/SubRoutine.py",
     "old": "        code += build_arg_list(self.args, self.sub_routine.get_parameter_value_types())", "new": "        code += build_arg_list(self.args, list(reversed(self.sub_routine.get_parameter_value_types())))"},
]


class ArgLoop(LoopContract):
    """for i, (arg, p_type) in enumerate(zip(args, param_types)):  invariant: args[j] == convert(args0[j], ptypes[j]) for j < k,
    args[j] untouched for j >= k"""
    name = "cast_arg_list"

    def __init__(self, loader, src, dst):
        self.loader, self.src, self.dst = loader, src, dst
        self.k = z3.Int("k")
        self.writes = []

    def index_term(self):
        return self.k

    def element_kinds(self):
        ks = ["value-same-type", "external", "untyped(None)", "string-argument", "bool-valued"]
        return (["value-needs-cast"] if tuple(self.src) != tuple(self.dst) else []) + ks

    def havoc_prefix(self, it, env, seq):
        it.ctx.assume(z3.And(self.k >= 0, self.k < seq.length))
        del self.writes[:]

    def make_element(self, it, kind, seq):
        L = self.loader
        G = L.load("rzilcompiler.Transformer.ValueType").globals["VTGroup"]
        self.kind = kind
        if kind == "value-needs-cast":
            self.arg, self.pt = irkit.mk_operand(it, "Variable", self.src, "arg"), conc_vt(L, self.dst)
        elif kind == "value-same-type":
            self.arg, self.pt = irkit.mk_operand(it, "Variable", self.dst, "arg"), conc_vt(L, self.dst)
        elif kind == "external":
            vt = conc_vt(L, (False, 64), G.EXTERNAL)
            vt.fields["external_type"] = "const HexOp *"
            self.arg, self.pt = irkit.mk_operand(it, "Register", (True, 32), "arg"), vt
        elif kind == "untyped(None)":
            self.arg, self.pt = irkit.mk_operand(it, "Variable", self.src, "arg"), None
        elif kind == "string-argument":
            self.arg, self.pt = "HEX_ENUM_VALUE", conc_vt(L, self.dst)
        else:
            self.arg, self.pt = irkit.mk_operand(it, "CompareOp", (True, 32), "arg"), conc_vt(L, self.dst)
        return (self.arg, self.pt)

    def check_step(self, it, env, seq, kind, elem, broke):
        w = self.writes
        if kind in ("value-same-type", "external", "untyped(None)", "string-argument"):
            self.oblige(it, "cast_arg_list#loop.step: argument passed through unchanged", f"element={kind}", len(w) == 0 and not broke, detail=str(w))
            return
        ok = len(w) == 1 and isinstance(w[0][0], SInt) and z3.eq(w[0][0].t, self.k) and not broke
        self.oblige(it, "cast_arg_list#loop.step: exactly position k is replaced", f"element={kind}", ok, detail=str([(str(a), b) for a, b in w]))
        if not ok:
            return
        r = w[0][1]
        good = isinstance(r, Obj) and "value_type" in r.fields and not ir.wf_problems(r) and ir.vt(r) == tuple(self.dst) and ir.sort(r) != "bool"
        self.oblige(it, "cast_arg_list#loop.step: replacement is a well-formed node of the parameter type", f"element={kind}", good)
        if good:
            self.oblige(it, "cast_arg_list#loop.step: replacement denotes conv_C11(argument -> parameter type)", f"element={kind}", ir.den(r) == c_conv_den(self.arg, self.dst))

    def havoc_exit(self, it, env, seq):
        pass


class AbsArgs(NativeAbs):
    """the argument list: abstract, same length as the parameter list; index stores are recorded by the loop contract"""
    pytype = list

    def __init__(self, seq, contract, length=None):
        self.abs_seq = seq
        self.contract = contract
        self.length = length if length is not None else seq.length

    def getattr(self, it, name):
        if name == "__len__":
            return SInt(self.length)
        raise Unsupported(f"list.{name} on abstract argument list")

    def setitem(self, it, k, v):
        self.contract.writes.append((k, v))


def gen_cast_arg_list(loader, check, replay_on=True):
    T = loader.load(tkit.M_T).globals["RZILTransformer"]
    check.under_contract(loader, T.methods["cast_arg_list"], T.methods["cast_sub_routine_args"], T.methods["init_a_cast"])
    for src in T8:
        for dst in [(True, 32), (False, 8), (False, 64), (True, 16)]:
            inst = f"arg={tname(src)} param={tname(dst)} list=any-length"
            check.instances_declared += 1

            def setup(it, src=src, dst=dst):
                t = tkit.mk_transformer(it)
                c = ArgLoop(loader, src, dst)
                pts = AbsSeq("param_types", c)
                it.ctx.assume(pts.length >= 0)
                args = AbsArgs(AbsSeq("args", c, pts.length), c)
                it.ctx.mark_pre(t)
                return {"t": t, "args": args, "pts": pts}
            ex = explore(loader, setup, lambda it, st: it.call(tkit.method(it, st["t"], "cast_arg_list"), [st["args"], st["pts"]], {}))
            check.absorb(ex, f"cast_arg_list {inst}")
            if ex.paths:
                check.instances_generated += 1
            seen = set()
            for i, p in enumerate(ex.paths):
                pi = f"{inst} path={i}"
                check.path_obligations(p, pi)
                seen.add(p.outcome)
                if p.outcome == "raise":
                    check.ob("cast_arg_list#total-when-counts-match", pi, p.ctx.pc, False, detail=f"raises {p.value!r}")
            if not ex.undecided:
                check.ob("cast_arg_list#loop.paths", inst, [], {"loop-step", "return"} <= seen, detail=str(seen))
    # count mismatch is rejected
    for na, npar in ((1, 2), (2, 1), (0, 1)):
        check.instances_declared += 1

        def setup_m(it, na=na, npar=npar):
            t = tkit.mk_transformer(it)
            return {"t": t, "args": [irkit.mk_operand(it, "Variable", (True, 32), f"a{i}") for i in range(na)], "pts": [conc_vt(loader, (True, 32)) for _ in range(npar)]}
        ex = explore(loader, setup_m, lambda it, st: it.call(tkit.method(it, st["t"], "cast_arg_list"), [st["args"], st["pts"]], {}))
        check.absorb(ex, "cast_arg_list mismatch")
        if ex.paths:
            check.instances_generated += 1
        for p in ex.paths:
            check.ob("cast_arg_list#count-mismatch-is-rejected", f"{na} arguments for {npar} parameters", p.ctx.pc, p.outcome == "raise" and p.value.cls is ValueError)


class BuildLoop(LoopContract):
    """for i, (arg, ptype) in enumerate(zip(arguments, param_types)):  invariant: code == ', '.join(text(j) for j < k)"""
    name = "build_arg_list"

    def __init__(self, loader):
        self.loader = loader
        self.k = z3.Int("k")

    def index_term(self):
        return self.k

    def element_kinds(self):
        return ["value", "value-parameter", "external-register", "external-parameter", "external-string", "macro-argument", "float-param"]

    def check_entry(self, it, env, seq):
        self.oblige(it, "build_arg_list#loop.base", "", env.vars.get("code") == "")

    def havoc_prefix(self, it, env, seq):
        it.ctx.assume(z3.And(self.k >= 0, self.k < seq.length))
        env.vars["code"] = Tpl([Atom("code_prefix", 0, kind="prefix")])

    def make_element(self, it, kind, seq):
        L = self.loader
        G = L.load("rzilcompiler.Transformer.ValueType").globals["VTGroup"]
        RA = irkit.enum(L, "Register", "RegisterAccessType")
        ext = conc_vt(L, (False, 64), G.EXTERNAL)
        ext.fields["external_type"] = "const HexOp *"
        self.kind = kind
        if kind == "value":
            self.arg, pt = irkit.mk_operand(it, "Variable", (True, 32), "arg"), conc_vt(L, (True, 32))
        elif kind == "value-parameter":
            # a borrowed pure parameter of the routine being compiled, passed on: it must be READ (raw once, DUP afterwards)
            self.arg, pt = it.call(irkit.C(L, "Parameter"), ["p", conc_vt(L, (True, 32))], {}), conc_vt(L, (True, 32))
            self.arg.fields["reads"] = self.reads0 = SInt(z3.Int("reads0"))
            it.ctx.assume(self.reads0.t >= 0)
        elif kind == "external-register":
            self.arg, pt = it.call(irkit.C(L, "Register"), ["Rd", RA.W, conc_vt(L, (True, 32))], {}), ext
        elif kind == "external-parameter":
            self.arg, pt = it.call(irkit.C(L, "Parameter"), ["bundle", ext], {}), ext
        elif kind == "external-string":
            self.arg, pt = "HEX_REG_FIELD_USR_LPCFG", ext
        elif kind == "macro-argument":
            mac = it.call(irkit.C(L, "Macro"), ["REGFIELD", conc_vt(L, (False, 32)), [], "HEX_REGFIELD"], {})
            self.arg, pt = it.call(irkit.C(L, "MacroInvocation"), ["REGFIELD", [], mac], {}), conc_vt(L, (False, 32))
        else:
            FF = L.load("rzilcompiler.Transformer.ValueType").globals["FloatFormat"]
            vt = conc_vt(L, (True, 32), G.FLOAT | G.IEEE)
            vt.fields["format"] = FF.IEEE754_BIN_32
            self.arg, pt = irkit.mk_operand(it, "Variable", (True, 32), "arg"), vt
        return (self.arg, pt)

    def check_step(self, it, env, seq, kind, elem, broke):
        code = env.vars.get("code")
        parts = code.parts if isinstance(code, Tpl) else None
        ok = parts is not None and isinstance(parts[0], Atom) and parts[0].kind == "prefix" and not broke
        tail = Tpl(parts[1:]) if ok else None
        txt = tail.render(lambda a: f"@{a.tag}") if tail is not None else None
        if kind == "value-parameter":
            r1 = self.arg.fields["reads"]
            self.oblige(it, "build_arg_list#loop.step: a borrowed pure parameter is passed on through il_read (read counter advances)", f"element={kind}",
                        isinstance(r1, SInt) and r1.t == self.reads0.t + 1, detail=f"reads {r1!r}")
            first = it.ctx  # noqa: F841
            self.oblige(it, "build_arg_list#loop.step: first read raw, later reads DUP(p)", f"element={kind}",
                        z3.And(z3.Implies(self.reads0.t == 0, z3.BoolVal(txt in ("p", ", p"))), z3.Implies(self.reads0.t >= 1, z3.BoolVal(txt in ("DUP(p)", ", DUP(p)")))), detail=repr(txt))
            return
        want = {"value": "@arg", "float-param": "@arg", "external-register": "Rd_op", "external-parameter": "bundle",
                "external-string": "HEX_REG_FIELD_USR_LPCFG", "macro-argument": "HEX_REGFIELD()"}[kind]
        # the separator is written iff this is not the first argument
        first = (self.k == 0)
        self.oblige(it, "build_arg_list#loop.step: text of argument k appended, ', ' separated, values read / operands by name", f"element={kind}",
                    z3.And(z3.Implies(first, z3.BoolVal(txt == want)), z3.Implies(z3.Not(first), z3.BoolVal(txt == ", " + want))), detail=repr(txt))
        if kind in ("value", "float-param"):
            self.oblige(it, "build_arg_list#loop.step: value argument read exactly once", f"element={kind}", self.arg.ghost.get("nreads", 0) == 1)

    def havoc_exit(self, it, env, seq):
        env.vars["code"] = Tpl([Atom("code_all", 0, kind="prefix", meta={"all": True})])


def gen_build_arg_list(loader, check, replay_on=True):
    f = loader.load(irkit.CLS["SubRoutine"]).globals["build_arg_list"]
    check.under_contract(loader, f)
    check.instances_declared += 1

    def setup(it):
        c = BuildLoop(loader)
        pts = AbsSeq("param_types", c)
        it.ctx.assume(pts.length >= 0)
        return {"args": AbsArgs(AbsSeq("arguments", c, pts.length), c), "pts": pts}
    ex = explore(loader, setup, lambda it, st: it.call(f, [st["args"], st["pts"]], {}))
    check.absorb(ex, "build_arg_list")
    if ex.paths:
        check.instances_generated += 1
    seen = set()
    for i, p in enumerate(ex.paths):
        pi = f"list=any-length path={i}"
        check.path_obligations(p, pi)
        seen.add(p.outcome)
        if p.outcome == "return":
            r = p.value
            ok = isinstance(r, Tpl) and len(r.parts) == 1 and isinstance(r.parts[0], Atom) and r.parts[0].meta.get("all")
            check.ob("build_arg_list#ensures: result is the fold over the whole list", pi, p.ctx.pc, bool(ok), detail=repr(r))
        elif p.outcome == "raise":
            check.ob("build_arg_list#total-when-counts-match", pi, p.ctx.pc, False, detail=f"raises {p.value!r}")
    if not ex.undecided:
        check.ob("build_arg_list#loop.paths", "any", [], {"loop-step", "return"} <= seen, detail=str(seen))


# ------------------------------------------------------------------------------------------ callbacks
def gen_callbacks(loader, check, replay_on=True):
    T = loader.load(tkit.M_T).globals["RZILTransformer"]
    check.under_contract(loader, T.methods["sub_routine"], T.methods["macro_expr"], T.methods["c_call"], T.methods["identifier"],
                         irkit.C(loader, "SubRoutine").methods["get_parameter_value_types"], irkit.C(loader, "SubRoutineCall").methods["__init__"])
    SubC = irkit.C(loader, "SubRoutineCall")
    G = loader.load("rzilcompiler.Transformer.ValueType").globals["VTGroup"]
    for ret, at, k1 in [(r_, a_, k_) for r_ in [(False, 32), (True, 8), (False, 64)] for a_ in [(True, 8), (False, 32), (True, 64)] for k_ in ("Register", "HybridTmp")]:
        if True:
            inst = f"fn(uint16_t, int64_t) -> {tname(ret)} called with ({tname(at)}, {k1}:{tname(at)})"
            check.instances_declared += 1

            def setup(it, ret=ret, at=at, k1=k1):
                t = tkit.mk_transformer(it)
                pars = [it.call(irkit.C(loader, "Parameter"), ["p0", conc_vt(loader, (False, 16))], {}), it.call(irkit.C(loader, "Parameter"), ["p1", conc_vt(loader, (True, 64))], {})]
                sr = it.call(irkit.C(loader, "SubRoutine"), ["fn", conc_vt(loader, ret), pars, "return NOP();"], {})
                t.fields["sub_routines"]["fn"] = sr
                # second argument: a register, or the placeholder of another value-producing operation (nested call / i++)
                a0, a1 = irkit.mk_operand(it, "Variable", at, "a0"), irkit.mk_operand(it, k1, at, "a1")
                it.ctx.mark_pre(t)
                return {"t": t, "sr": sr, "a": [a0, a1]}
            ex = explore(loader, setup, lambda it, st: it.call(tkit.method(it, st["t"], "sub_routine"), [["fn", st["a"][0], st["a"][1]]], {}))
            check.absorb(ex, f"sub_routine {inst}")
            if ex.paths:
                check.instances_generated += 1
            for p in ex.paths:
                pc = p.ctx.pc
                check.ob("sub_routine#total", inst, pc, p.outcome == "return", detail="" if p.outcome == "return" else f"raises {p.value!r}")
                if p.outcome != "return":
                    continue
                tmp = p.value
                h = tmp.fields.get("hybrid_owner") if isinstance(tmp, Obj) else None
                ok = isinstance(h, Obj) and h.cls is SubC and h.fields["sub_routine"] is p.state["sr"]
                check.ob("sub_routine#call-of-the-registered-routine", inst, pc, bool(ok))
                if not ok:
                    continue
                check.ob("sub_routine#caller-receives-a-value-of-the-declared-return-type", inst, pc, ir.vt(tmp) == tuple(ret))
                check.ob("sub_routine#the-routine's-declared-types-are-not-modified-by-the-call", inst, pc,
                         ir.vt_of(p.state["sr"].fields["value_type"]) == tuple(ret) and [ir.vt(q) for q in p.state["sr"].fields["ops"]] == [(False, 16), (True, 64)])
                args = h.fields["args"]
                check.ob("sub_routine#one-argument-per-parameter-in-order", inst, pc, len(args) == 2)
                for k, (pt, a0) in enumerate(zip([(False, 16), (True, 64)], p.state["a"])):
                    r = args[k]
                    good = isinstance(r, Obj) and not ir.wf_problems(r) and ir.vt(r) == pt
                    check.ob("sub_routine#argument-has-the-parameter-type", f"{inst} position={k}", pc, good)
                    if good:
                        check.ob("sub_routine#argument-denotes-conv_C11(argument -> parameter type)", f"{inst} position={k}", pc, ir.den(r) == c_conv_den(a0, pt))
    # consumers of a call result must not retype the routine: the placeholder's type object is the routine's return type object
    for ret in [(False, 32), (False, 64), (True, 8)]:
        for op in ("-", "~"):
            inst = f"{op}fn(x) with fn returning {tname(ret)}"
            check.instances_declared += 1

            def setup_u(it, ret=ret):
                t = tkit.mk_transformer(it)
                pars = [it.call(irkit.C(loader, "Parameter"), ["p0", conc_vt(loader, (True, 32))], {})]
                sr = it.call(irkit.C(loader, "SubRoutine"), ["fn", conc_vt(loader, ret), pars, "return NOP();"], {})
                t.fields["sub_routines"]["fn"] = sr
                a0 = irkit.mk_operand(it, "Variable", (True, 32), "a0")
                return {"t": t, "sr": sr, "a0": a0}

            def run_u(it, st, op=op):
                tmp = it.call(tkit.method(it, st["t"], "sub_routine"), [["fn", st["a0"]]], {})
                return it.call(tkit.method(it, st["t"], "unary_expr"), [[Token("UNARY_OP", op), tmp]], {})
            ex = explore(loader, setup_u, run_u)
            check.absorb(ex, f"sub_routine {inst}")
            if ex.paths:
                check.instances_generated += 1
            for p in ex.paths:
                if p.outcome != "return":
                    check.ob("sub_routine#result-consumer-total", inst, p.ctx.pc, False, detail=repr(p.value))
                    continue
                check.ob("sub_routine#a-consumer-of-the-result-does-not-retype-the-routine", inst, p.ctx.pc,
                         ir.vt_of(p.state["sr"].fields["value_type"]) == tuple(ret), detail=f"return type is now {ir.vt_of(p.state['sr'].fields['value_type'])}",
                         replay=("c08.retype", lambda mdl, ret=ret, op=op: {"ret": list(ret), "op": op}) if replay_on else None)
    for lab, items, exc in (("argument count mismatch", lambda it: ["fn", irkit.mk_operand(it, "Variable", (True, 32), "a")], ValueError),
                            ("unknown routine", lambda it: ["nofn", irkit.mk_operand(it, "Variable", (True, 32), "a")], NotImplementedError)):
        check.instances_declared += 1

        def setup_e(it, items=items):
            t = tkit.mk_transformer(it)
            pars = [it.call(irkit.C(loader, "Parameter"), [f"p{i}", conc_vt(loader, (True, 32))], {}) for i in range(2)]
            t.fields["sub_routines"]["fn"] = it.call(irkit.C(loader, "SubRoutine"), ["fn", conc_vt(loader, (True, 32)), pars, "b"], {})
            return {"t": t, "items": items(it)}
        ex = explore(loader, setup_e, lambda it, st: it.call(tkit.method(it, st["t"], "sub_routine"), [st["items"]], {}))
        check.absorb(ex, f"sub_routine {lab}")
        if ex.paths:
            check.instances_generated += 1
        for p in ex.paths:
            check.ob("sub_routine#rejected", lab, p.ctx.pc, p.outcome == "raise" and issubclass(p.value.cls, exc), detail=f"{p.outcome} {p.value!r}")
    # macros: arguments converted to the macro's parameter types, result typed by the macro's return type
    for ret in [(False, 32), (True, 64)]:
        for at in [(True, 8), (False, 64)]:
            inst = f"extract(uint32_t, int32_t) -> {tname(ret)} called with {tname(at)}"
            check.instances_declared += 1

            def setup_m(it, ret=ret, at=at):
                t = tkit.mk_transformer(it)
                t.fields["macros"]["extract32"] = it.call(irkit.C(loader, "Macro"), ["extract32", conc_vt(loader, ret), [conc_vt(loader, (False, 32)), conc_vt(loader, (True, 32))], "EXTRACT32"], {})
                a = [irkit.mk_operand(it, "Variable", at, "a0"), irkit.mk_operand(it, "Variable", at, "a1")]
                it.ctx.mark_pre(t)
                return {"t": t, "a": a}
            ex = explore(loader, setup_m, lambda it, st: it.call(tkit.method(it, st["t"], "macro_expr"), [[Token("RIZIN_MACRO", "extract32"), st["a"][0], st["a"][1]]], {}))
            check.absorb(ex, f"macro_expr {inst}")
            if ex.paths:
                check.instances_generated += 1
            for p in ex.paths:
                check.ob("macro_expr#total", inst, p.ctx.pc, p.outcome == "return", detail="" if p.outcome == "return" else f"raises {p.value!r}")
                if p.outcome != "return":
                    continue
                mi = p.value
                ok = isinstance(mi, Obj) and mi.cls is irkit.C(loader, "MacroInvocation") and ir.vt(mi) == tuple(ret)
                check.ob("macro_expr#result-has-the-macro-return-type", inst, p.ctx.pc, bool(ok))
                if ok:
                    for k, pt in enumerate([(False, 32), (True, 32)]):
                        r = mi.fields["ops"][k]
                        a0 = p.state["a"][k]
                        good = isinstance(r, Obj) and not ir.wf_problems(r) and ir.vt(r) == pt
                        check.ob("macro_expr#argument-converted-to-the-macro-parameter-type", f"{inst} position={k}", p.ctx.pc,
                                 good and bool(z3.is_expr(ir.den(r))), detail=repr(r))
                        if good:
                            check.ob("macro_expr#argument-denotes-conv_C11", f"{inst} position={k}", p.ctx.pc, ir.den(r) == c_conv_den(a0, pt))


# ------------------------------------------------------------------------------------------ plugin calls used directly by the shortcode
def gen_legacy_calls(loader, check, replay_on=True):
    """c_call for the three plugin functions the shortcode names directly: result typed by the table (spec/hexagon.LEGACY_CALLS), value
    arguments converted to the parameter type, name arguments passed through, anything else rejected"""
    from spec import hexagon as hx
    T = loader.load(tkit.M_T).globals["RZILTransformer"]
    X = loader.load("rzilcompiler.HexagonExtensions")
    check.under_contract(loader, T.methods["c_call"], T.methods["cast_sub_routine_args"], X.globals["get_fcn_param_types"],
                         X.globals["HexagonTransformerExtension"].methods["get_val_type_by_fcn"])
    G = loader.load("rzilcompiler.Transformer.ValueType").globals["VTGroup"]
    CallC = irkit.C(loader, "Call")
    for fn, (ret, params) in hx.LEGACY_CALLS.items():
        for at in [(True, 64), (False, 8), (True, 32)]:
            inst = f"{fn} value-arguments={tname(at)}"
            check.instances_declared += 1

            def setup(it, fn=fn, params=params, at=at):
                t = tkit.mk_transformer(it)
                args = [f"name{k}" if not isinstance(pt, tuple) else irkit.mk_operand(it, "Variable", at, f"a{k}") for k, pt in enumerate(params)]
                it.ctx.mark_pre(t)
                return {"t": t, "args": args}
            ex = explore(loader, setup, lambda it, st, fn=fn: it.call(tkit.method(it, st["t"], "c_call"), [[fn] + list(st["args"])], {}))
            check.absorb(ex, f"c_call {inst}")
            if ex.paths:
                check.instances_generated += 1
            for p in ex.paths:
                pc = p.ctx.pc
                check.ob("c_call#total", inst, pc, p.outcome == "return", detail="" if p.outcome == "return" else f"raises {p.value!r}")
                if p.outcome != "return":
                    continue
                r = p.value
                call = r.fields.get("hybrid_owner") if isinstance(r, Obj) and r.cls is not CallC else r
                ok = isinstance(call, Obj) and call.cls is CallC
                check.ob("c_call#returns-the-call (its placeholder when it yields a value)", inst, pc, bool(ok), detail=repr(r))
                if not ok:
                    continue
                vt = call.fields["value_type"]
                if ret == "void":
                    check.ob("c_call#result-type-from-the-table", inst, pc, bool(vt.fields["group"] & G.VOID), detail=repr(vt))
                else:
                    check.ob("c_call#result-type-from-the-table", inst, pc, ir.vt_of(vt) == ret and not (vt.fields["group"] & G.VOID) and ir.vt(r) == ret, detail=repr(vt))
                ops = call.fields["ops"]
                shape = call.fields.get("fcn_name") == fn and len(ops) == len(params)
                check.ob("c_call#function-name-and-one-argument-per-parameter-in-order", inst, pc, shape, detail=f"{call.fields.get('fcn_name')!r} {ops!r}")
                if not shape:
                    continue
                for k, pt in enumerate(params):
                    a0, got = p.state["args"][k], ops[k]
                    if not isinstance(pt, tuple):
                        check.ob("c_call#name-argument-passed-through", f"{inst} position={k}", pc, got == a0, detail=repr(got))
                        continue
                    good = isinstance(got, Obj) and not ir.wf_problems(got) and ir.vt(got) == pt
                    check.ob("c_call#value-argument-has-the-parameter-type", f"{inst} position={k}", pc, good, detail=repr(got))
                    if good:
                        check.ob("c_call#value-argument-denotes-conv_C11(argument -> parameter type)", f"{inst} position={k}", pc, ir.den(got) == c_conv_den(a0, pt))
    for lab, items, exc in (("unknown function", ["no_such_fn", "x"], NotImplementedError), ("argument count mismatch", ["get_npc", "pkt", "extra"], ValueError)):
        check.instances_declared += 1
        ex = explore(loader, lambda it: {"t": tkit.mk_transformer(it)}, lambda it, st, items=items: it.call(tkit.method(it, st["t"], "c_call"), [list(items)], {}))
        check.absorb(ex, f"c_call {lab}")
        if ex.paths:
            check.instances_generated += 1
        for p in ex.paths:
            check.ob("c_call#rejected", lab, p.ctx.pc, p.outcome == "raise" and issubclass(p.value.cls, exc), detail=f"{p.outcome} {p.value!r}")


# ------------------------------------------------------------------------------------------ call / definition text
def gen_call_text(loader, check, replay_on=True):
    SR, SC = irkit.C(loader, "SubRoutine"), irkit.C(loader, "SubRoutineCall")
    check.under_contract(loader, SC.methods["il_write"], SC.methods["il_read"], SR.methods["il_read"], SR.methods["il_init"], SR.methods["check_for_bundle_usage"],
                         irkit.C(loader, "Parameter").methods["il_read"])
    G = loader.load("rzilcompiler.Transformer.ValueType").globals["VTGroup"]
    IT = loader.load(irkit.CLS["SubRoutine"]).globals["SubRoutineInitType"]
    for ret in T8:
        inst = f"{tname(ret)} fn(uint16_t p0, HexInsnPktBundle *bundle, int64_t p2)"
        check.instances_declared += 1

        def setup(it, ret=ret):
            ext = conc_vt(loader, (False, 64), G.EXTERNAL)
            ext.fields["external_type"] = "HexInsnPktBundle *"
            pars = [it.call(irkit.C(loader, "Parameter"), ["p0", conc_vt(loader, (False, 16))], {}), it.call(irkit.C(loader, "Parameter"), ["bundle", ext], {}),
                    it.call(irkit.C(loader, "Parameter"), ["p2", conc_vt(loader, (True, 64))], {})]
            sr = it.call(SR, ["fn", conc_vt(loader, ret), pars, "BODY;"], {})
            a = [irkit.mk_operand(it, "Variable", (False, 16), "a0"), it.call(irkit.C(loader, "Parameter"), ["bundle", ext], {}), irkit.mk_operand(it, "Variable", (True, 64), "a2")]
            return {"sr": sr, "call": it.call(SC, [sr, a], {}), "a": a}
        ex = explore(loader, setup, lambda it, st: (it.call(it.getattr_(st["call"], "il_write"), [], {}), it.call(it.getattr_(st["call"], "il_read"), [], {}),
                                                    it.call(it.getattr_(st["sr"], "il_init"), [IT.DECL], {}), it.call(it.getattr_(st["sr"], "il_init"), [IT.DEF], {})))
        check.absorb(ex, f"call text {inst}")
        if ex.paths:
            check.instances_generated += 1
        for p in ex.paths:
            check.ob("SubRoutineCall.il_write#total", inst, p.ctx.pc, p.outcome == "return", detail="" if p.outcome == "return" else f"raises {p.value!r}")
            if p.outcome != "return":
                continue
            w, r, decl, dfn = p.value
            txt = w.render(lambda a: f"@{a.tag}") if isinstance(w, Tpl) else w
            check.ob("SubRoutineCall.il_write#text: hex_<routine>(arguments in parameter order; values read, operands by name)", inst, p.ctx.pc, txt == "hex_fn(@a0, bundle, @a2)", detail=repr(txt))
            check.ob("SubRoutineCall.il_write#each value argument read exactly once", inst, p.ctx.pc, all(p.state["a"][k].ghost.get("nreads", 0) == 1 for k in (0, 2)))
            want_r = f'{"SIGNED" if ret[0] else "UNSIGNED"}({ret[1]}, VARL("ret_val"))'
            check.ob("SubRoutineCall.il_read#text: ret_val converted to the declared return type", inst, p.ctx.pc, r == want_r, detail=repr(r))
            want_d = "RZ_OWN RzILOpEffect *hex_fn(RZ_BORROW RzILOpPure *p0, HexInsnPktBundle *bundle, RZ_BORROW RzILOpPure *p2)"
            check.ob("SubRoutine.il_init#declaration: one C parameter per routine parameter, in order, values as borrowed pures", inst, p.ctx.pc, decl == want_d, detail=repr(decl))
            check.ob("SubRoutine.il_init#definition: declaration followed by the braced body", inst, p.ctx.pc, dfn == want_d + "{\nBODY;\n}", detail=repr(dfn))
    # prologue: bodies that mention pkt / hi get the bundle prologue (otherwise the C body would not compile)
    for body, want in (("x = pkt->y;", "{\nHexPkt *pkt = bundle->pkt;\nx = pkt->y;\n}"), ("f(hi);", "{\nconst HexInsn *hi = bundle->insn;\nf(hi);\n}"), ("x = 1;", "{\nx = 1;\n}")):
        check.instances_declared += 1

        def setup_b(it, body=body):
            pars = [it.call(irkit.C(loader, "Parameter"), ["p0", conc_vt(loader, (False, 16))], {})]
            return {"sr": it.call(SR, ["fn", conc_vt(loader, (True, 32)), pars, body], {})}
        ex = explore(loader, setup_b, lambda it, st: st["sr"].fields["body"])
        check.absorb(ex, "prologue")
        if ex.paths:
            check.instances_generated += 1
        for p in ex.paths:
            check.ob("SubRoutine.__init__#body prologue for pkt / hi", body, p.ctx.pc, p.outcome == "return" and p.value == want, detail=repr(p.value))


# ------------------------------------------------------------------------------------------ registration / parameter types
C_TYPES = {"int8_t": (True, 8), "uint8_t": (False, 8), "int16_t": (True, 16), "uint16_t": (False, 16), "int32_t": (True, 32), "uint32_t": (False, 32),
           "int64_t": (True, 64), "uint64_t": (False, 64), "int": (True, 32), "unsigned": (False, 32), "size4u_t": (False, 32), "size8s_t": (True, 64),
           "size1u_t": (False, 8), "size2s_t": (True, 16)}


def gen_registration(loader, check, replay_on=True):
    VTm = loader.load("rzilcompiler.Transformer.ValueType")
    f_t, f_split = VTm.globals["get_value_type_by_c_type"], VTm.globals["split_var_decl"]
    Cm = loader.load("rzilcompiler.Compiler")
    Comp = Cm.globals["Compiler"]
    check.under_contract(loader, f_t, f_split, Comp.methods["compile_sub_routine"], Comp.methods["add_sub_routine"], irkit.C(loader, "Parameter").methods["get_rzi_decl"],
                         irkit.C(loader, "SubRoutine").methods["il_init"], loader.load(irkit.CLS["Parameter"]).globals["get_parameter_by_decl"])
    for ct, want in C_TYPES.items():
        check.instances_declared += 1
        ex = explore(loader, lambda it: None, lambda it, st, ct=ct: (it.call(f_t, [ct], {}), it.call(f_split, [f"{ct}   name_1"], {})))
        check.absorb(ex, f"c type {ct}")
        if ex.paths:
            check.instances_generated += 1
        for p in ex.paths:
            ok = p.outcome == "return" and ir.vt_of(p.value[0]) == want and p.value[1] == (ct, "name_1")
            check.ob("get_value_type_by_c_type#table: C integer type spelling -> (signedness, width)", ct, p.ctx.pc, ok, detail=f"{p.outcome} {p.value!r}")
    for ct in ("HexOp", "const HexOp *", "HexInsnPktBundle *", "HexRegField"):
        check.instances_declared += 1
        ex = explore(loader, lambda it: None, lambda it, st, ct=ct: it.call(f_t, [ct], {}))
        check.absorb(ex, f"c type {ct}")
        if ex.paths:
            check.instances_generated += 1
        for p in ex.paths:
            G = VTm.globals["VTGroup"]
            ok = p.outcome == "return" and bool(p.value.fields["group"] & G.EXTERNAL) and p.value.fields["external_type"] == ct
            check.ob("get_value_type_by_c_type#table: plugin types are external (passed through as operands)", ct, p.ctx.pc, ok)
    # the helper / macro prototypes the argument conversion of macro_expr works from (data file against the prototype table)
    from . import catalog
    catalog.gen_macro_table(loader, check, replay_on)
    catalog.gen_data_pins(loader, check, replay_on, what=("routines",))
    # compile_sub_routine: parameters in declaration order with their types, return type, registered under its name
    from .c14 import mk_compiler
    check.instances_declared += 1
    log = []

    def setup(it):
        del log[:]
        c, t = mk_compiler(it, log)
        it.ctx.contracts["Transformer.transform"] = lambda it_, f, a, k: (log.append(a[0]), "return NOP();")[1]
        c.fields["parser"].may_raise = False
        return {"c": c, "t": t}
    ex = explore(loader, setup, lambda it, st: (it.call(it.getattr_(st["c"], "add_sub_routine"), ["my_fn", "uint16_t", ["int8_t a", "HexInsnPktBundle *bundle", "uint64_t c"], "{ return a; }"], {}),
                                                st["c"].fields["sub_routines"].get("my_fn"))[1])
    check.absorb(ex, "add_sub_routine")
    if ex.paths:
        check.instances_generated += 1
    for p in ex.paths:
        inst = "uint16_t my_fn(int8_t a, HexInsnPktBundle *bundle, uint64_t c)"
        check.ob("add_sub_routine#total", inst, p.ctx.pc, p.outcome == "return", detail="" if p.outcome == "return" else f"raises {p.value!r}")
        if p.outcome != "return":
            continue
        sr = p.value
        ok = isinstance(sr, Obj) and sr.cls is irkit.C(loader, "SubRoutine")
        check.ob("add_sub_routine#registered-under-its-name", inst, p.ctx.pc, ok and p.state["t"].fields["sub_routines"].get("my_fn") is sr)
        if ok:
            ps = sr.fields["ops"]
            good = [q.fields["name"] for q in ps] == ["a", "bundle", "c"] and ir.vt(ps[0]) == (True, 8) and ir.vt(ps[2]) == (False, 64) and ir.vt(sr) == (False, 16)
            check.ob("add_sub_routine#parameters-in-order-with-their-types-and-return-type", inst, p.ctx.pc, good)
            tr = log[0] if log else None
            pp = list(tr.fields["parameters"].keys()) if tr is not None else None
            check.ob("add_sub_routine#body-sees-exactly-its-parameters", inst, p.ctx.pc, pp == ["a", "bundle", "c"] and tr.fields["return_type"] is sr.fields["value_type"], detail=str(pp))


# ------------------------------------------------------------------------------------------ isolation
IDENT = z3.Concat(z3.Union(z3.Range("a", "z"), z3.Range("A", "Z"), z3.Re("_")),
                  z3.Star(z3.Union(z3.Range("a", "z"), z3.Range("A", "Z"), z3.Re("_"), z3.Range("0", "9"))))


def _w(body):
    return sorted(set(re.findall(r'SETL\("(\w+)"', body)))


def gen_isolation(loader, check, replay_on=True):
    """W(callee) = names a compiled body may assign; call-site obligation: W(callee) and Live(caller) are disjoint.
    IL locals are global to one instruction (T-RZIL), so disjointness has to come from the names."""
    T = loader.load(tkit.M_T).globals["RZILTransformer"]
    Comp = loader.load("rzilcompiler.Compiler").globals["Compiler"]
    from .c06 import mk_hybrid
    # (1) resolve_hybrid: the temporary of the N-th hybrid of a transformer is named <tmp_prefix>h_tmp<N>, for every N
    for prefix in ("", "my_fn_"):
        for kind in ("postinc", "call"):
            check.instances_declared += 1

            def setup(it, prefix=prefix, kind=kind):
                t = tkit.mk_transformer(it)
                t.fields["tmp_prefix"] = prefix
                h, _ = mk_hybrid(it, loader, kind)
                return {"t": t, "h": h, "n": t.fields["il_ops_holder"].fields["hybrid_op_count"]}
            ex = explore(loader, setup, lambda it, st: it.call(tkit.method(it, st["t"], "resolve_hybrid"), [st["h"]], {}))
            check.absorb(ex, "temporary naming")
            if ex.paths:
                check.instances_generated += 1
            for p in ex.paths:
                nm = p.value.fields["name"] if p.outcome == "return" and isinstance(p.value, Obj) else None
                parts = nm.parts if isinstance(nm, Tpl) else None
                ok = parts is not None and len(parts) == 2 and parts[0] == prefix + "h_tmp" and isinstance(parts[1], SInt) and z3.eq(parts[1].t, p.state["n"].t)
                check.ob("resolve_hybrid#W: the temporary is named <tmp_prefix>h_tmp<hybrid count>", f"prefix={prefix!r} hybrid={kind} count=any", p.ctx.pc, bool(ok), detail=repr(nm))
    # (2) compile_sub_routine: the body's transformer gets tmp_prefix = '<routine name>_' and a fresh holder
    from .c14 import mk_compiler
    check.instances_declared += 1
    log = []

    def setup2(it):
        del log[:]
        c, t = mk_compiler(it, log)
        it.ctx.contracts["Transformer.transform"] = lambda it_, f, a, k: (log.append(a[0]), "return NOP();")[1]
        c.fields["parser"].may_raise = False
        return {"c": c, "t": t}
    ex = explore(loader, setup2, lambda it, st: it.call(it.getattr_(st["c"], "compile_sub_routine"), ["my_fn", "uint16_t", ["int8_t a"], "{ return a; }"], {}))
    check.absorb(ex, "compile_sub_routine prefix")
    if ex.paths:
        check.instances_generated += 1
    for p in ex.paths:
        tr = log[0] if log else None
        pre = tr.fields.get("tmp_prefix") if tr is not None else None
        check.ob("compile_sub_routine#W: body temporaries are prefixed with '<routine name>_'", "routine my_fn", p.ctx.pc, p.outcome == "return" and pre == "my_fn_", detail=repr(pre))
        check.ob("compile_sub_routine#body compiled on its own transformer (caller state untouched)", "routine my_fn", p.ctx.pc, tr is not None and tr is not p.state["t"])
    # (3) call-site lemmas over the two naming contracts (string obligations; z3 seq, cvc5 for its unknowns):
    A, B = z3.String("callee_name"), z3.String("caller_name")
    N, K = z3.Int("callee_temp_no"), z3.Int("caller_temp_no")
    callee = z3.Concat(A, z3.StringVal("_h_tmp"), z3.IntToStr(N))
    rp = ("c08.tmp_collision", lambda mdl: {}) if replay_on else None
    check.ob("sub_routine#isolation: callee temporaries are disjoint from the temporaries of a calling instruction", "callee name=any identifier, numbering=any",
             [z3.InRe(A, IDENT), N >= 0, K >= 0], callee != z3.Concat(z3.StringVal("h_tmp"), z3.IntToStr(K)), replay=rp)
    D1, D2 = z3.String("callee_digits"), z3.String("caller_digits")
    dig = z3.Plus(z3.Range("0", "9"))
    check.ob("sub_routine#isolation: callee temporaries are disjoint from the temporaries of a calling routine (nested calls)", "callee and caller names=any distinct identifiers, numbering=any",
             [z3.InRe(A, IDENT), z3.InRe(B, IDENT), z3.InRe(D1, dig), z3.InRe(D2, dig), A != B],
             z3.Concat(A, z3.StringVal("_h_tmp"), D1) != z3.Concat(B, z3.StringVal("_h_tmp"), D2), replay=rp)
    # (4) callee locals: the compiler does not rename locals of a body, so a routine has to bring names of its own
    check.ob("compile_sub_routine#isolation: locals declared in a body are kept apart from caller variables of the same name",
             "add_sub_routine(f, int32_t, [int32_t a], { int32_t x = a + 1; return x; }); caller { int32_t x = 7; RdV = f(RsV) + x; }", [], _api_local_collision()[0] is False,
             replay=("c08.api_local_collision", lambda mdl: {}) if replay_on else None, detail=_api_local_collision()[1])
    c = irkit.real_compiler()
    for name, sr in c.sub_routines.items():
        w = _w(sr.body)
        own = [x for x in w if x == "ret_val" or x.startswith(name + "_")]
        foreign = [x for x in w if x not in own]
        check.ob("bundled-routine#isolation: assigns only ret_val and names prefixed with its own name", name, [], not foreign,
                 detail=f"W({name}) = {w}; not prefixed: {foreign}", replay=("c08.local_collision", lambda mdl, name=name, foreign=foreign: {"routine": name, "locals": foreign}) if replay_on and foreign else None)
        check.instances_declared += 1
        check.instances_generated += 1
    check.extra["W_of_bundled_routines"] = {n: _w(sr.body) for n, sr in c.sub_routines.items()}


def _fresh_compiler():
    from rzilcompiler.Compiler import Compiler
    from rzilcompiler.ArchEnum import ArchEnum
    import io
    import contextlib
    cwd = os.getcwd()
    os.chdir(os.environ.get("RZIL_REPO", "/repo"))
    try:
        with contextlib.redirect_stdout(io.StringIO()):
            return Compiler(ArchEnum.HEXAGON)
    finally:
        os.chdir(cwd)


_API = []


def _api_local_collision():
    if not _API:
        import io
        import contextlib
        c = _fresh_compiler()
        with contextlib.redirect_stdout(io.StringIO()):
            c.add_sub_routine("f", "int32_t", ["int32_t a"], "{ int32_t x = a + 1; return x; }")
            txt = c.compile_c_stmt("{ int32_t x = 7; RdV = f(RsV) + x; }")
        w = _w(c.sub_routines["f"].body)
        caller = _w(txt)
        clash = sorted((set(w) & set(caller)) - {"ret_val"})
        _API.append((bool(clash), f"body of f assigns {w}; the caller assigns {caller} and reads x after the call; shared names: {clash}"))
    return _API[0]


@replay.register("c08.api_local_collision")
def replay_api_local_collision(a):
    del _API[:]
    return _api_local_collision()


@replay.register("c08.retype")
def replay_retype(a):
    import io
    import contextlib
    c = _fresh_compiler()
    s_, w = a["ret"]
    ct = f"{'' if s_ else 'u'}int{w}_t"
    with contextlib.redirect_stdout(io.StringIO()):
        c.add_sub_routine("retype_fn", ct, ["int32_t a"], "{ return a; }")
        c.compile_c_stmt("{ RdV = %sretype_fn(RsV); }" % a["op"])
    vt = c.sub_routines["retype_fn"].value_type
    return (vt.signed, vt.bit_width) != (bool(s_), w), f"after {{ RdV = {a['op']}retype_fn(RsV); }} the routine declared {ct} has return type {vt}"


@replay.register("c08.tmp_collision")
def replay_tmp_collision(a):
    import io
    import contextlib
    c = _fresh_compiler()       # fresh compiler: caller numbering starts at 0
    with contextlib.redirect_stdout(io.StringIO()):
        txt = c.compile_c_stmt("{ RdV = clz32(RtV) + clz32(RsV); }")
    caller_tmp = re.findall(r'SETL\("(\w*h_tmp\d+)", UNSIGNED\(32, VARL\("ret_val"\)\)\)', txt)
    callee_w = [x for x in _w(c.sub_routines["clz32"].body) if "h_tmp" in x]
    clash = sorted(set(caller_tmp) & set(callee_w))
    return bool(clash), (f"fresh compiler, {{ RdV = clz32(RtV) + clz32(RsV); }}: the caller keeps the first result in {caller_tmp[:1]} while the second call runs; "
                         f"the body of clz32 assigns {callee_w}; clash: {clash}")


@replay.register("c08.local_collision")
def replay_local_collision(a):
    c = irkit.real_compiler()
    name, loc = a["routine"], a["locals"]
    w = _w(c.sub_routines[name].body)
    return bool(set(loc) & set(w)), f"routine {name} assigns the unprefixed IL locals {loc}: a caller behaviour using a local of the same name is overwritten by the call"


def gen_task(loader, check, what, replay_on=True):
    {"cast_arg_list": gen_cast_arg_list, "build_arg_list": gen_build_arg_list, "callbacks": gen_callbacks, "registration": gen_registration, "call_text": gen_call_text,
     "isolation": gen_isolation, "legacy_calls": gen_legacy_calls}[what](loader, check, replay_on)


def generate_reduced(loader, check):
    global T8
    for w in ("cast_arg_list", "build_arg_list", "callbacks", "legacy_calls", "registration", "call_text", "isolation"):
        gen_task(loader, check, w, False)


def run(check: Check):
    check.trust("T-VCGEN: pyvc interpretation of the Python subset (mutant self-test, native replay)")
    check.trust("T-C11: argument passing converts as if by assignment (6.5.2.2p7) - spec/c11.conv")
    check.trust("T-RZIL/T-PLUGIN: IL locals and ret_val are global to one instruction's effect (a callee's SETL is visible to the caller); "
                "hex_<routine>(...) executes the routine's compiled body")
    check.trust("T-IND: 'the callee's body computes what its C source computes' is C01's composition applied to a transformer whose leaves "
                "include Parameters (borrowed pures: first read raw, C12)")
    check.trust("T-QEMU / T-PLUGIN: spec/bundled_data.py (reviewed sources of the bundled routines) and spec/hexagon.MACRO_PROTOTYPES (helper prototypes)")
    check.assume("A-NAMES: add_op through its contract")
    check.trust("T-STR: an f-string renders a non-negative int as a non-empty string of decimal digits (CPython); used to state the nested-call "
                "disjointness lemma over digit strings instead of str.from_int")
    check.run_parallel("contracts.c08", "gen_task", [{"what": w} for w in ("cast_arg_list", "build_arg_list", "callbacks", "legacy_calls", "registration", "call_text", "isolation")], workers=WORKERS)
    run_mutants(check, MUTANTS, "contracts.c08", "generate_reduced")
    return check.finish(
        level="proof",
        rule="one obligation per (argument type x parameter type x element kind, clause) with list lengths symbolic; callbacks per type combination; "
             "isolation: LIA obligation over symbolic numbering + ground obligations over the 13 bundled routines")
