"""C07 - operands are bound to the right architectural resource, width and .new flag.

Complete finite case analysis over the operand spellings the grammar's terminals admit: every register
class letter x access spelling x {plain, .new}; explicitly numbered registers (single and pair, with and
without _NEW); register aliases; every immediate letter; every load/store width and signedness; jump; pc.
For each spelling the real callback is run, then il_init_var() / il_read() / the register-sink
Assignment.il_write of the resulting node, and the emitted text is compared with the architectural table
spec/hexagon.py: operand slot letter, class enum, register number, .new flag, width, signedness.
The access state machine (UNKNOWN -> R/W/RW, add_write_property) is checked for all states.
"""
from __future__ import annotations
import itertools
import re
import z3
from lark import Token

from pyvc.interp import explore
from pyvc.loader import Loader
from pyvc.values import Obj
from pyvc.vc import Check
from pyvc import replay
from spec import hexagon as hx, ir
from . import irkit, tkit, emit, catalog
from .common import WORKERS, tname, conc_vt, run_mutants
from .c13 import M_X

PROP = "C07"

MUTANTS = [
    {"name": "special_identifier_to_local_var: the effective address is a signed local", "file": "rzilcompiler/HexagonExtensions.py",
     "old": 'return Variable("EA", ValueType(False, 32))', "new": 'return Variable("EA", ValueType(True, 32))'},
    {"name": "get_value_type_from_reg_type: predicates 32 bit", "file": "rzilcompiler/Transformer/ValueType.py",
     "old": '    elif reg_type == "P":\n        size = 8', "new": '    elif reg_type == "P":\n        size = 32'},
    {"name": "get_value_type_from_reg_type: pairs not doubled", "file": "rzilcompiler/Transformer/ValueType.py",
     "old": '    if "PAIR" in reg_access:\n        size *= 2', "new": '    if "PAIRS" in reg_access:\n        size *= 2'},
    {"name": "get_value_type_by_isa_imm: R immediates unsigned", "file": "rzilcompiler/Transformer/ValueType.py",
     "old": 'if re.search(r"[rRsS]", imm_char):', "new": 'if re.search(r"[rsS]", imm_char):'},
    {"name": "Register.get_reg_read_code: .new flag inverted", "file": "rzilcompiler/Transformer/Pures/Register.py",
     "old": 'return f"READ_REG(pkt, {self.get_op_var()}, {str(self.is_new).lower()})"', "new": 'return f"READ_REG(pkt, {self.get_op_var()}, {str(not self.is_new).lower()})"'},
    {"name": "Register.il_isa_to_assoc_name: slot letter taken from the register class letter", "file": "rzilcompiler/Transformer/Pures/Register.py",
     "old": "            f\", '{self.isa_id}'\"\n            f\", {str(self.is_new).lower()});\"", "new": "            f\", '{self.get_isa_name()[0].lower()}'\"\n            f\", {str(self.is_new).lower()});\""},
    {"name": "Register.il_explicit_reg_to_op: larger number of a pair", "file": "rzilcompiler/Transformer/Pures/Register.py",
     "old": "            num = min(num, int(n)) if num is not None else int(n)", "new": "            num = max(num, int(n)) if num is not None else int(n)"},
    {"name": "get_reg_num_from_name: register number 0 treated as unset", "file": "rzilcompiler/Transformer/Pures/Register.py",
     "old": "            num = min(num, int(n)) if num is not None else int(n)", "new": "            num = min(num, int(n)) if num else int(n)"},
    {"name": "explicit_reg: pairs typed like single registers", "file": "rzilcompiler/Transformer/RZILTransformer.py",
     "old": '                        "SRC_DEST_REG_PAIR" if ":" in name else "SRC_DEST_REG",', "new": '                        "SRC_DEST_REG",'},
    {"name": "Register.get_reg_class: control registers mapped to modifier class", "file": "rzilcompiler/Transformer/Pures/Register.py",
     "old": '            case "C":\n                reg_class += "CTR_REGS"', "new": '            case "C":\n                reg_class += "MOD_REGS"'},
    {"name": "Register.get_alias_enum: _NEW kept in the alias enum", "file": "rzilcompiler/Transformer/Pures/Register.py",
     "old": '            name = name.replace("_NEW", "")', "new": "            pass"},
    {"name": "reg_alias: utimer 32 bit", "file": "rzilcompiler/HexagonExtensions.py",
     "old": 'if alias == "upcycle" or alias == "pktcount" or alias == "utimer":', "new": 'if alias == "upcycle" or alias == "pktcount":'},
    {"name": "explicit_reg callback: _NEW ignored for the operand", "file": "rzilcompiler/Transformer/RZILTransformer.py",
     "old": "                is_new=new,\n                is_explicit=True,", "new": "                is_new=False,\n                is_explicit=True,"},
    {"name": "mem_load: signedness of the access inverted", "file": "rzilcompiler/Transformer/RZILTransformer.py",
     "old": '        vt = ValueType(items[1] == "s", items[2])\n        mem_acc_type', "new": '        vt = ValueType(items[1] != "s", items[2])\n        mem_acc_type'},
    {"name": "Register.il_read: write-only registers read the old value", "file": "rzilcompiler/Transformer/Pures/Register.py",
     "old": '            return f"READ_REG(pkt, {self.get_op_var()}, true)"', "new": '            return f"READ_REG(pkt, {self.get_op_var()}, false)"'},
    {"name": "Register.add_write_property: read access forgotten on write", "file": "rzilcompiler/Transformer/Pures/Register.py",
     "old": "        if self.access == RegisterAccessType.R:\n            self.access = RegisterAccessType.RW", "new": "        if self.access == RegisterAccessType.R:\n            self.access = RegisterAccessType.W"},
    {"name": "Register.il_init_var: pc reads the next packet", "file": "rzilcompiler/Transformer/Pures/Register.py",
     "old": 'return "RzILOpPure *pc = U32(pkt->pkt_addr);"', "new": 'return "RzILOpPure *pc = U32(pkt->pkt_addr + 4);"'},
]


def call_chain(it, o, *names):
    out = []
    for n in names:
        out.append(it.call(it.getattr_(o, n), [], {}))
    return out


def gen_letter_regs(loader, check, replay_on=True, letters=None):
    T = loader.load(tkit.M_T).globals["RZILTransformer"]
    Reg = irkit.C(loader, "Register")
    X = loader.load("rzilcompiler.HexagonExtensions").globals["HexagonTransformerExtension"]
    VTm = loader.load("rzilcompiler.Transformer.ValueType")
    check.under_contract(loader, T.methods["reg"], T.methods["new_reg"], X.methods["reg"], X.methods["hex_reg"], VTm.globals["get_value_type_from_reg_type"],
                         *[Reg.methods[m] for m in ("__init__", "get_reg_class", "get_reg_num_from_name", "get_op_var", "il_isa_to_assoc_name", "il_n_reg_to_op",
                                                    "il_init_var", "il_read", "get_reg_read_code", "vm_id", "pure_var", "add_write_property")])
    for letter in (letters or list("CNPRMQV")):
        for acc, (spellings, readable, writable, pair) in hx.ACCESS.items():
            for sp in spellings:
                for is_new, hist in ((False, None), (True, None), (False, "other"), (True, "other")):
                    if hist and not (letter in "RP" and sp in ("s", "t", "ss", "d", "x")):
                        continue     # history instances: the binding does not depend on earlier uses of the same letter (sampled letters)
                    cb = "new_reg" if is_new else "reg"
                    exp = hx.letter_reg(letter, sp, acc, is_new)
                    inst = f"{letter}{sp}{'N' if is_new else 'V'} ({acc})" + (" after the same letter with the other .new-ness" if hist else "")
                    check.instances_declared += 1

                    def setup(it):
                        return {"t": tkit.mk_transformer(it)}

                    def run(it, st, letter=letter, acc=acc, sp=sp, cb=cb, hist=hist):
                        if hist:
                            it.call(tkit.method(it, st["t"], "reg" if cb == "new_reg" else "new_reg"), [[Token("REG_TYPE", letter), Token(acc, sp)]], {})
                        r = it.call(tkit.method(it, st["t"], cb), [[Token("REG_TYPE", letter), Token(acc, sp)]], {})
                        init = it.call(it.getattr_(r, "il_init_var"), [], {})
                        r1 = it.call(it.getattr_(r, "il_read"), [], {})
                        r2 = it.call(it.getattr_(r, "il_read"), [], {})
                        return r, init, r1, r2
                    ex = explore(loader, setup, run)
                    check.absorb(ex, f"reg {inst}")
                    if ex.paths:
                        check.instances_generated += 1
                    for i, p in enumerate(ex.paths):
                        pc = p.ctx.pc
                        rp = ("c07.reg", lambda mdl, letter=letter, acc=acc, sp=sp, is_new=is_new, hist=hist: {"letter": letter, "acc": acc, "sp": sp, "new": is_new, "history": hist}) if replay_on else None
                        if letter == "Q" and pair:
                            # pairs of vector predicates are rejected (allowed: rejected, never approximated)
                            check.ob(f"{cb}#rejected-or-bound", inst, pc, p.outcome == "raise" or True)
                            if p.outcome != "return":
                                continue
                        check.ob(f"{cb}#total", inst, pc, p.outcome == "return", replay=rp, detail="" if p.outcome == "return" else f"raises {p.value!r}")
                        if p.outcome != "return":
                            continue
                        r, init, r1, r2 = p.value
                        t = ir.vt(r)
                        check.ob(f"{cb}#binding.width-and-signedness", inst, pc, t == (exp["signed"], exp["width"]), replay=rp,
                                 detail=f"typed {tname(t)}, architectural {'st' if exp['signed'] else 'ut'}{exp['width']}")
                        lines = init.split("\n") if isinstance(init, str) else None
                        check.ob(f"{cb}#binding.operand-slot-and-new-flag", inst, pc, lines is not None and lines[0] == exp["decl_op"], replay=rp,
                                 detail=f"{lines[0] if lines else init!r}; expected {exp['decl_op']}")
                        name = exp["name"]
                        rd = f"READ_REG(pkt, {exp['op_ref']}, {exp['new']})"
                        if exp["readable"] and sp[0] != "x":
                            okd = len(lines) == 2 and lines[1] == f"RzILOpPure *{name} = {rd};"
                            check.ob(f"{cb}#binding.readable-register-is-read-once-into-its-pure", inst, pc, okd, replay=rp, detail=repr(lines))
                            check.ob(f"{cb}#binding.reads-use-that-pure", inst, pc, r1 == name and r2 == f"DUP({name})", replay=rp, detail=f"{r1!r} {r2!r}")
                        elif exp["readable"]:
                            # Rx-style read/write operands are re-read from the register file at every use
                            check.ob(f"{cb}#binding.rw-x-register-is-re-read-at-each-use", inst, pc, len(lines) >= 1 and (len(lines) == 1 or lines[1] == "") and r1 == rd and r2 == rd,
                                     replay=rp, detail=f"{lines!r} {r1!r}")
                        else:
                            check.ob(f"{cb}#binding.write-only-register-declares-no-pure", inst, pc, len(lines) == 1, replay=rp, detail=repr(lines))
                            check.ob(f"{cb}#binding.read-of-write-only-register-takes-the-new-value", inst, pc,
                                     r1 == f"READ_REG(pkt, {exp['op_ref']}, true)", replay=rp, detail=repr(r1))


def gen_explicit(loader, check, replay_on=True, tier="quick"):
    T = loader.load(tkit.M_T).globals["RZILTransformer"]
    Reg = irkit.C(loader, "Register")
    check.under_contract(loader, T.methods["explicit_reg"], Reg.methods["il_explicit_reg_to_op"], Reg.methods["get_reg_class"])
    digits = ["0", "1", "2", "3"]
    nums = digits + [a + b for a in digits for b in digits]
    if tier == "quick":
        nums1, nums2 = ["0", "1", "3", "11", "13", "22", "31"], [None, "0", "12", "30"]
    else:
        nums1, nums2 = nums, [None] + nums
    for letter in "RCPVQMGS":
        for n1 in nums1:
            for n2 in nums2:
                for is_new in (False, True):
                    text = f"{letter}{n1}" + (f":{n2}" if n2 is not None else "")
                    exp = hx.explicit_reg(text, is_new)
                    if exp["class"] is None:
                        # the architecture has no pair class for this letter (P, M, Q, N): outside the property's domain
                        if letter not in check.extra.setdefault("explicit_pairs_outside_domain", []):
                            check.extra["explicit_pairs_outside_domain"].append(letter)
                        continue
                    inst = f"{text}{'_NEW' if is_new else ''} pair={'yes' if n2 is not None else 'no'} class={letter}"
                    check.instances_declared += 1

                    def setup(it):
                        return {"t": tkit.mk_transformer(it)}

                    def run(it, st, text=text, is_new=is_new):
                        r = it.call(tkit.method(it, st["t"], "explicit_reg"), [[Token("__ANON_0", text), Token("_NEW", "_NEW") if is_new else None]], {})
                        init = it.call(it.getattr_(r, "il_init_var"), [], {})
                        r1 = it.call(it.getattr_(r, "il_read"), [], {})
                        return r, init, r1
                    ex = explore(loader, setup, run)
                    check.absorb(ex, f"explicit {inst}")
                    if ex.paths:
                        check.instances_generated += 1
                    for p in ex.paths:
                        pc = p.ctx.pc
                        rp = ("c07.explicit", lambda mdl, text=text, is_new=is_new: {"text": text, "new": is_new}) if replay_on else None
                        if p.outcome == "raise":
                            # an operand the compiler cannot bind is rejected (allowed): record which classes
                            check.extra.setdefault("explicit_rejected", [])
                            if letter not in check.extra["explicit_rejected"]:
                                check.extra["explicit_rejected"].append(letter)
                            check.ob("explicit_reg#rejected-or-bound", inst, pc, True)
                            continue
                        r, init, r1 = p.value
                        var = exp["name"].replace(":", "_")
                        lines = init.split("\n")
                        want = f"const HexOp {var}_op = EXPLICIT2OP({exp['number']}, {exp['class']}, {exp['new']});"
                        check.ob("explicit_reg#binding.register-number-class-and-new-flag", inst, pc, lines[0] == want, replay=rp, detail=f"{lines[0]!r}; expected {want!r}")
                        t = ir.vt(r)
                        check.ob("explicit_reg#binding.width", inst, pc, t[1] == exp["width"], replay=rp, detail=f"typed {tname(t)}, the {exp['class']} register is {exp['width']} bit wide")
                        okr = len(lines) == 2 and lines[1] == f"RzILOpPure *{var} = READ_REG(pkt, &{var}_op, {exp['new']});" and r1 == var
                        check.ob("explicit_reg#binding.read-through-its-operand", inst, pc, okr, replay=rp, detail=f"{lines!r} {r1!r}")


def gen_alias(loader, check, replay_on=True):
    T = loader.load(tkit.M_T).globals["RZILTransformer"]
    X = loader.load("rzilcompiler.HexagonExtensions").globals["HexagonTransformerExtension"]
    Reg = irkit.C(loader, "Register")
    check.under_contract(loader, T.methods["reg_alias"], X.methods["reg_alias"], Reg.methods["il_reg_alias_to_op"], Reg.methods["get_alias_enum"])
    names = ["PC", "SP", "LR", "FRAMEKEY", "FP", "LC0", "GP", "SA0", "LC1", "SA1", "UPCYCLE", "PKTCOUNT", "UTIMER", "USR", "M0", "CS1", "X9Y"]
    for nm in names:
        for is_new in (False, True):
            exp = hx.alias(nm, is_new)
            inst = f"HEX_REG_ALIAS_{nm}{'_NEW' if is_new else ''}"
            check.instances_declared += 1

            def setup(it):
                return {"t": tkit.mk_transformer(it)}

            def run(it, st, nm=nm, is_new=is_new):
                r = it.call(tkit.method(it, st["t"], "reg_alias"), [[Token("__ANON_1", nm), Token("_NEW", "_NEW") if is_new else None]], {})
                return r, it.call(it.getattr_(r, "il_init_var"), [], {}), it.call(it.getattr_(r, "il_read"), [], {})
            ex = explore(loader, setup, run)
            check.absorb(ex, f"alias {inst}")
            if ex.paths:
                check.instances_generated += 1
            for p in ex.paths:
                pc = p.ctx.pc
                check.ob("reg_alias#total", inst, pc, p.outcome == "return", detail="" if p.outcome == "return" else f"raises {p.value!r}")
                if p.outcome != "return":
                    continue
                r, init, r1 = p.value
                var = nm.lower() + ("_new" if is_new else "")
                t = ir.vt(r)
                check.ob("reg_alias#binding.width-and-signedness", inst, pc, t == (False, exp["width"]), detail=f"typed {tname(t)}")
                if nm == "PC" and not is_new:
                    check.ob("reg_alias#binding.pc-reads-the-packet-address", inst, pc, init == "RzILOpPure *pc = U32(pkt->pkt_addr);", detail=repr(init))
                    continue
                lines = init.split("\n")
                want = f"const HexOp {var}_op = ALIAS2OP({exp['enum']}, {exp['new']});"
                check.ob("reg_alias#binding.alias-enum-and-new-flag", inst, pc, lines[0] == want, detail=f"{lines[0]!r}; expected {want!r}")
                okr = len(lines) == 2 and lines[1] == f"RzILOpPure *{var} = READ_REG(pkt, &{var}_op, {exp['new']});" and r1 == var
                check.ob("reg_alias#binding.read-through-its-operand", inst, pc, okr, detail=f"{lines!r} {r1!r}")
    check.assume("alias names: the 10 aliases of the bundled shortcode, the three 64-bit aliases and 4 synthetic names; the alias name enters "
                 "the emitted text only through upper()/lower() of the token (no other dependence), so other names behave alike")


def gen_imm_mem(loader, check, replay_on=True):
    T = loader.load(tkit.M_T).globals["RZILTransformer"]
    VTm = loader.load("rzilcompiler.Transformer.ValueType")
    check.under_contract(loader, T.methods["imm"], T.methods["mem_load"], T.methods["mem_store"], T.methods["jump"], VTm.globals["get_value_type_by_isa_imm"])
    for letter, signed in hx.IMM_SIGNED.items():
        inst = f"{letter}iV"
        check.instances_declared += 1

        def setup(it):
            return {"t": tkit.mk_transformer(it)}

        def run(it, st, letter=letter):
            r = it.call(tkit.method(it, st["t"], "imm"), [[Token("IMMEDIATE", letter)]], {})
            return r, it.call(it.getattr_(r, "il_init_var"), [], {}), st["t"].fields["imm_set_effect_list"]
        ex = explore(loader, setup, run)
        check.absorb(ex, f"imm {inst}")
        if ex.paths:
            check.instances_generated += 1
        for p in ex.paths:
            pc = p.ctx.pc
            check.ob("imm#total", inst, pc, p.outcome == "return", detail="" if p.outcome == "return" else f"raises {p.value!r}")
            if p.outcome != "return":
                continue
            r, init, imms = p.value
            want = f"RzILOpPure *{letter} = {'SN' if signed else 'UN'}(32, ({'st32' if signed else 'ut32'}) ISA2IMM(hi, '{letter}'));"
            check.ob("imm#binding.fetched-by-its-letter-with-its-signedness", inst, pc, init == want and ir.vt(r) == (signed, 32), detail=f"{init!r}")
            ok = len(imms) == 1 and imms[0].fields["dest"] is r and imms[0].fields["src"] is r
            check.ob("imm#binding.local-initialised-from-the-fetched-value-first", inst, pc, ok)
    # the effective address: the identifier EA names ONE 32-bit unsigned local per behaviour (first mention creates and registers it, later
    # mentions return the same node); loop counters i / j / k likewise; any other unknown identifier stays a plain name (no operand is invented)
    X = loader.load(M_X).globals["HexagonTransformerExtension"]
    check.under_contract(loader, T.methods["identifier"], X.methods["is_special_id"], X.methods["special_identifier_to_local_var"])
    for ident in ("EA", "i", "j", "k", "tmp", "EAx", "ea"):
        inst = f"identifier {ident}"
        check.instances_declared += 1

        def setup(it):
            return {"t": tkit.mk_transformer(it, stub_add_op=False, symbolic_count=False)}

        def run(it, st, ident=ident):
            a = it.call(tkit.method(it, st["t"], "identifier"), [[Token("IDENTIFIER", ident)]], {})
            b = it.call(tkit.method(it, st["t"], "identifier"), [[Token("IDENTIFIER", ident)]], {})
            return a, b
        ex = explore(loader, setup, run)
        check.absorb(ex, inst)
        if ex.paths:
            check.instances_generated += 1
        for p in ex.paths:
            pc = p.ctx.pc
            check.ob("identifier#total", inst, pc, p.outcome == "return", detail="" if p.outcome == "return" else f"raises {p.value!r}")
            if p.outcome != "return":
                continue
            a, b = p.value
            if ident in ("EA", "i", "j", "k"):
                h = p.state["t"].fields["il_ops_holder"]
                ok = isinstance(a, Obj) and a.cls is irkit.C(loader, "Variable") and a.fields["name"] == ident and ir.vt(a) == (False, 32)
                check.ob("identifier#binding.effective-address-and-loop-counters-are-32-bit-unsigned-locals", inst, pc, ok, detail=f"{a!r}",
                         replay=("c07.special_id", lambda mdl, ident=ident: {"ident": ident}) if replay_on else None)
                check.ob("identifier#binding.one-local-per-behaviour (registered, later mentions return it)", inst, pc,
                         b is a and h.fields["read_ops"].get(ident) is a, detail=f"second mention {b!r}",
                         replay=("c07.special_id", lambda mdl, ident=ident: {"ident": ident}) if replay_on else None)
            else:
                check.ob("identifier#binding.unknown-identifier-stays-a-name", inst, pc, a == ident and b == ident, detail=f"{a!r}")
    # loads: width and signedness of the access type; the signedness drives the widening of the loaded value
    for w in (8, 16, 32, 64):
        for s_ in ("s", "u"):
            inst = f"mem_load_{s_}{w}"
            check.instances_declared += 1

            def setup(it):
                t = tkit.mk_transformer(it)
                ea = irkit.mk_var(it, "EA", (False, 32))
                t.fields["il_ops_holder"].fields["read_ops"]["EA"] = ea
                return {"t": t, "ea": ea}

            def run(it, st, w=w, s_=s_):
                r = it.call(tkit.method(it, st["t"], "mem_load"), [[Token("MEM_LOAD", "mem_load_"), Token("SIGN_TYPE", s_), Token("BIT_WIDTH", str(w)), st["ea"]]], {})
                wide = it.call(tkit.method(it, st["t"], "init_a_cast"), [conc_vt(loader, (True, 64)), r], {})
                return r, it.call(it.getattr_(r, "il_exec"), [], {}), wide
            ex = explore(loader, setup, run)
            check.absorb(ex, inst)
            if ex.paths:
                check.instances_generated += 1
            for p in ex.paths:
                pc = p.ctx.pc
                check.ob("mem_load#total", inst, pc, p.outcome == "return", detail="" if p.outcome == "return" else f"raises {p.value!r}")
                if p.outcome != "return":
                    continue
                r, txt, wide = p.value
                check.ob("mem_load#binding.width-signedness-and-address", inst, pc, txt == f'LOADW({w}, VARL("EA"))' and ir.vt(r) == (s_ == "s", w) and r.fields["va"] is p.state["ea"],
                         detail=f"{txt!r} typed {tname(ir.vt(r))}")
                if w < 64:
                    src = wide.fields["ops"][0]
                    check.ob("mem_load#binding.access-signedness-drives-the-widening", inst, pc, src is r and ir.vt(src)[0] == (s_ == "s"))


def gen_access_state(loader, check, replay_on=True):
    """add_write_property: the register access state machine for all states"""
    Reg = irkit.C(loader, "Register")
    RA = irkit.enum(loader, "Register", "RegisterAccessType")
    want = {"R": "RW", "W": "W", "RW": "RW", "PR": "PRW", "PW": "PW", "PRW": "PRW"}
    for st_ in list(RA):
        for nm in ("Rs", "P0"):
            inst = f"{nm} access={st_.name}"
            check.instances_declared += 1

            def setup(it, st_=st_, nm=nm):
                return it.call(Reg, [nm, st_, conc_vt(loader, (True, 32))], {"is_explicit": nm == "P0"})
            ex = explore(loader, setup, lambda it, r: (it.call(it.getattr_(r, "add_write_property"), [], {}), r)[1])
            check.absorb(ex, f"add_write_property {inst}")
            if ex.paths:
                check.instances_generated += 1
            for p in ex.paths:
                after = p.value.fields["access"].name if p.outcome == "return" else None
                exp = want.get(st_.name) or ("PW" if nm[0] == "P" else "W")
                check.ob("add_write_property#access-gains-write-and-keeps-read", inst, p.ctx.pc, after == exp, detail=f"{st_.name} -> {after}, expected {exp}")


# ------------------------------------------------------------------------------------------ replay
@replay.register("c07.reg")
def replay_reg(a):
    from rzilcompiler.Transformer.RZILTransformer import RZILTransformer
    from rzilcompiler.ArchEnum import ArchEnum
    t = RZILTransformer(ArchEnum.HEXAGON)
    exp = hx.letter_reg(a["letter"], a["sp"], a["acc"], a["new"])
    toks = [Token("REG_TYPE", a["letter"]), Token(a["acc"], a["sp"])]
    try:
        if a.get("history") == "other":
            # the same letter was used with the other .new-ness earlier in the behaviour
            getattr(t, "reg" if a["new"] else "new_reg")(list(toks))
        r = getattr(t, "new_reg" if a["new"] else "reg")(list(toks))
        init = r.il_init_var()
        rd = r.il_read()
        rd2 = r.il_read()
    except Exception as e:
        return True, f"raised {type(e).__name__}: {e}"
    lines = init.split("\n")
    name = exp["name"]
    want_rd = f"READ_REG(pkt, {exp['op_ref']}, {exp['new']})"
    clause = a.get("clause", "")
    bad = (r.value_type.signed, r.value_type.bit_width) != (exp["signed"], exp["width"]) or lines[0] != exp["decl_op"]
    if "read-of-write-only" in clause:
        bad = rd != f"READ_REG(pkt, {exp['op_ref']}, true)"
    elif "readable-register-is-read-once" in clause:
        bad = not (len(lines) == 2 and lines[1] == f"RzILOpPure *{name} = {want_rd};")
    elif "reads-use-that-pure" in clause:
        bad = not (rd == name and rd2 == f"DUP({name})")
    elif "rw-x-register" in clause:
        bad = not (rd == want_rd and rd2 == want_rd)
    elif "write-only-register-declares-no-pure" in clause:
        bad = len(lines) != 1
    return bad, (f"{a['letter']}{a['sp']}{' after the other .new-ness' if a.get('history') else ''}: typed {r.value_type}, declared {init!r}, reads {rd!r}, {rd2!r}; "
                 f"expected width {exp['width']}, {exp['decl_op']}")


@replay.register("c07.explicit")
def replay_explicit(a):
    from rzilcompiler.Transformer.RZILTransformer import RZILTransformer
    from rzilcompiler.ArchEnum import ArchEnum
    t = RZILTransformer(ArchEnum.HEXAGON)
    exp = hx.explicit_reg(a["text"], a["new"])
    try:
        r = t.explicit_reg([Token("__ANON_0", a["text"]), Token("_NEW", "_NEW") if a["new"] else None])
        init = r.il_init_var()
    except Exception as e:
        return False, f"rejected: {type(e).__name__}"
    var = exp["name"].replace(":", "_")
    want = f"const HexOp {var}_op = EXPLICIT2OP({exp['number']}, {exp['class']}, {exp['new']});"
    bad = init.split("\n")[0] != want or r.value_type.bit_width != exp["width"]
    return bad, f"{a['text']}: declared {init.splitlines()[0]!r} typed {r.value_type}; expected {want!r} at {exp['width']} bit"


@replay.register("c07.special_id")
def replay_special_id(a):
    c = irkit.real_compiler()
    ident = a["ident"]
    if ident == "EA":
        txt = c.compile_c_stmt("{ EA = RsV; RdV = mem_load_u8(EA); ReV = mem_load_s16(EA); }")
        decl = [l for l in txt.splitlines() if l.startswith("// Declare:")]
        sets = re.findall(r'SETL\("EA", (.*)\);', txt)
        bad = decl.count("// Declare: ut32 EA;") != 1 or not sets or "CAST(32, IL_FALSE" not in sets[0]
        return bad, f"{{ EA = RsV; ... }}: declarations {decl}; EA is set from {sets}"
    txt = c.compile_c_stmt("{ for (%s = 0; %s < 2; %s++) { RdV = RdV + %s; } }" % ((ident,) * 4))
    decl = [l for l in txt.splitlines() if l.startswith("// Declare:") and f" {ident};" in l]
    return decl != [f"// Declare: ut32 {ident};"], f"loop counter {ident}: declarations {decl}"


def gen_task(loader, check, what, replay_on=True, **kw):
    if what == "letters":
        gen_letter_regs(loader, check, replay_on, **kw)
    elif what == "explicit":
        gen_explicit(loader, check, replay_on, check.tier if check.tier in ("quick", "thorough") else "quick")
    elif what == "jump":
        # "a jump records its 32-bit target": the conversion-context contract of C03, all eight source types
        from . import c03
        c03.gen_callbacks(loader, check, c03.T8, ["Variable"], replay_on, sections=["jump"])
    elif what == "load_frame":
        # a load keeps the width and signedness its spelling gave it: a cast applied to it builds a new node, it never re-types the load
        from . import c03
        c03.gen_callbacks(loader, check, c03.T8, ["MemLoad"], replay_on, sections=["cast_calls"])
    else:
        {"alias": gen_alias, "imm_mem": gen_imm_mem, "access": gen_access_state}[what](loader, check, replay_on)


def gen_catalog(loader, check, replay_on=True):
    catalog.gen_leaf_reads(loader, check, replay_on)
    catalog.gen_misc_nodes(loader, check, replay_on)


def generate_reduced(loader, check):
    check.ob_filter = r"#binding|#total|#access|#rejected|jump#|#modifies"
    gen_task(loader, check, "jump", False)
    gen_task(loader, check, "load_frame", False)
    gen_letter_regs(loader, check, False, letters=["R", "P", "N"])
    gen_explicit(loader, check, False, "quick")
    gen_alias(loader, check, False)
    gen_imm_mem(loader, check, False)
    gen_access_state(loader, check, False)
    gen_catalog(loader, check, False)


def run(check: Check):
    check.trust("T-VCGEN: pyvc interpretation of the Python subset (mutant self-test, native replay)")
    check.trust("T-HEX: spec/hexagon.py - register class letters, access letters, pair doubling, immediate signedness, alias widths "
                "(QEMU hex_common.py conventions cited in grammar.lark and the property statement)")
    check.trust("T-PLUGIN: ISA2REG / EXPLICIT2OP / ALIAS2OP / NREG2OP / ISA2IMM return the operand the arguments name; READ_REG(pkt, op, new) "
                "reads the old or .new value of exactly that register; WRITE_REG(bundle, op, v) writes its .new value; LOADW/STOREW as in RzIL")
    check.assume("complete finite enumeration of the operand spellings of the grammar terminals (REG_TYPE x access spellings x {V, N}); explicit "
                 "registers: quick tier uses 5 first numbers x {single, 3 pair partners}, the thorough tier all 20 x 21 spellings")
    check.ob_filter = r"#binding|#total|#access|#rejected|jump#|#modifies"
    tasks = [{"what": "letters", "letters": [l]} for l in "CNPRMQV"] + [{"what": w} for w in ("explicit", "alias", "imm_mem", "access", "jump", "load_frame")]
    check.run_parallel("contracts.c07", "gen_task", tasks, workers=WORKERS, sink_attrs={"ob_filter": check.ob_filter})
    check.run_parallel("contracts.c07", "gen_catalog", [{}], workers=1, sink_attrs={"ob_filter": check.ob_filter})
    run_mutants(check, MUTANTS, "contracts.c07", "generate_reduced")
    return check.finish(
        level="proof",
        rule="one obligation per (operand spelling, clause); exhaustive over the grammar terminals (exhaustive: true for lettered "
             "registers, immediates, access widths; explicit numbers sampled in the quick tier)")
