"""Transformer harness: a heap record of the real RZILTransformer (built by interpreting its real
__init__), with the holder-registration helper `add_op` replaced by its contract.

Contract of RZILTransformer.add_op (verified against the code in contracts/c11.py):
  requires  op.get_name() is not a parameter name
  ensures   variables / registers / ret_val / hybrid temporaries keep their name and are
            de-duplicated (an already registered op of that name is returned instead);
            every other op gets num_id = old(op_count), name = <base>_<num_id>, op_count' = op_count+1,
            `inlined = True` iff its class is one of the inlined pure classes, is registered in
            the holder table of its kind, and is returned.
  assumes   [A-NAMES] no registered op has the raw base name of a non-variable op (user identifiers do
            not collide with internal node names such as "cast_st32" / "op_ADD").
"""
from __future__ import annotations
import z3

from pyvc.values import Obj, SInt, Tpl, Unsupported
from pyvc.interp import PyRaise
from pyvc.values import ExcVal
from . import irkit

M_T = "rzilcompiler.Transformer.RZILTransformer"
M_H = "rzilcompiler.Transformer.ILOpsHolder"


def isa(it, o, name):
    return isinstance(o, Obj) and o.cls.is_subclass_of(irkit.C(it.loader, name))


def add_op_stub(it, f, args, kwargs):
    self, op = args[0], args[1]
    L = it.loader
    holder = self.fields["il_ops_holder"]
    name = it.call(it.getattr_(op, "get_name"), [], {})
    if isinstance(name, str) and name in self.fields["parameters"]:
        raise PyRaise(ExcVal(ValueError, [f"Operand {name} already defined as parameter."]))
    G = L.load("rzilcompiler.Transformer.ValueType").globals["VTGroup"]
    keeps_name = (isa(it, op, "Variable") or isa(it, op, "Register") or isa(it, op, "ReturnValue") or (
        isa(it, op, "LocalVar") and op.fields["value_type"] is not None
        and bool(op.fields["value_type"].fields["group"] & G.HYBRID_LVAR)))
    tables = [holder.fields["read_ops"], holder.fields["exec_ops"], holder.fields["write_ops"]]
    if isinstance(name, str):
        for tb in tables:
            if name in tb:
                return tb[name]
    cnt = holder.fields["op_count"]
    n = cnt
    holder.fields["op_count"] = SInt(cnt.t + 1) if isinstance(cnt, SInt) else cnt + 1
    op.fields["num_id"] = n
    inl = self.fields["inlined_pure_classes"]
    if any(isinstance(op, Obj) and op.cls.is_subclass_of(c) for c in inl):
        op.fields["inlined"] = True
    if not keeps_name:
        op.fields["name"] = Tpl([name, "_", n if isinstance(n, SInt) else str(n)])
    holder.ghost.setdefault("added", []).append(op)
    # registration (the holder tables are keyed by name; new non-variable names are symbolic -> ghost table)
    if keeps_name and isinstance(name, str):
        tables[0][name] = op
    return op


def mk_transformer(it, registered=(), symbolic_count=True, params=None, return_type=None, code_format=None,
                   stub_add_op=True):
    """Interprets the real RZILTransformer.__init__ and ILOpsHolder.__init__; `registered` ops are
    put into the holder's read table under their names (children that earlier callbacks registered)."""
    L = it.loader
    T = L.load(M_T).globals["RZILTransformer"]
    ArchEnum = L.load("rzilcompiler.ArchEnum").globals["ArchEnum"]
    kw = {}
    if params is not None:
        kw["parameters"] = params
        kw["return_type"] = return_type
    if code_format is not None:
        kw["code_format"] = code_format
    t = it.call(T, [ArchEnum.HEXAGON], kw)
    holder = t.fields["il_ops_holder"]
    if symbolic_count:
        c = z3.Int("op_count0")
        it.ctx.assume(c >= 0)
        holder.fields["op_count"] = SInt(c)
        h = z3.Int("hybrid_count0")
        it.ctx.assume(h >= 0)
        holder.fields["hybrid_op_count"] = SInt(h)
    for op in registered:
        nm = it.call(it.getattr_(op, "get_name"), [], {})
        if isinstance(nm, str):
            holder.fields["read_ops"][nm] = op
    if stub_add_op:
        it.ctx.contracts[f"{M_T}.RZILTransformer.add_op"] = add_op_stub
    return t


def method(it, t, name):
    return it.getattr_(t, name)
