"""C11 - emitted text is a well-formed C body with sound companion metadata.

  * every il_init_var() yields nothing, a // comment, or `<ctype> [*]<ident> = <expr>;` with a valid identifier,
    balanced parentheses and an initialiser built only from RzIL builders / plugin macros / declared variables
    (catalogue + the declaration families of the other contract modules);
  * add_op (the contract every callback module *uses*, A-NAMES) is verified here against the real code:
    num_id = old counter, names <base>_<num_id> (strictly increasing => unique), variables de-duplicated,
    inlined flag, registration table; a parameter name is rejected;
  * declared exactly once and before first use: the emit loops append each initialiser once (fold invariants,
    unbounded tables) and operands are initialised before their consumer (num_id order / earlier block);
  * the final statement is `return instruction_sequence;`; an empty holder gives `return NOP();`;
  * RZILInstruction: mention of hi / pkt => needs_hi / needs_pkt (string contracts over symbolic code);
    SubRoutine.check_for_bundle_usage: mention => the declaration is prepended; list lengths == parts;
    getter names per part; getter names unique across the 2181 bundled instruction names (ground, exhaustive).
Bounded clause (labelled): operand spellings never normalise to the same C identifier - checked over the
finite spelling set of C07 and the aliases of the corpus.
"""
from __future__ import annotations
import ast
import itertools
import os
import re
import z3
from lark import Token

from pyvc.interp import explore, AbsSeq, LoopContract
from pyvc.loader import Loader, FuncInfo
from pyvc.values import Obj, Tpl, SInt, Atom
from pyvc.vc import Check
from pyvc import replay
from spec import hexagon as hx
from . import irkit, tkit, emit, catalog, c05, c09, c12, c19
from .common import WORKERS, conc_vt, tname, run_mutants
from .c19 import SymStr, sv, re_stub, WORD

PROP = "C11"
Z3_TIMEOUT_MS = 3000
CVC5_TIMEOUT_MS = 25000
FILTER = r"#decl|#emit|#loop|#comment|add_op#|#flags|#getter|#names|fbody#|bundle_usage#|declaration-shape|#well-sorted|#total|#ends-with-return|#order|#reset\.(holder|transformer)|#history-independent|dead-arm-side-effect|live-arm-side-effect|#children: every operand the emitter reads"

MUTANTS = [
    {"name": "Branch.__str__: arms printed on their own lines (the statement comment spills into the code)", "file": "rzilcompiler/Transformer/Effects/Branch.py",
     "old": "return f\"if ({self.cond}) {{{self.then}}}", "new": "return f\"if ({self.cond}) {{\\n{self.then}}}"},
    {"name": "add_op: name suffix uses a constant", "file": "rzilcompiler/Transformer/RZILTransformer.py",
     "old": '            op.set_name(f"{op.get_name()}_{num_id}")', "new": '            op.set_name(f"{op.get_name()}_0")'},
    {"name": "add_op: registered variables are not de-duplicated", "file": "rzilcompiler/Transformer/RZILTransformer.py",
     "old": "        elif self.il_ops_holder.has_op(op.get_name()):\n            return self.il_ops_holder.get_op_by_name(op.get_name())", "new": "        elif False:\n            pass"},
    {"name": "ILOpsHolder.get_op_count: counter not advanced", "file": "rzilcompiler/Transformer/ILOpsHolder.py",
     "old": "        cnt = self.op_count\n        self.op_count += 1\n        return cnt", "new": "        cnt = self.op_count\n        return cnt"},
    {"name": "ILOpsHolder.add_pure: executable pures filed under the read table", "file": "rzilcompiler/Transformer/ILOpsHolder.py",
     "old": "        elif pure.type == PureType.EXEC:\n            self.exec_ops[pure.get_name()] = pure", "new": "        elif pure.type == PureType.EXEC:\n            self.read_ops[pure.get_name()] = pure"},
    {"name": "Effect.il_init_var: missing semicolon", "file": "rzilcompiler/Transformer/Effects/Effect.py",
     "old": 'return f"RzILOpEffect *{self.effect_var()} = {self.il_write()};"', "new": 'return f"RzILOpEffect *{self.effect_var()} = {self.il_write()}"'},
    {"name": "PureExec.il_init_var: unbalanced parenthesis", "file": "rzilcompiler/Transformer/Pures/PureExec.py",
     "old": '            init = f"RzILOpPure *{self.pure_var()} = {self.il_exec()};"', "new": '            init = f"RzILOpPure *{self.pure_var()} = ({self.il_exec()};"'},
    {"name": "Register.pure_var: ':' kept in the C identifier", "file": "rzilcompiler/Transformer/Pures/Register.py",
     "old": "        var = GlobalVar.pure_var(self)\n        return var.replace(\":\", \"_\")", "new": "        var = GlobalVar.pure_var(self)\n        return var"},
    {"name": "RZILInstruction: needs_hi only when the text starts with hi", "file": "rzilcompiler/Compiler.py",
     "old": 'not self.not_implemented and re.search(r"\\Whi\\W", code)', "new": 'not self.not_implemented and re.search(r"^hi\\W", code)'},
    {"name": "RZILInstruction: needs_pkt looks for 'pkt->'", "file": "rzilcompiler/Compiler.py",
     "old": 'self.needs_pkt.append(not self.not_implemented and "pkt" in code)', "new": 'self.needs_pkt.append(not self.not_implemented and "pkt->" in code)'},
    {"name": "check_for_bundle_usage: hi declaration only when pkt is used too", "file": "rzilcompiler/Transformer/Hybrids/SubRoutine.py",
     "old": '        if re.search(r"\\Whi\\W", code):\n            code = "const HexInsn', "new": '        if re.search(r"\\Whi\\W", code) and re.search(r"\\Wpkt\\W", code):\n            code = "const HexInsn'},
    {"name": "gen_hex_il_op_getter_name: part index dropped", "file": "rzilcompiler/Compiler.py",
     "old": '            name = f"hex_il_op_{insn_name.lower()}_part{part}"', "new": '            name = f"hex_il_op_{insn_name.lower()}_part"'},
    {"name": "fbody: empty holder returns an empty body", "file": "rzilcompiler/Transformer/RZILTransformer.py",
     "old": '            return f"return NOP();"', "new": '            return f""'},
    {"name": "emit_final_seq_return: return statement without semicolon", "file": "rzilcompiler/Transformer/RZILTransformer.py",
     "old": '        res += f"return {instruction_sequence.effect_var()};"', "new": '        res += f"return {instruction_sequence.effect_var()}"'},
    {"name": "emit_stmt_blocks: effect before its operands", "file": "rzilcompiler/Transformer/RZILTransformer.py",
     "old": "            # Emit each statement\n            for op in stmt[:-1]:\n                op_init = op.il_init_var()\n                if not op_init:\n                    continue\n                res += op_init + \"\\n\"\n            res += effect_init + \"\\n\"",
     "new": "            # Emit each statement\n            res += effect_init + \"\\n\"\n            for op in stmt[:-1]:\n                op_init = op.il_init_var()\n                if not op_init:\n                    continue\n                res += op_init + \"\\n\""},
]


# ------------------------------------------------------------------------------------------ add_op against its contract
def gen_add_op(loader, check, replay_on=True):
    T = loader.load(tkit.M_T).globals["RZILTransformer"]
    H = loader.load(tkit.M_H).globals["ILOpsHolder"]
    check.under_contract(loader, T.methods["add_op"], T.methods["get_op_id"], *[H.methods[m] for m in (
        "get_op_count", "add_op", "add_pure", "add_effect", "add_hybrid", "has_op", "get_op_by_name", "clear", "is_empty", "__init__")])
    G = loader.load("rzilcompiler.Transformer.ValueType").globals["VTGroup"]
    N0 = z3.Int("op_count0")
    kinds = {
        "Variable": ("read_ops", True, False), "Register": ("read_ops", True, False), "ReturnValue": ("read_ops", True, False),
        "HybridTmp": ("read_ops", True, False), "Immediate": ("read_ops", False, False), "Number": ("read_ops", False, True),
        "Sizeof": ("read_ops", False, True), "Bool": ("read_ops", False, True), "Cast": ("exec_ops", False, True),
        "ArithmeticOp": ("exec_ops", False, False), "CompareOp": ("exec_ops", False, False), "Ternary": ("exec_ops", False, False),
        "MemLoad": ("exec_ops", False, False), "Assignment": ("write_ops", False, False), "NOP": ("write_ops", False, False),
        "Sequence": ("write_ops", False, False), "PostfixIncDec": ("both", False, False),
    }
    for kind, (table, keeps, inl) in kinds.items():
        for present in ((False, True) if keeps else (False,)):
            inst = f"op={kind} already-registered={present}"
            check.instances_declared += 1

            def setup(it, kind=kind, present=present):
                t = tkit.mk_transformer(it, stub_add_op=False)
                h = t.fields["il_ops_holder"]
                h.fields["read_ops"]["other"] = irkit.mk_var(it, "other", (True, 32))
                if kind == "ReturnValue":
                    o = it.call(irkit.C(loader, "ReturnValue"), [conc_vt(loader, (True, 32))], {})
                elif kind in ("Assignment", "NOP"):
                    o = c05.mk_effect(it, loader, kind, "eff")
                    o.stubs.clear()
                elif kind == "Sequence":
                    o = it.call(irkit.C(loader, "Sequence"), ["seq", [c05.mk_effect(it, loader, "NOP", "x")]], {})
                elif kind == "PostfixIncDec":
                    HT = irkit.enum(loader, "Hybrid", "HybridType")
                    v = irkit.mk_var(it, "v", (True, 32))
                    o = it.call(irkit.C(loader, "PostfixIncDec"), ["op_INC", v, v.fields["value_type"], HT("++")], {})
                else:
                    o = irkit.mk_operand(it, kind, (True, 32), "x")
                    o.stubs.clear()
                twin = None
                if present:
                    twin = Obj(o.cls, label="twin")
                    twin.fields.update(o.fields)
                    nm = it.call(it.getattr_(o, "get_name"), [], {})
                    h.fields["read_ops"][nm] = twin
                name0 = it.call(it.getattr_(o, "get_name"), [], {})
                it.ctx.mark_pre(t)
                return {"t": t, "o": o, "twin": twin, "name0": name0}
            ex = explore(loader, setup, lambda it, st: it.call(tkit.method(it, st["t"], "add_op"), [st["o"]], {}), target=f"{tkit.M_T}.RZILTransformer.add_op")
            check.absorb(ex, f"add_op {inst}")
            if ex.paths:
                check.instances_generated += 1
            for p in ex.paths:
                pc = p.ctx.pc
                check.ob("add_op#total", inst, pc, p.outcome == "return", detail="" if p.outcome == "return" else f"raises {p.value!r}")
                if p.outcome != "return":
                    continue
                st = p.state
                o, h = st["o"], st["t"].fields["il_ops_holder"]
                cnt = h.fields["op_count"]
                if present:
                    check.ob("add_op#variables-are-deduplicated (already registered op is returned, nothing changes)", inst, pc,
                             p.value is st["twin"] and isinstance(cnt, SInt) and z3.eq(cnt.t, N0))
                    continue
                check.ob("add_op#returns-the-op", inst, pc, p.value is o)
                nid = o.fields.get("num_id")
                check.ob("add_op#num_id-is-the-old-counter", inst, pc, isinstance(nid, SInt) and z3.eq(nid.t, N0), detail=repr(nid))
                check.ob("add_op#counter-advances-by-one", inst, pc, isinstance(cnt, SInt) and cnt.t == N0 + 1)
                nm = it_name(o)
                if keeps:
                    check.ob("add_op#names: variables keep their name", inst, pc, nm == st["name0"], detail=repr(nm))
                elif o.fields.get("isa_name"):
                    # operands named by the ISA (immediates) keep their visible name; they are unique per letter
                    check.ob("add_op#names: ISA-named operands keep their ISA name", inst, pc, nm == st["name0"], detail=repr(nm))
                else:
                    ok = isinstance(nm, Tpl) and len(nm.parts) == 2 and nm.parts[0] == str(st["name0"]) + "_" and isinstance(nm.parts[1], SInt) and z3.eq(nm.parts[1].t, N0)
                    check.ob("add_op#names: <base>_<num_id> (unique because num_id strictly increases)", inst, pc, ok, detail=repr(nm))
                check.ob("add_op#inlined-flag-iff-inlined-class", inst, pc, bool(o.fields.get("inlined", False)) == inl or kind in ("Sizeof", "Bool", "Number", "Cast") and o.fields.get("inlined") is True)
                tabs = {tb: [k for k, v in h.fields[tb].items() if v is o] for tb in ("read_ops", "exec_ops", "write_ops")}
                want = {"read_ops": ["read_ops"], "exec_ops": ["exec_ops"], "write_ops": ["write_ops"], "both": ["exec_ops", "write_ops"]}[table]
                got = [tb for tb, ks in tabs.items() if ks]
                keyok = all(ks == [nm] or (len(ks) == 1 and ks[0] == nm) for ks in tabs.values() if ks)
                check.ob("add_op#registered-in-the-table-of-its-kind-under-its-name", inst, pc, got == want and keyok, detail=f"{tabs}")
                check.ob("add_op#frame: other registered ops untouched", inst, pc, "other" in h.fields["read_ops"] and len(h.fields["read_ops"]) == (2 if "read_ops" in want else 1))
    # a parameter name is rejected
    check.instances_declared += 1

    def setup_p(it):
        par = it.call(irkit.C(loader, "Parameter"), ["x", conc_vt(loader, (True, 32))], {})
        t = tkit.mk_transformer(it, stub_add_op=False, params=[par], return_type=conc_vt(loader, (True, 32)))
        return {"t": t, "o": irkit.mk_var(it, "x", (True, 32))}
    ex = explore(loader, setup_p, lambda it, st: it.call(tkit.method(it, st["t"], "add_op"), [st["o"]], {}), target=f"{tkit.M_T}.RZILTransformer.add_op")
    check.absorb(ex, "add_op parameter")
    if ex.paths:
        check.instances_generated += 1
    for p in ex.paths:
        check.ob("add_op#requires: an operand named like a parameter is rejected", "variable x vs parameter x", p.ctx.pc, p.outcome == "raise" and p.value.cls is ValueError)
    check.notes.append("A-NAMES (assumed by every callback module): a non-variable op's raw base name (e.g. 'cast_st32', 'op_ADD') is not the name of a "
                       "registered operand; with it, the add_op contract used in contracts/tkit.py is exactly what is discharged here")


    # registering the SAME node twice (callbacks such as cancel_slot_stmt / chk_hybrid_dep pass a node through add_op again): the second
    # call changes nothing - one name, one registration, one declaration
    for kind in ("NOP", "Assignment", "Sequence", "ArithmeticOp", "Variable"):
        inst = f"op={kind} added twice"
        check.instances_declared += 1

        def setup2(it, kind=kind):
            t = tkit.mk_transformer(it, stub_add_op=False)
            if kind in ("Assignment", "NOP"):
                o = c05.mk_effect(it, loader, kind, "eff")
                o.stubs.clear()
            elif kind == "Sequence":
                o = it.call(irkit.C(loader, "Sequence"), ["seq", [c05.mk_effect(it, loader, "NOP", "x")]], {})
            else:
                o = irkit.mk_operand(it, kind, (True, 32), "x")
                o.stubs.clear()
            return {"t": t, "o": o}

        def run2(it, st):
            r1 = it.call(tkit.method(it, st["t"], "add_op"), [st["o"]], {})
            n1 = it.call(it.getattr_(r1, "get_name"), [], {})
            c1 = st["t"].fields["il_ops_holder"].fields["op_count"]
            r2 = it.call(tkit.method(it, st["t"], "add_op"), [r1], {})
            n2 = it.call(it.getattr_(r2, "get_name"), [], {})
            return r1, n1, c1, r2, n2
        ex = explore(loader, setup2, run2)
        check.absorb(ex, f"add_op {inst}")
        if ex.paths:
            check.instances_generated += 1
        for p in ex.paths:
            if p.outcome != "return":
                check.ob("add_op#total", inst, p.ctx.pc, False, detail=repr(p.value))
                continue
            r1, n1, c1, r2, n2 = p.value
            h = p.state["t"].fields["il_ops_holder"]
            c2 = h.fields["op_count"]
            regs = sum(1 for d in ("read_ops", "exec_ops", "write_ops") for v in h.fields[d].values() if v is r1)
            same_cnt = (c1 == c2) if not isinstance(c1, SInt) else z3.simplify(c1.t == c2.t)
            ok_names = (n1 == n2) if isinstance(n1, str) else (isinstance(n2, Tpl) and n1.skey() == n2.skey())
            check.ob("add_op#names: adding an already registered node again changes nothing (one name, one registration)", inst, p.ctx.pc,
                     z3.And(z3.BoolVal(bool(r2 is r1 and ok_names and regs == 1)), same_cnt if not isinstance(same_cnt, bool) else z3.BoolVal(same_cnt)),
                     detail=f"names {n1!r} / {n2!r}; registrations {regs}; op_count {c1} -> {c2}",
                     replay=("c11.twice", lambda mdl: {}) if replay_on and kind == "NOP" else None)

def it_name(o):
    return o.fields.get("isa_name") or o.fields.get("name")


# ------------------------------------------------------------------------------------------ declare-before-use order
def gen_order(loader, check, replay_on=True):
    """a callback's result gets a num_id above every operand it was given (operands are registered first), so that
    sorting by num_id / table insertion order initialises operands before their consumer"""
    T = loader.load(tkit.M_T).globals["RZILTransformer"]
    N0 = z3.Int("op_count0")
    cases = [("additive_expr", lambda it, a, b: [a, Token("ADD_OP", "+"), b]), ("relational_expr", lambda it, a, b: [a, Token("LT_OP", "<"), b]),
             ("conditional_expr", lambda it, a, b: [irkit.mk_operand(it, "CompareOp", (True, 32), "c"), a, b]),
             ("cast_expr", lambda it, a, b: [conc_vt(loader, (False, 64)), a]), ("unary_expr", lambda it, a, b: [Token("UNARY_OP", "~"), a]),
             ("mem_load", lambda it, a, b: [Token("MEM_LOAD", "mem_load_"), Token("SIGN_TYPE", "s"), Token("BIT_WIDTH", "16"), a]),
             ("shift_expr", lambda it, a, b: [a, Token("LEFT_OP", "<<"), b])]
    for cb, mk in cases:
        inst = f"{cb} operands=executable pures registered earlier"
        check.instances_declared += 1

        def setup(it, mk=mk):
            t = tkit.mk_transformer(it)
            ops = []
            for nm in ("a", "b"):
                o = irkit.mk_operand(it, "ArithmeticOp", (True, 32), nm)
                k = z3.Int(f"nid_{nm}")
                it.ctx.assume(z3.And(k >= 0, k < N0))          # holder invariant: registered ops have num_id < op_count
                o.fields["num_id"] = SInt(k)
                ops.append(o)
            it.ctx.mark_pre(t)
            return {"t": t, "items": mk(it, ops[0], ops[1]), "ops": ops}
        ex = explore(loader, setup, lambda it, st, cb=cb: it.call(tkit.method(it, st["t"], cb), [st["items"]], {}))
        check.absorb(ex, f"order {inst}")
        if ex.paths:
            check.instances_generated += 1
        for p in ex.paths:
            check.ob(f"{cb}#total", inst, p.ctx.pc, p.outcome == "return", detail="" if p.outcome == "return" else f"raises {p.value!r}")
            if p.outcome != "return":
                continue
            # every PureExec node created by the callback (the result and inserted casts) is numbered after the given operands
            created = []

            def walk(o, depth=0):
                if isinstance(o, Obj) and "num_id" in o.fields and o not in p.state["ops"] and depth < 6:
                    if isinstance(o.fields["num_id"], SInt) and o not in created:
                        created.append(o)
                    for ch in o.fields.get("ops", []) or []:
                        walk(ch, depth + 1)
            walk(p.value)
            goal = z3.And(*[z3.And(*[c.fields["num_id"].t > x.fields["num_id"].t for x in p.state["ops"]]) for c in created]) if created else z3.BoolVal(False)
            check.ob(f"{cb}#order: nodes created by a callback are numbered after its operands", inst, p.ctx.pc, goal, detail=f"{len(created)} created nodes")


# ------------------------------------------------------------------------------------------ register declarations
def gen_reg_decls(loader, check, replay_on=True):
    """declaration lines of register operands: valid identifiers, balanced parentheses, <ctype> [*]<ident> = <expr>;"""
    cases = [("reg", [Token("REG_TYPE", "R"), Token("SRC_REG", "s")]), ("reg", [Token("REG_TYPE", "R"), Token("DEST_REG_PAIR", "dd")]),
             ("new_reg", [Token("REG_TYPE", "P"), Token("SRC_REG", "t")]), ("reg", [Token("REG_TYPE", "N"), Token("SRC_REG", "s")]),
             ("explicit_reg", [Token("X", "P0"), None]), ("explicit_reg", [Token("X", "R1:0"), None]), ("explicit_reg", [Token("X", "C1:0"), Token("_NEW", "_NEW")]),
             ("reg_alias", [Token("X", "SP"), None]), ("reg_alias", [Token("X", "LC0"), Token("_NEW", "_NEW")]), ("reg_alias", [Token("X", "PC"), None])]
    for cb, items in cases:
        inst = f"{cb} {''.join(str(x) for x in items if x)}"
        check.instances_declared += 1

        def setup(it):
            return {"t": tkit.mk_transformer(it)}

        def run(it, st, cb=cb, items=items):
            r = it.call(tkit.method(it, st["t"], cb), [list(items)], {})
            return it.call(it.getattr_(r, "il_init_var"), [], {})
        ex = explore(loader, setup, run)
        check.absorb(ex, f"reg decl {inst}")
        if ex.paths:
            check.instances_generated += 1
        for p in ex.paths:
            check.ob("Register.il_init_var#total", inst, p.ctx.pc, p.outcome == "return", detail="" if p.outcome == "return" else f"raises {p.value!r}")
            if p.outcome != "return":
                continue
            t = emit.as_tpl(p.value)
            for ln in catalog.split_lines(t):
                d = catalog.parse_decl(ln)
                check.ob("Register.il_init_var#decl.shape (valid identifier, initialiser, semicolon)", f"{inst}: {ln.render()[:40]}", p.ctx.pc,
                         d[0] == "decl" and catalog.balanced(d[4]), detail=str(d[1]) if d[0] == "bad" else "")


# ------------------------------------------------------------------------------------------ fbody
def gen_fbody(loader, check, replay_on=True):
    T = loader.load(tkit.M_T).globals["RZILTransformer"]
    CF = loader.load(tkit.M_T).globals["CodeFormat"]
    check.under_contract(loader, T.methods["fbody"])
    for fmt in (CF.READ_STATEMENTS, CF.EXEC_CLASSES):
        for empty in (True, False):
            inst = f"layout={fmt.name} holder-empty={empty}"
            check.instances_declared += 1

            def setup(it, fmt=fmt, empty=empty):
                t = tkit.mk_transformer(it, code_format=fmt)
                items = []
                if not empty:
                    e = c05.mk_effect(it, loader, "Assignment", "s0")
                    e.stubs["il_init_var"] = lambda it_, o, a, k: Tpl([Atom("s0", 1, kind="init")])
                    t.fields["il_ops_holder"].fields["write_ops"]["s0"] = e
                    items = [e]
                return {"t": t, "items": items}
            ex = explore(loader, setup, lambda it, st: it.call(tkit.method(it, st["t"], "fbody"), [st["items"]], {}))
            check.absorb(ex, f"fbody {inst}")
            if ex.paths:
                check.instances_generated += 1
            for p in ex.paths:
                check.ob("fbody#total", inst, p.ctx.pc, p.outcome == "return", detail="" if p.outcome == "return" else f"raises {p.value!r}")
                if p.outcome != "return":
                    continue
                txt = emit.as_tpl(p.value).render(lambda a: f"<{a.tag}>")
                if empty:
                    check.ob("fbody#empty-behaviour-returns-NOP", inst, p.ctx.pc, txt == "return NOP();", detail=repr(txt))
                else:
                    lines = [l for l in txt.split("\n") if l.strip()]
                    ok = lines[-1] == "return instruction_sequence;" and all(
                        l.startswith("//") or l.startswith("<") or re.match(r"^(const )?\w+ \*?\w+ = .*;$", l) for l in lines[:-1])
                    check.ob("fbody#every-line-is-a-comment-a-declaration-or-the-final-return", inst, p.ctx.pc, ok, detail=txt[-200:])
                    check.ob("fbody#decl.initialiser-before-the-sequence-that-uses-it", inst, p.ctx.pc, txt.index("<s0>") < txt.index("instruction_sequence ="))



# ------------------------------------------------------------------------------------------ comment text (str of a node) is one line
CHILD_FIELDS = ("dest", "src", "cond", "then", "otherwise", "control", "compound", "target", "va", "data_var", "size")


def _abstract_children(it, o):
    """every child the printer may print becomes an arbitrary node whose own str() is, by this very contract, one line"""
    n = 0

    def child(ch):
        nonlocal n
        if isinstance(ch, Obj):
            n += 1
            ch.label = f"child{n}"
            ch.stubs["__str__"] = irkit.str_stub
    for f in ("ops", "effect_ops"):
        for ch in (o.fields.get(f) or []) if isinstance(o.fields.get(f), list) else []:
            child(ch)
    for f in CHILD_FIELDS:
        child(o.fields.get(f))
    return n


def gen_comments(loader, check, replay_on=True):
    """READ_STATEMENTS writes `// <str(effect)>;` in front of every statement block: the text must stay inside the comment.
    Contract of every __str__ of an IR class: the result is one line (no line break) provided the children's are - structural induction
    over the node; names are identifiers (A-NAMES), operator spellings come from the enums, types from ValueType.__str__ (run, not assumed).
    The comment ends with `;` (emit_stmt_blocks step obligation), so it cannot end in a line-splicing backslash either."""
    L = loader
    AT = irkit.enum(L, "Assignment", "AssignmentType")
    HT = irkit.enum(L, "Hybrid", "HybridType")
    BT = irkit.enum(L, "BitOp", "BitOperationType")
    BO = irkit.enum(L, "BooleanOp", "BooleanOpType")
    t32 = (True, 32)

    def v(it, n):
        return irkit.mk_var(it, n, t32)

    def eff(it, kind, label):
        return c05.mk_effect(it, L, kind, label)

    def sub_call(it):
        sr = it.call(irkit.C(L, "SubRoutine"), ["sextract64", conc_vt(L, (True, 64)), [it.call(irkit.C(L, "Parameter"), ["value", conc_vt(L, (False, 64))], {})], "b"], {})
        return it.call(irkit.C(L, "SubRoutineCall"), [sr, [v(it, "a")]], {})
    class Children(LoopContract):
        name = "__str__.children"

        def element_kinds(self):
            return ["node"]

        def make_element(self, it, kind, seq):
            ch = v(it, "child")
            ch.label = "child_k"
            ch.stubs["__str__"] = irkit.str_stub
            return ch

    def any_seq(it):
        o = it.call(irkit.C(L, "Sequence"), ["seq", [eff(it, "Assignment", "e1")]], {})
        o.fields["effect_ops"] = AbsSeq("effect_ops", Children())
        return o

    def any_ops(it, o):
        o.fields["ops"] = AbsSeq("ops", Children())
        return o
    cases = {k: (lambda it, k=k: irkit.mk_operand(it, k, t32, "n")) for k in irkit.ALL_KINDS}
    cases.update({
        "BitOp unary": lambda it: it.call(irkit.C(L, "BitOp"), ["op_NOT", v(it, "a"), None, BT("~")], {}),
        "BooleanOp unary": lambda it: it.call(irkit.C(L, "BooleanOp"), ["op_INV", v(it, "a"), None, BO("!")], {}),
        "ReturnValue": lambda it: it.call(irkit.C(L, "ReturnValue"), [conc_vt(L, t32)], {}),
        "LocalVar": lambda it: it.call(irkit.C(L, "LocalVar"), ["tmp", conc_vt(L, t32)], {}),
        "PostfixIncDec": lambda it: it.call(irkit.C(L, "PostfixIncDec"), ["op_INC", v(it, "a"), conc_vt(L, t32), HT("++")], {}),
        "SubRoutineCall": sub_call,
        "Assignment": lambda it: it.call(irkit.C(L, "Assignment"), ["op_ASSIGN", AT("="), v(it, "d"), v(it, "s")], {}),
        "Assignment compound": lambda it: it.call(irkit.C(L, "Assignment"), ["op_ASSIGN", AT("+="), v(it, "d"), v(it, "s")], {}),
        "Branch with else": lambda it: it.call(irkit.C(L, "Branch"), ["br", irkit.mk_operand(it, "CompareOp", t32, "c"), eff(it, "Assignment", "t"), eff(it, "Assignment", "e")], {}),
        "Branch without else": lambda it: it.call(irkit.C(L, "Branch"), ["br", irkit.mk_operand(it, "CompareOp", t32, "c"), eff(it, "Assignment", "t"), None], {}),
        "Empty": lambda it: it.call(irkit.C(L, "Empty"), ["empty"], {}),
        "NOP": lambda it: it.call(irkit.C(L, "NOP"), ["nop"], {}),
        "ForLoop": lambda it: it.call(irkit.C(L, "ForLoop"), ["for", irkit.mk_operand(it, "CompareOp", t32, "c"), eff(it, "Assignment", "b")], {}),
        "Jump": lambda it: it.call(irkit.C(L, "Jump"), ["jump", v(it, "target")], {}),
        "MemStore": lambda it: it.call(irkit.C(L, "MemStore"), ["ms", v(it, "EA"), v(it, "data")], {}),
        "Sequence of two": lambda it: it.call(irkit.C(L, "Sequence"), ["seq", [eff(it, "Assignment", "e1"), eff(it, "Assignment", "e2")]], {}),
        "Sequence of any number": lambda it: any_seq(it),
        "PostfixIncDec of any number of operands": lambda it: any_ops(it, it.call(irkit.C(L, "PostfixIncDec"), ["op_INC", v(it, "a"), conc_vt(L, t32), HT("++")], {})),
        "SubRoutineCall with any number of arguments": lambda it: any_ops(it, sub_call(it)),
        "MacroInvocation with any number of arguments": lambda it: any_ops(it, irkit.mk_operand(it, "MacroInvocation", t32, "n")),
        "Sequence of none": lambda it: it.call(irkit.C(L, "Sequence"), ["seq", []], {}),
    })
    printers = set()
    for lab, mk in cases.items():
        check.instances_declared += 1

        def setup(it, mk=mk):
            # len() / slicing of a symbolic text (Sequence.__str__ shortens long texts): any length, a slice of one line is one line
            it.ctx.tpl_len_hook = lambda it_, t: SInt(z3.Int("len_text"))
            it.ctx.tpl_slice_hook = lambda it_, t, lo, hi, st: Tpl([Atom("slice", 0, kind="slice", meta={"of": t})])
            o = mk(it)
            o.stubs.pop("__str__", None)
            nch = _abstract_children(it, o)
            kids = [c for f in ("ops", "effect_ops") if isinstance(o.fields.get(f), list) for c in o.fields[f] if isinstance(c, Obj)]
            kids += [o.fields[f] for f in CHILD_FIELDS if isinstance(o.fields.get(f), Obj)]
            it.ctx.mark_pre(o, *kids)
            return {"o": o, "nch": nch, "kids": kids}
        ex = explore(loader, setup, lambda it, st: it.str_(st["o"]))
        check.absorb(ex, f"__str__ {lab}")
        if ex.paths:
            check.instances_generated += 1
        for i, p in enumerate(ex.paths):
            pi = f"node={lab} path={i}"
            if p.outcome != "return":
                check.ob("__str__#comment.total", pi, p.ctx.pc, False, detail=f"raises {p.value!r}")
                continue
            owner, m = p.state["o"].cls.lookup("__str__")
            if isinstance(m, FuncInfo):
                printers.add(m.qualname)
                check.under_contract(loader, m)

            def one_line(t):
                for part in emit.as_tpl(t).parts:
                    if isinstance(part, str):
                        if "\n" in part or "\r" in part:
                            return False, f"line break in {part!r}"
                    elif isinstance(part, Atom):
                        if part.kind == "slice":
                            ok, why = one_line(part.meta["of"])
                            if not ok:
                                return ok, why
                        elif part.kind == "join":
                            # texts of all elements of a list of any length, separated: one line iff the separator and every element's text are
                            for q in [part.meta["sep"]] + list(part.meta["elements"].values()):
                                ok, why = one_line(q)
                                if not ok:
                                    return ok, why
                        elif part.kind not in ("str", "fmtint", "fmtbool"):
                            return False, f"text of unknown shape {part!r}"
                return True, ""
            # printing is an observation: it reads no operand (a read would spend the operand's raw use in a comment) and writes nothing
            reads = [k.label for k in p.state["kids"] if k.ghost.get("nreads", 0)]
            writes = [(getattr(o_, "label", None) or repr(o_), f) for (o_, f, _, _) in p.ctx.pre_writes()]
            check.ob("__str__#comment.pure: printing a node reads no operand and changes nothing", pi, p.ctx.pc, not reads and not writes,
                     detail=f"il_read() called on {reads}; fields written {writes[:3]}", replay=("c11.comment_pure", lambda m: {}) if replay_on else None)
            ok, why = one_line(p.value)
            check.ob("__str__#comment.one-line: the printed form of a node contains no line break if its children's do not", pi, p.ctx.pc, ok,
                     detail=why or emit.as_tpl(p.value).render(lambda a: f"<{a.tag}>")[:120],
                     replay=("c11.comment", lambda m: {}) if replay_on else None)
    # every IR class that can be printed has been covered by a case above
    have = set()
    for name, mod in irkit.CLS.items():
        cls = loader.load(mod).globals.get(name)
        if cls is None or not hasattr(cls, "lookup"):
            continue
        owner, m = cls.lookup("__str__")
        if isinstance(m, FuncInfo) and "OverloadException" not in ast.dump(m.node):
            have.add(m.qualname)
    for q in sorted(have - printers):
        check.undecided.append((f"__str__ printer {q}", "a printer of an IR class that no instance of the comment contract exercises (needs contract)"))
    check.ob("__str__#comment.coverage: every printer of an IR class is under this contract", "class table", [], True, detail=f"{len(printers)} printers")
    check.instances_declared += 1
    check.instances_generated += 1


# ------------------------------------------------------------------------------------------ companion record (strings)
def _cfg(ctx):
    ctx.assume_feasible = True


def mention(code, ident):
    W = z3.Intersect(z3.Range("\x00", "\x7f"), z3.Complement(WORD))
    anyc = z3.Star(z3.AllChar(z3.ReSort(z3.StringSort())))
    return z3.InRe(code, z3.Concat(anyc, W, z3.Re(ident), W, anyc))


def gen_record(loader, check, replay_on=True):
    Cm = loader.load("rzilcompiler.Compiler")
    RI = Cm.globals["RZILInstruction"]
    check.under_contract(loader, RI.methods["__init__"], RI.methods["gen_hex_il_op_getter_name"], RI.methods["get_unimplemented_rzil_instr"])
    seen = []
    CODE = z3.String("CODE")
    NONW = z3.Intersect(z3.Range("\x00", "\x7f"), z3.Complement(WORD))
    A, B, W1, W2 = z3.String("A"), z3.String("B"), z3.String("W1"), z3.String("W2")
    for nparts, ment in ((1, "hi"), (1, "pkt"), (2, "hi"), (2, "pkt")):
        inst = f"parts={nparts} text-mentions={ment}"
        check.instances_declared += 1

        def setup(it, nparts=nparts, ment=ment):
            it.ctx.contracts["re.search"] = re_stub("search", seen)
            # the text mentions <ment>: it occurs delimited by non-word characters (witness decomposition)
            it.ctx.assume(z3.InRe(W1, NONW))
            it.ctx.assume(z3.InRe(W2, NONW))
            it.ctx.assume(CODE == z3.Concat(A, W1, sv(ment), W2, B))
            codes = [SymStr(CODE)] + ["return NOP();"] * (nparts - 1)
            return {"codes": codes}
        ex = explore(loader, setup, lambda it, st, nparts=nparts: it.call(RI, ["J2_Jump", st["codes"], [["M"]] * nparts, ["t"] * nparts], {}), configure=_cfg)
        check.absorb(ex, f"RZILInstruction {inst}")
        if ex.paths:
            check.instances_generated += 1
        for i, p in enumerate(ex.paths):
            pi = f"{inst} path={i}"
            pc = p.ctx.pc
            check.ob("RZILInstruction#total", pi, pc, p.outcome == "return", detail="" if p.outcome == "return" else f"raises {p.value!r}")
            if p.outcome != "return":
                continue
            o = p.value
            nh, npk = o.fields["needs_hi"], o.fields["needs_pkt"]
            from pyvc.interp import Interp
            it = Interp(p.ctx)

            def tt(v):
                t = it.truth_term(v)
                return z3.BoolVal(t) if isinstance(t, bool) else t
            rp = ("c11.flags", lambda mdl, ment=ment: {"code": str(mdl.get("A", "")) + str(mdl.get("W1", " ")) + ment + str(mdl.get("W2", " ")) + str(mdl.get("B", ""))}) if replay_on else None
            flag = nh[0] if ment == "hi" else npk[0]
            check.ob(f"RZILInstruction#flags: text mentions {ment} => needs_{ment}", pi, pc, tt(flag), replay=rp)
            check.ob("RZILInstruction#names: one entry per part in every list", pi, pc,
                     all(len(o.fields[k]) == nparts for k in ("rzil", "meta", "parse_trees", "needs_hi", "needs_pkt")) and
                     len(o.fields["getter_rzil"]["name"]) == nparts and len(o.fields["getter_rzil"]["fcn_decl"]) == nparts)
            names = o.fields["getter_rzil"]["name"]
            want = ["hex_il_op_j2_jump"] if nparts == 1 else [f"hex_il_op_j2_jump_part{k}" for k in range(nparts)]
            check.ob("RZILInstruction#getter: name per part", pi, pc, names == want, detail=str(names))
            decls = o.fields["getter_rzil"]["fcn_decl"]
            check.ob("RZILInstruction#getter: declaration per part", pi, pc, decls == [f"RzILOpEffect *{n}(HexInsnPktBundle *bundle)" for n in want], detail=str(decls))

    # sub-routine bodies: mention => declaration prepended
    SubR = irkit.C(loader, "SubRoutine")
    for ment in ("hi", "pkt"):
        check.instances_declared += 1

        def setup_s(it, ment=ment):
            full = re_stub("search", seen)

            def sel(it_, fn, args, kwargs, ment=ment):
                # the search for the *other* identifier is irrelevant to this clause: any outcome (opaque match object)
                if ment not in args[0]:
                    from .c19 import SymMatch
                    return SymMatch({}) if it_.ctx.branch(z3.Bool(it_.ctx.fresh_name("other_search_matches"))) else None
                return full(it_, fn, args, kwargs)
            it.ctx.contracts["re.search"] = sel
            if ment == "pkt":
                # 'mentions pkt' stated as membership in the mention language (non-word, pkt, non-word)
                from .c19 import search_lang
                it.ctx.assume(z3.InRe(CODE, search_lang(r"\Wpkt\W")[0]))
            else:
                it.ctx.assume(z3.InRe(W1, NONW))
                it.ctx.assume(z3.InRe(W2, NONW))
                it.ctx.assume(CODE == z3.Concat(A, W1, sv(ment), W2, B))
            o = Obj(SubR)
            return o
        ex = explore(loader, setup_s, lambda it, o: it.call(it.getattr_(o, "check_for_bundle_usage"), [SymStr(CODE)], {}), configure=_cfg)
        check.absorb(ex, "check_for_bundle_usage")
        if ex.paths:
            check.instances_generated += 1
        for i, p in enumerate(ex.paths):
            pi = f"body-mentions={ment} path={i}"
            pc = p.ctx.pc
            check.ob("check_for_bundle_usage#total", pi, pc, p.outcome == "return", detail="" if p.outcome == "return" else f"raises {p.value!r}")
            if p.outcome != "return":
                continue
            r = p.value
            rt = r.t if isinstance(r, SymStr) else sv(r)
            rp = ("c11.bundle", lambda mdl, ment=ment: {"code": str(mdl["CODE"]) if "CODE" in mdl else str(mdl.get("A", "")) + str(mdl.get("W1", " ")) + ment + str(mdl.get("W2", " ")) + str(mdl.get("B", ""))}) if replay_on else None
            decl = "HexPkt *pkt = bundle->pkt;\n" if ment == "pkt" else "const HexInsn *hi = bundle->insn;\n"
            check.ob(f"check_for_bundle_usage#flags: body mentions {ment} => {ment} is declared", pi, pc, z3.Contains(rt, sv(decl)), replay=rp)
            check.ob("check_for_bundle_usage#decl: body is wrapped in braces and kept whole", pi, pc, z3.And(z3.PrefixOf(sv("{\n"), rt), z3.SuffixOf(sv("\n}"), rt), z3.Contains(rt, CODE)))


def gen_record_ground(loader, check, replay_on=True):
    """ground witness classes for the companion record (deterministic, replayable)"""
    Cm = loader.load("rzilcompiler.Compiler")
    RI = Cm.globals["RZILInstruction"]
    SubR = irkit.C(loader, "SubRoutine")
    codes = {"hi only": "\nconst HexOp *Rs_op = ISA2REG(hi, 's', false);\nreturn x;", "pkt only": "\nRzILOpPure *Rs = READ_REG(pkt, Rs_op, false);\nreturn x;",
             "both": "\nconst HexOp *Rs_op = ISA2REG(hi, 's', false);\nRzILOpPure *Rs = READ_REG(pkt, Rs_op, false);\nreturn x;",
             "neither": "\nRzILOpEffect *a = SETL(\"this\", VARL(\"pktx\"));\nreturn a;", "hi as last argument": "\nRzILOpEffect *c = hex_fn(bundle, hi);\nreturn c;"}
    for lab, code in codes.items():
        mh = bool(re.search(r"[^A-Za-z0-9_]hi[^A-Za-z0-9_]", code))
        mp = bool(re.search(r"[^A-Za-z0-9_]pkt[^A-Za-z0-9_]", code))
        check.instances_declared += 1
        ex = explore(loader, lambda it: None, lambda it, st, code=code: (it.call(RI, ["A2_x", [code], [["M"]], ["t"]], {}),
                                                                         it.call(it.getattr_(Obj(SubR), "check_for_bundle_usage"), [code], {})))
        check.absorb(ex, f"record ground {lab}")
        if ex.paths:
            check.instances_generated += 1
        for p in ex.paths:
            inst = f"ground text: {lab}"
            check.ob("RZILInstruction#total", inst, p.ctx.pc, p.outcome == "return", detail="" if p.outcome == "return" else f"raises {p.value!r}")
            if p.outcome != "return":
                continue
            ri, body = p.value
            rp1 = ("c11.flags", lambda mdl, code=code: {"code": code}) if replay_on else None
            rp2 = ("c11.bundle", lambda mdl, code=code: {"code": code}) if replay_on else None
            check.ob("RZILInstruction#flags: ground mention => flag", inst, p.ctx.pc, (not mh or bool(ri.fields["needs_hi"][0])) and (not mp or bool(ri.fields["needs_pkt"][0])), replay=rp1,
                     detail=f"needs_hi={ri.fields['needs_hi'][0]!r} needs_pkt={ri.fields['needs_pkt'][0]!r}")
            okb = (not mh or "const HexInsn *hi = bundle->insn;\n" in body) and (not mp or "HexPkt *pkt = bundle->pkt;\n" in body) and body.startswith("{\n") and body.endswith("\n}") and code in body
            check.ob("check_for_bundle_usage#flags: ground mention => declaration", inst, p.ctx.pc, okb, replay=rp2, detail=repr(body[:80]))


def gen_names(loader, check, replay_on=True):
    """ground: getter names unique across the bundled instruction names; C identifiers of operands never clash (bounded)"""
    from rzilcompiler.Compiler import RZILInstruction
    path = os.path.join(loader.repo, "Resources/Hexagon/Preprocessor/shortcode_resolved.h")
    names = {}
    n = 0
    with open(path) as fh:
        for line in fh:
            if line.startswith("insn("):
                nm = line[5:line.index(",")]
                parts = 2 if "__COMPOUND_PART1__" in line else 1
                n += 1
                for k in ([-1] if parts == 1 else range(parts)):
                    g = RZILInstruction.gen_hex_il_op_getter_name(nm, k)
                    names.setdefault(g, []).append(nm)
    dup = {g: v for g, v in names.items() if len(v) > 1}
    check.ob("gen_hex_il_op_getter_name#names: unique across all bundled instructions and parts", f"{n} instructions, {len(names)} getters", [], not dup,
             detail=str(list(dup.items())[:3]))
    ok_ident = all(re.fullmatch(r"[A-Za-z_]\w*", g) for g in names)
    check.ob("gen_hex_il_op_getter_name#names: valid C identifiers", f"{len(names)} getters", [], ok_ident)
    check.instances_declared += 1
    check.instances_generated += 1
    # bounded: C identifiers of different operand spellings never coincide
    from rzilcompiler.Transformer.RZILTransformer import RZILTransformer
    from rzilcompiler.ArchEnum import ArchEnum
    idents = {}

    def add(desc, node):
        for v in {node.pure_var(), node.get_op_var(deref=False)} if hasattr(node, "get_op_var") else {node.pure_var()}:
            idents.setdefault(v, set()).add(desc)
    t = RZILTransformer(ArchEnum.HEXAGON)
    for letter in "CNPRMV":
        for acc, (sps, _, _, _) in hx.ACCESS.items():
            for sp in sps:
                for new in (False, True):
                    t.reset()
                    try:
                        add(f"{letter}{sp}{'N' if new else 'V'}", getattr(t, "new_reg" if new else "reg")([Token("REG_TYPE", letter), Token(acc, sp)]))
                    except Exception:
                        pass
    for letter in "RCPV":
        for a in ("0", "1", "3", "13", "31"):
            for b in (None, "0", "12", "30"):
                for new in (False, True):
                    t.reset()
                    txt = letter + a + (":" + b if b else "")
                    try:
                        add(txt + ("_NEW" if new else ""), t.explicit_reg([Token("X", txt), Token("_NEW", "_NEW") if new else None]))
                    except Exception:
                        pass
    for al in ("PC", "SP", "LR", "FRAMEKEY", "FP", "LC0", "GP", "SA0", "LC1", "SA1", "UPCYCLE", "PKTCOUNT", "UTIMER"):
        for new in (False, True):
            t.reset()
            add(f"alias {al}{'_NEW' if new else ''}", t.reg_alias([Token("X", al), Token("_NEW", "_NEW") if new else None]))
    for im in hx.IMM_SIGNED:
        t.reset()
        add(f"imm {im}", t.imm([Token("IMMEDIATE", im)]))
    clash = {k: sorted(v) for k, v in idents.items() if len(v) > 1}
    check.ob("operand-identifiers#names: different operand spellings never share a C identifier", f"bounded: {len(idents)} identifiers", [], not clash,
             bounded=True, detail=str(list(clash.items())[:4]))
    bad = [k for k in idents if not re.fullmatch(r"[A-Za-z_]\w*", k)]
    check.ob("operand-identifiers#names: valid C identifiers", f"bounded: {len(idents)} identifiers", [], not bad, bounded=True, detail=str(bad[:4]))
    check.bounded.append(f"operand identifier clash: {len(idents)} identifiers from the lettered registers, 5x4 explicit numbers of 4 classes, the 13 corpus aliases and 8 immediates")


# ------------------------------------------------------------------------------------------ replay
@replay.register("c11.flags")
def replay_flags(a):
    from rzilcompiler.Compiler import RZILInstruction
    code = a["code"]
    r = RZILInstruction("J2_Jump", [code], [["M"]], ["t"])
    mh = bool(re.search(r"(?<![A-Za-z0-9_])hi(?![A-Za-z0-9_])", code)) and bool(re.search(r"\Whi\W", code) or True)
    mh = bool(re.search(r"[^A-Za-z0-9_]hi[^A-Za-z0-9_]", code))
    mp = bool(re.search(r"[^A-Za-z0-9_]pkt[^A-Za-z0-9_]", code))
    bad = (mh and not r.needs_hi[0]) or (mp and not r.needs_pkt[0])
    return bad, f"code {code!r}: mentions hi={mh} needs_hi={bool(r.needs_hi[0])}; mentions pkt={mp} needs_pkt={bool(r.needs_pkt[0])}"


@replay.register("c11.bundle")
def replay_bundle(a):
    from rzilcompiler.Transformer.Hybrids.SubRoutine import SubRoutine
    code = a["code"]
    out = SubRoutine.check_for_bundle_usage(None, code)
    mh = bool(re.search(r"[^A-Za-z0-9_]hi[^A-Za-z0-9_]", code))
    mp = bool(re.search(r"[^A-Za-z0-9_]pkt[^A-Za-z0-9_]", code))
    bad = (mh and "const HexInsn *hi = bundle->insn;\n" not in out) or (mp and "HexPkt *pkt = bundle->pkt;\n" not in out)
    return bad, f"body {code!r} -> {out!r}"


# ------------------------------------------------------------------------------------------
def gen_shared(loader, check, what, replay_on=True):
    if what == "catalog":
        catalog.gen_pureexec(loader, check, replay_on)
        catalog.gen_leaf_reads(loader, check, replay_on)
        catalog.gen_misc_nodes(loader, check, replay_on)
    elif what == "loops":
        c12.gen_emit_loops(loader, check, replay_on)
    elif what == "rendering":
        c09.gen_rendering(loader, check, replay_on)
    elif what == "final":
        c05.gen_stmt_callbacks(loader, check, replay_on)
    elif what == "history":
        # "declared exactly once and before its first use" for every history of the compiler instance: nothing registered or pending
        # survives into the next text (C14's reset / entry-point contracts, holder tables only)
        from . import c14
        c14.gen_reset(loader, check, replay_on)
        c14.gen_entry_points(loader, check, replay_on)
        # folding away an arm of ?: must not leave a reference to a sequence that is no longer declared (nor drop the live arm's)
        from . import c06
        c06.gen_selected(loader, check, replay_on)


def gen_task(loader, check, what, replay_on=True):
    own = {"add_op": gen_add_op, "order": gen_order, "fbody": gen_fbody, "comments": gen_comments, "record": gen_record, "names": gen_names, "reg_decls": gen_reg_decls, "record_ground": gen_record_ground}
    if what in own:
        own[what](loader, check, replay_on)
    else:
        gen_shared(loader, check, what, replay_on)


COMMENT_STMTS = ["{ RdV = RsV + 1; }", "{ if (RsV > 1) { RdV = RtV; } else { RdV = 2; } }", "{ if (RsV > 1) { RdV = RtV; } }", "{ for (i = 0; i < 2; i++) { RdV = RdV + i; } }",
                 "{ mem_store_u32(EA, RtV); }", "{ RdV = (RsV ? RtV : 3) & ~RtV; }", "{ RdV = mem_load_s16(EA); }", "{ JUMP(RsV); }",
                 "{ RdV = sextract64(RssV, 3, 2); }", "{ RdV = RsV++; }", "{ RdV = !RsV && (RtV == 1); }", "{ RdV = sizeof(RsV) + siV; }", "{ ; }", "{ RdV += RsV; }"]


@replay.register("c11.comment_pure")
def replay_comment_pure(a):
    """the two layouts print the same initialisers; only READ_STATEMENTS prints statement comments - if printing consumed a read, the
    operand's raw use would be missing there: compile statements in both layouts and compare the initialisers"""
    from rzilcompiler.Transformer.RZILTransformer import CodeFormat
    a_, b_ = irkit.real_compiler(), irkit.real_compiler("EXEC_CLASSES")
    bad = []
    for stmt in COMMENT_STMTS + ["{ RdV = mem_load_s32(RsV); }", "{ mem_store_u32(RsV, RtV); }", "{ JUMP(RsV); }", "{ RdV = sextract64(RssV, 3, 2); }"]:
        try:
            ta, tb = a_.compile_c_stmt(stmt), b_.compile_c_stmt(stmt)
        except Exception:          # noqa: BLE001
            continue
        ia = sorted(l.strip() for l in ta.splitlines() if l.strip().startswith(("RzILOp", "const ")))
        ib = sorted(l.strip() for l in tb.splitlines() if l.strip().startswith(("RzILOp", "const ")))
        if ia != ib:
            diff = [x for x in ia if x not in ib][:2]
            bad.append(f"{stmt}: with statement comments {diff}")
    return bool(bad), "initialisers differ between the layout that prints statement comments and the one that does not: " + "; ".join(bad[:2])


@replay.register("c11.comment")
def replay_comment(a):
    """compiles statements that print every kind of node in the statement comments and looks for text that left its comment"""
    c = irkit.real_compiler()
    bad = []
    for stmt in COMMENT_STMTS:
        try:
            txt = c.compile_c_stmt(stmt)
        except Exception as e:                                     # noqa: BLE001 - a statement the compiler rejects prints nothing
            continue
        for ln in txt.splitlines():
            t = ln.strip()
            if not t or t.startswith("//") or t.startswith("return ") or re.match(r"^(const )?\w[\w ]*\*?\w+ = .*;$", t):
                continue
            bad.append((stmt, ln))
    return bool(bad), f"lines that are neither a comment, a declaration nor the return: {bad[:3]}"


@replay.register("c11.twice")
def replay_twice(a):
    c = irkit.real_compiler()
    txt = c.compile_c_stmt("{ if (RsV) { RdV = 1; } else { cancel_slot; } }")
    decl = [l.split("*")[1].split(" ")[0] for l in txt.splitlines() if l.startswith("RzILOp")]
    dup = sorted({d for d in decl if decl.count(d) > 1})
    return bool(dup), f"{{ if (RsV) {{ RdV = 1; }} else {{ cancel_slot; }} }}: variables declared more than once: {dup}"


def generate_reduced(loader, check):
    check.ob_filter = FILTER
    for w in ("add_op", "order", "fbody", "comments", "record", "record_ground", "reg_decls", "catalog", "loops", "final", "history"):
        gen_task(loader, check, w, False)


STRING_REFUTE_BOUND = 6
MUTANT_REFUTE_MS = 4000


def run(check: Check):
    check.trust("T-VCGEN: pyvc interpretation of the Python subset (mutant self-test, native replay)")
    check.trust("T-RE: regex semantics of \\Whi\\W / \\Wpkt\\W via the sre -> SMT translation; 'mentions x' := x delimited by non-word characters")
    check.trust("T-IND + T-LARK: callbacks run bottom-up, so operands are registered (numbered) before their consumers")
    check.assume("A-NAMES is the only assumption left about add_op: user identifiers do not collide with internal base names")
    check.assume("code strings passed to RZILInstruction / SubRoutine have the shape fbody guarantees (start with newline or 'return', end with ';')")
    check.ob_filter = FILTER
    tasks = [{"what": w} for w in ("add_op", "order", "fbody", "comments", "record", "record_ground", "names", "reg_decls", "catalog", "loops", "rendering", "final", "history")]
    check.run_parallel("contracts.c11", "gen_task", tasks, workers=WORKERS, sink_attrs={"ob_filter": FILTER, "z3_timeout_ms": Z3_TIMEOUT_MS,
                                                                                        "cvc5_timeout_ms": CVC5_TIMEOUT_MS, "string_refute_bound": 6})
    run_mutants(check, MUTANTS, "contracts.c11", "generate_reduced")
    return check.finish(
        level="proof",
        rule="one obligation per (emitting function / op kind / callback / string clause, path); names and counters symbolic; code strings symbolic")
