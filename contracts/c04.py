"""C04 - common-type and promotion rules are exactly the C11 table.

Functions under contract (rzilcompiler/Transformer/ValueType.py): c11_cast, promoted_type,
ValueType.__eq__ / __lt__ / __gt__ / __le__ / __ge__, the signed / bit_width property getters
and setters (inlined helpers).  Signedness is a symbolic Bool and width a symbolic Int >= 1,
so every obligation holds for *all* widths (covers 1..2048 without enumeration).
"""
from __future__ import annotations
import z3

from pyvc.interp import explore
from pyvc.loader import Loader
from pyvc.values import Obj
from pyvc.vc import Check
from pyvc import replay
from spec import c11
from .common import M_VT, sym_vt, integer_groups, zb, zi, free_consts, run_mutants

PROP = "C04"

MUTANTS = [
    {"name": "c11_cast: unsigned wins only when strictly wider (>= -> >)", "file": "rzilcompiler/Transformer/ValueType.py",
     "old": "if unsigned.bit_width >= signed.bit_width:", "new": "if unsigned.bit_width > signed.bit_width:"},
    {"name": "c11_cast: drop deepcopy of a (mutates the argument)", "file": "rzilcompiler/Transformer/ValueType.py",
     "old": "va = deepcopy(a)", "new": "va = a"},
    {"name": "c11_cast: same-sign case widens the wrong way", "file": "rzilcompiler/Transformer/ValueType.py",
     "old": "if va.bit_width < vb.bit_width:\n            va.bit_width = vb.bit_width",
     "new": "if va.bit_width > vb.bit_width:\n            va.bit_width = vb.bit_width"},
    {"name": "promoted_type: >= 32 -> > 32", "file": "rzilcompiler/Transformer/ValueType.py",
     "old": "if pure_type.bit_width >= 32:", "new": "if pure_type.bit_width > 32:"},
    {"name": "promoted_type: promotes to unsigned int", "file": "rzilcompiler/Transformer/ValueType.py",
     "old": "    return ValueType(True, 32)\n\n\ndef get_value_type_from_reg_type",
     "new": "    return ValueType(False, 32)\n\n\ndef get_value_type_from_reg_type"},
    {"name": "ValueType.__eq__: ignores signedness", "file": "rzilcompiler/Transformer/ValueType.py",
     "old": "basics_match = self.bit_width == other.bit_width and self.signed == other.signed",
     "new": "basics_match = self.bit_width == other.bit_width"},
    {"name": "c11_cast: result order swapped for unsigned a", "file": "rzilcompiler/Transformer/ValueType.py",
     "old": "return (signed, unsigned) if a_is_signed else (unsigned, signed)",
     "new": "return (signed, unsigned)"},
]


def _vt_fields(o):
    return zb(o.fields["_signed"]), zi(o.fields["_bit_width"])


def generate(loader: Loader, check: Check, replay_on=True, only_pure=False):
    m = loader.load(M_VT)
    f_cast = m.globals["c11_cast"]
    f_prom = m.globals["promoted_type"]
    VT = m.globals["ValueType"]
    check.under_contract(loader, f_cast, f_prom, VT.methods["__eq__"], VT.methods["__lt__"], VT.methods["__gt__"],
                         VT.methods["__le__"], VT.methods["__ge__"], VT.methods["signed"].getter,
                         VT.methods["signed"].setter, VT.methods["bit_width"].getter, VT.methods["bit_width"].setter)
    groups = integer_groups(loader)[:2] if only_pure else integer_groups(loader)
    inputs = {"a_s", "a_w", "b_s", "b_w"}

    def rp(kind, ga, gb):
        if not replay_on:
            return None
        return (kind, lambda mdl: {"sa": bool(mdl.get("a_s", False)), "wa": int(mdl.get("a_w", 1)),
                                   "sb": bool(mdl.get("b_s", False)), "wb": int(mdl.get("b_w", 1)),
                                   "ga": ga, "gb": gb})

    # ---------------------------------------------------------------- c11_cast
    for ga_name, ga in groups:
        for gb_name, gb in groups:
            inst = f"group(a)={ga_name} group(b)={gb_name}"
            check.instances_declared += 1

            def setup(it, ga=ga, gb=gb):
                a = sym_vt(it, loader, "a", ga)
                b = sym_vt(it, loader, "b", gb)
                it.ctx.mark_pre(a, b)
                return a, b

            def run(it, st):
                return it.call(f_cast, [st[0], st[1]], {})

            ex = explore(loader, setup, run, target=f_cast.qualname)
            check.absorb(ex, f"c11_cast {inst}")
            if ex.paths:
                check.instances_generated += 1
            sa, wa, sb, wb = z3.Bool("a_s"), z3.Int("a_w"), z3.Bool("b_s"), z3.Int("b_w")
            es, ew = c11.uac(sa, wa, sb, wb)
            cover = []
            for i, p in enumerate(ex.paths):
                pc = p.ctx.pc
                pi = f"{inst} path={i}"
                r = rp("c04.c11_cast", ga_name, gb_name)
                # totality
                check.ob("c11_cast#total", pi, pc, p.outcome == "return", replay=r,
                         detail="" if p.outcome == "return" else f"raises {p.value!r}")
                if p.outcome != "return":
                    continue
                res = p.value
                shape_ok = isinstance(res, tuple) and len(res) == 2 and all(
                    isinstance(x, Obj) and x.cls is VT for x in res)
                check.ob("c11_cast#result-shape", pi, pc, shape_ok, replay=r)
                if not shape_ok:
                    continue
                ra, rb = res
                (ras, raw), (rbs, rbw) = _vt_fields(ra), _vt_fields(rb)
                check.ob("c11_cast#ensures.signed", pi, pc, z3.And(ras == es, rbs == es), replay=r)
                check.ob("c11_cast#ensures.width", pi, pc, z3.And(raw == ew, rbw == ew), replay=r)
                # groups of the inputs are carried over (callers look at BOOL/HYBRID_LVAR flags)
                check.ob("c11_cast#ensures.group", pi, pc,
                         ra.fields["group"] == ga and rb.fields["group"] == gb, replay=None)
                # frame: no pre-existing object is written
                a, b = p.state
                pw = p.ctx.pre_writes()
                check.ob("c11_cast#modifies", pi, pc, len(pw) == 0, replay=r,
                         detail="; ".join(f"write to {o!r}.{f}" for o, f, _, _ in pw))
                unchanged = z3.And(zb(a.fields["_signed"]) == sa, zi(a.fields["_bit_width"]) == wa,
                                   zb(b.fields["_signed"]) == sb, zi(b.fields["_bit_width"]) == wb)
                check.ob("c11_cast#arguments-unchanged", pi, pc, unchanged, replay=r)
                # results are the arguments themselves or fresh objects (no aliasing of a as b's result)
                fresh_ok = (ra is a or not ra.pre) and (rb is b or not rb.pre) and (ra is not rb)
                check.ob("c11_cast#fresh-or-identical", pi, pc, fresh_ok)
                # reads / determinism: the result is a term over the four input fields only
                fv = set()
                for t in (ras, raw, rbs, rbw):
                    fv |= free_consts(t)
                check.ob("c11_cast#reads", pi, pc, fv <= inputs, detail=f"free symbols {sorted(fv - inputs)}")
                cover.append(z3.And(*pc) if pc else z3.BoolVal(True))
            # path conditions cover the whole precondition (no input is lost by the exploration)
            if cover:
                check.ob("c11_cast#paths-cover-precondition", inst, [wa >= 1, wb >= 1], z3.Or(*cover))

    # symmetry: solver-only lemma over the ensures clause (the code equals uac for both orders)
    sa, wa, sb, wb = z3.Bool("a_s"), z3.Int("a_w"), z3.Bool("b_s"), z3.Int("b_w")
    s1, w1 = c11.uac(sa, wa, sb, wb)
    s2, w2 = c11.uac(sb, wb, sa, wa)
    check.ob("c11_cast#lemma.symmetry", "all widths", [wa >= 1, wb >= 1], z3.And(s1 == s2, w1 == w2))
    # the three clauses of the property statement, as lemmas over the spec function
    check.ob("c11_cast#lemma.wider-wins", "all widths", [wa >= 1, wb >= 1, wa > wb, z3.Or(sa == sb, sa)],
             z3.And(s1 == sa, w1 == wa))
    check.ob("c11_cast#lemma.equal-width-unsigned-wins", "all widths", [wa >= 1, wa == wb, sa != sb],
             z3.And(z3.Not(s1), w1 == wa))
    check.ob("c11_cast#lemma.wider-signed-absorbs", "all widths", [wb >= 1, wa > wb, sa, z3.Not(sb)],
             z3.And(s1, w1 == wa))
    check.ob("c11_cast#lemma.wider-unsigned-wins", "all widths", [wb >= 1, wa > wb, z3.Not(sa), sb],
             z3.And(z3.Not(s1), w1 == wa))

    # ---------------------------------------------------------------- promoted_type
    for g_name, g in groups:
        inst = f"group={g_name}"
        check.instances_declared += 1

        def setup(it, g=g):
            a = sym_vt(it, loader, "a", g)
            it.ctx.mark_pre(a)
            return (a,)

        def run(it, st):
            return it.call(f_prom, [st[0]], {})
        ex = explore(loader, setup, run, target=f_prom.qualname)
        check.absorb(ex, f"promoted_type {inst}")
        if ex.paths:
            check.instances_generated += 1
        sa, wa = z3.Bool("a_s"), z3.Int("a_w")
        es, ew = c11.promote(sa, wa)
        cover = []
        for i, p in enumerate(ex.paths):
            pc = p.ctx.pc
            pi = f"{inst} path={i}"
            r = None if not replay_on else ("c04.promoted_type", lambda mdl, g_name=g_name: {
                "sa": bool(mdl.get("a_s", False)), "wa": int(mdl.get("a_w", 1)), "ga": g_name})
            check.ob("promoted_type#total", pi, pc, p.outcome == "return", replay=r)
            if p.outcome != "return":
                continue
            res = p.value
            ok = isinstance(res, Obj) and res.cls is VT
            check.ob("promoted_type#result-shape", pi, pc, ok, replay=r)
            if not ok:
                continue
            rs, rw = _vt_fields(res)
            check.ob("promoted_type#ensures", pi, pc, z3.And(rs == es, rw == ew), replay=r)
            check.ob("promoted_type#integer-result", pi, pc,
                     not (res.fields["group"] & (vtg(loader).EXTERNAL | vtg(loader).VOID | vtg(loader).FLOAT)))
            check.ob("promoted_type#modifies", pi, pc, len(p.ctx.pre_writes()) == 0, replay=r)
            cover.append(z3.And(*pc) if pc else z3.BoolVal(True))
        if cover:
            check.ob("promoted_type#paths-cover-precondition", inst, [wa >= 1], z3.Or(*cover))

    # ---------------------------------------------------------------- comparison dunders
    for meth, spec in (("__eq__", lambda sa, wa, sb, wb: z3.And(sa == sb, wa == wb)),
                       ("__lt__", lambda sa, wa, sb, wb: wa < wb), ("__gt__", lambda sa, wa, sb, wb: wa > wb),
                       ("__le__", lambda sa, wa, sb, wb: wa <= wb), ("__ge__", lambda sa, wa, sb, wb: wa >= wb)):
        fn = VT.methods[meth]
        check.instances_declared += 1

        def setup(it):
            a = sym_vt(it, loader, "a")
            b = sym_vt(it, loader, "b")
            it.ctx.mark_pre(a, b)
            return a, b

        def run(it, st, fn=fn):
            return it.call(fn, [st[0], st[1]], {})
        ex = explore(loader, setup, run, target=fn.qualname)
        check.absorb(ex, f"ValueType.{meth}")
        if ex.paths:
            check.instances_generated += 1
        sa, wa, sb, wb = z3.Bool("a_s"), z3.Int("a_w"), z3.Bool("b_s"), z3.Int("b_w")
        for i, p in enumerate(ex.paths):
            pc = p.ctx.pc
            pi = f"path={i}"
            check.ob(f"ValueType.{meth}#total", pi, pc, p.outcome == "return")
            if p.outcome != "return":
                continue
            from pyvc.values import SBool
            v = p.value
            t = v.t if isinstance(v, SBool) else (z3.BoolVal(v) if isinstance(v, bool) else None)
            check.ob(f"ValueType.{meth}#result-is-bool", pi, pc, t is not None)
            if t is None:
                continue
            check.ob(f"ValueType.{meth}#ensures", pi, pc, t == spec(sa, wa, sb, wb))
            check.ob(f"ValueType.{meth}#modifies", pi, pc, len(p.ctx.pre_writes()) == 0)


HIST_PAIRS = [((True, 32), (False, 32)), ((True, 32), (False, 8)), ((True, 32), (False, 16)), ((False, 8), (True, 32)), ((True, 64), (False, 32)),
              ((False, 64), (True, 8)), ((True, 16), (True, 8)), ((False, 16), (False, 32))]


def gen_history(loader, check, replay_on=True):
    """the type rules are FUNCTIONS of their arguments: the result for a pair does not depend on which pairs were converted before
    (no memo / hidden state).  Ground two-call instances through the real code: every ordered pair of the representative list."""
    from spec import ir as _ir
    from .common import conc_vt, tname
    f = loader.get(f"{M_VT}.c11_cast")
    fp = loader.get(f"{M_VT}.promoted_type")
    for first in HIST_PAIRS:
        for second in HIST_PAIRS:
            inst = f"c11_cast({tname(first[0])}, {tname(first[1])}) then c11_cast({tname(second[0])}, {tname(second[1])})"
            check.instances_declared += 1

            def setup(it, first=first, second=second):
                return {"x": [conc_vt(loader, t) for t in first], "y": [conc_vt(loader, t) for t in second]}

            def run(it, st):
                it.call(f, list(st["x"]), {})
                it.call(fp, [st["x"][0]], {})
                return it.call(f, list(st["y"]), {})
            ex = explore(loader, setup, run)
            check.absorb(ex, f"history {inst}")
            if ex.paths:
                check.instances_generated += 1
            for p in ex.paths:
                ok = p.outcome == "return"
                if ok:
                    ra, rb = _ir.vt_of(p.value[0]), _ir.vt_of(p.value[1])
                    want = c11.uac(second[0][0], second[0][1], second[1][0], second[1][1])
                    ok = ra == tuple(want) and rb == tuple(want)
                check.ob("c11_cast#function-of-its-arguments (no dependence on earlier calls)", inst, p.ctx.pc, bool(ok),
                         detail=f"{p.outcome} {p.value!r}", replay=("c04.history", lambda mdl, first=first, second=second: {"first": [list(t) for t in first], "second": [list(t) for t in second]}) if replay_on else None)


@replay.register("c04.history")
def replay_history(a):
    from rzilcompiler.Transformer.ValueType import ValueType, c11_cast
    (fa, fb), (sa, sb) = a["first"], a["second"]
    c11_cast(ValueType(*fa), ValueType(*fb))
    ra, rb = c11_cast(ValueType(*sa), ValueType(*sb))
    want = tuple(c11.uac(sa[0], sa[1], sb[0], sb[1]))
    got = ((ra.signed, ra.bit_width), (rb.signed, rb.bit_width))
    return got != (want, want), f"after c11_cast({fa}, {fb}): c11_cast({sa}, {sb}) = {got}, C11 common type {want}"


def generate_mutant(loader, sink):
    generate(loader, sink, replay_on=False, only_pure=True)
    gen_history(loader, sink, False)


def vtg(loader):
    return loader.load(M_VT).globals["VTGroup"]


# -------------------------------------------------------------------- native replay
def _real_group(name):
    from rzilcompiler.Transformer.ValueType import VTGroup
    g = VTGroup(0)
    for part in name.split("|"):
        g |= VTGroup[part]
    return g


@replay.register("c04.c11_cast")
def replay_c11_cast(a):
    from rzilcompiler.Transformer.ValueType import ValueType, c11_cast
    va = ValueType(a["sa"], a["wa"], _real_group(a["ga"]))
    vb = ValueType(a["sb"], a["wb"], _real_group(a["gb"]))
    es, ew = c11.uac(a["sa"], a["wa"], a["sb"], a["wb"])
    try:
        ra, rb = c11_cast(va, vb)
    except Exception as e:
        return True, f"c11_cast({va},{vb}) raised {type(e).__name__}: {e}"
    txt = (f"c11_cast({'s' if a['sa'] else 'u'}{a['wa']}, {'s' if a['sb'] else 'u'}{a['wb']}) -> ({ra}, {rb}); "
           f"C11 expects {'st' if es else 'ut'}{ew}; args after call: ({va}, {vb})")
    bad = (ra.signed, ra.bit_width) != (es, ew) or (rb.signed, rb.bit_width) != (es, ew)
    bad |= (va._signed, va._bit_width) != (a["sa"], a["wa"]) or (vb._signed, vb._bit_width) != (a["sb"], a["wb"])
    return bool(bad), txt


@replay.register("c04.promoted_type")
def replay_promoted(a):
    from rzilcompiler.Transformer.ValueType import ValueType, promoted_type
    va = ValueType(a["sa"], a["wa"], _real_group(a["ga"]))
    es, ew = c11.promote(a["sa"], a["wa"])
    try:
        r = promoted_type(va)
    except Exception as e:
        return True, f"promoted_type({va}) raised {type(e).__name__}: {e}"
    bad = (r.signed, r.bit_width) != (es, ew) or (va._signed, va._bit_width) != (a["sa"], a["wa"])
    return bool(bad), f"promoted_type({va}) -> {r}; C11 expects {'st' if es else 'ut'}{ew}"


# -------------------------------------------------------------------- CPython audit
def audit(loader, check: Check):
    """Per-path cross-check of the engine: pick a model of every path condition, run the real
    function natively, compare with the symbolic result evaluated under the model."""
    from rzilcompiler.Transformer.ValueType import ValueType, c11_cast, promoted_type
    m = loader.load(M_VT)
    f_cast = m.globals["c11_cast"]

    def setup(it):
        a = sym_vt(it, loader, "a")
        b = sym_vt(it, loader, "b")
        return a, b
    ex = explore(loader, setup, lambda it, st: it.call(f_cast, [st[0], st[1]], {}), target=f_cast.qualname)
    for p in ex.paths:
        s = z3.Solver()
        s.add(*p.ctx.pc)
        if s.check() != z3.sat:
            continue
        mdl = s.model()

        def ev(t):
            return mdl.eval(t, model_completion=True)
        sa, wa = z3.is_true(ev(z3.Bool("a_s"))), ev(z3.Int("a_w")).as_long()
        sb, wb = z3.is_true(ev(z3.Bool("b_s"))), ev(z3.Int("b_w")).as_long()
        ra, rb = c11_cast(ValueType(sa, wa), ValueType(sb, wb))
        check.audits += 1
        if p.outcome != "return":
            check.audit_mismatch.append(f"c11_cast({sa},{wa},{sb},{wb}): engine raises, CPython returns")
            continue
        for real, sym in ((ra, p.value[0]), (rb, p.value[1])):
            es = z3.is_true(ev(zb(sym.fields["_signed"])))
            ew = ev(zi(sym.fields["_bit_width"])).as_long()
            if (real.signed, real.bit_width) != (es, ew):
                check.audit_mismatch.append(
                    f"c11_cast({sa},{wa},{sb},{wb}): CPython ({real.signed},{real.bit_width}) engine ({es},{ew})")
    if check.audit_mismatch:
        check.faults.append(f"engine/CPython mismatch: {check.audit_mismatch[:3]}")


def run(check: Check):
    loader = Loader()
    check.trust("T-VCGEN: pyvc interpretation of the Python subset (mitigated by per-path CPython audit and mutant self-test)")
    check.trust("T-C11: spec/c11.py transcription of ISO C11 6.3.1.1 / 6.3.1.8 with rank := width")
    check.trust("T-STD: copy.deepcopy yields a fresh object graph; enum.Flag algebra as in CPython 3.12 (hosted)")
    check.assume("Python integers are mathematical integers: the z3 Int encoding of widths is exact")
    check.assume("domain: integer ValueTypes (group without EXTERNAL/VOID/FLOAT), width >= 1, signedness any; "
                 "float groups are outside the property")
    generate(loader, check)
    gen_history(loader, check)
    audit(loader, check)
    run_mutants(check, MUTANTS, "contracts.c04", "generate_mutant")
    return check.finish(
        level="proof",
        rule="one obligation per (function, group instance, feasible path, clause); widths symbolic Int>=1, "
             "signedness symbolic Bool; distinct = distinct (obligation, instance) keys with a solver query")
