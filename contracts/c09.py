"""C09 - compile-time evaluation agrees with run-time evaluation.

Functions under contract: number, get_value_type_by_c_number, get_num_base_by_token,
simplify_unary_expr, simplify_arithmetic_expr, simplify_compare_expr, simplify_conditional_expr,
the folding branch of unary_expr / additive_expr / multiplicative_expr / compare_op /
conditional_expr, c_call(sizeof) + Sizeof.__init__, LetVar.get_rzil_val / il_read / il_init_var,
ValueType.il_op, ILOpsHolder.rm_op_by_name.
Literal values are symbolic mathematical integers (z3 Int): every clause holds for all magnitudes.
A folded node must satisfy the same postcondition as the unfolded operator (C02): C11 result type
and C11 value; literals are typed by C11 6.4.4.1.
"""
from __future__ import annotations
import re
import os
import z3
from lark import Token

from pyvc.interp import explore, NativeAbs
from pyvc.loader import Loader
from pyvc.values import Obj, SInt, SBool, Tpl, Atom
from pyvc.vc import Check
from pyvc import replay
from spec import c11, rzil, ir
from . import irkit, tkit
from .common import WORKERS, tname, conc_vt, run_mutants
from .c03 import callback_paths

PROP = "C09"
LIT_TYPES = [(True, 32), (False, 32), (True, 64), (False, 64)]

MUTANTS = [
    {"name": "simplify_unary_expr: - folds as ~", "file": "rzilcompiler/Transformer/RZILTransformer.py",
     "old": "                result = -val_a\n", "new": "                result = ~val_a\n"},
    {"name": "simplify_arithmetic_expr: - folds as +", "file": "rzilcompiler/Transformer/RZILTransformer.py",
     "old": "                result = val_a - val_b\n", "new": "                result = val_a + val_b\n"},
    {"name": "simplify_arithmetic_expr: result typed like the right operand only", "file": "rzilcompiler/Transformer/RZILTransformer.py",
     "old": "        return Number(name, result, a_type)\n\n    def simplify_compare_expr", "new": "        return Number(name, result, b.value_type)\n\n    def simplify_compare_expr"},
    {"name": "simplify_compare_expr: <= folds as <", "file": "rzilcompiler/Transformer/RZILTransformer.py",
     "old": "                res = val_a <= val_b\n", "new": "                res = val_a < val_b\n"},
    {"name": "simplify_compare_expr: != folds as ==", "file": "rzilcompiler/Transformer/RZILTransformer.py",
     "old": "                res = val_a != val_b\n", "new": "                res = val_a == val_b\n"},
    {"name": "simplify_conditional_expr: arms swapped", "file": "rzilcompiler/Transformer/RZILTransformer.py",
     "old": "        if cond.get_val():\n            self.il_ops_holder.rm_op_by_name(items[2].get_name())\n            return items[1]",
     "new": "        if not cond.get_val():\n            self.il_ops_holder.rm_op_by_name(items[2].get_name())\n            return items[1]"},
    {"name": "LetVar.get_rzil_val: renders abs(value)", "file": "rzilcompiler/Transformer/Pures/LetVar.py",
     "old": "        number = hex(self.get_val()) if self.get_val() > 31 else str(self.get_val())",
     "new": "        number = hex(self.get_val()) if self.get_val() > 31 else str(abs(self.get_val()))"},
    {"name": "LetVar.get_rzil_val: SN/UN swapped with width of the other family", "file": "rzilcompiler/Transformer/Pures/LetVar.py",
     "old": "return f\"{'SN' if self.value_type.signed else 'UN'}({self.value_type.bit_width}, {number})\"",
     "new": "return f\"{'SN' if self.value_type.signed else 'UN'}({32}, {number})\""},
    {"name": "ValueType.il_op: value rendered off by one", "file": "rzilcompiler/Transformer/ValueType.py",
     "old": 's += f"({self.bit_width}, {value:#x})"', "new": 's += f"({self.bit_width}, {value + 1:#x})"'},
    {"name": "get_value_type_by_c_number: U suffix typed signed", "file": "rzilcompiler/Transformer/ValueType.py",
     "old": '    c_unsigned_types_postfix = ["ULL", "U"]', "new": '    c_unsigned_types_postfix = ["ULL"]\n    c_signed_types_postfix = ["LL", "U"]'},
    {"name": "get_value_type_by_c_number: LL typed 32 bit", "file": "rzilcompiler/Transformer/ValueType.py",
     "old": '    c_64bit_postfix = ["LL", "ULL"]', "new": '    c_64bit_postfix = ["ULL"]'},
    {"name": "number: hex literals read as decimal", "file": "rzilcompiler/Transformer/helper_hexagon.py",
     "old": '    if token.type == "HEX_NUMBER":\n        return 16', "new": '    if token.type == "HEX_NUMBER":\n        return 10'},
    {"name": "Sizeof: size in bits", "file": "rzilcompiler/Transformer/Pures/Sizeof.py",
     "old": "self.size = ceil(op.value_type.bit_width / 8)", "new": "self.size = ceil(op.value_type.bit_width / 1)"},
    {"name": "rm_op_by_name: also drops the write table entry of every effect", "file": "rzilcompiler/Transformer/ILOpsHolder.py",
     "old": "        if name in self.exec_ops:\n            self.exec_ops.pop(name)", "new": "        if name in self.exec_ops:\n            self.exec_ops.pop(name)\n        self.write_ops.clear()"},
]


class SymToken(NativeAbs):
    """A number token whose digits denote the symbolic integer V (>= 0) in the given base."""
    pytype = str

    def __init__(self, ttype, V):
        self.ttype = ttype
        self.t = V

    def getattr(self, it, name):
        if name == "type":
            return self.ttype
        if name == "value":
            return self
        raise AttributeError(name)

    def as_int(self, it, base=10):
        want = 16 if self.ttype == "HEX_NUMBER" else 10
        if base != want:
            # the digits were written in `want`; reading them in another base gives a different number
            return SInt(z3.Int(f"misread_base{base}"))
        return SInt(self.t)

    def to_str(self, it):
        return self


def in_range(v, t):
    s, w = t
    return z3.And(v >= -(2 ** (w - 1)), v < 2 ** (w - 1)) if s else z3.And(v >= 0, v < 2 ** w)


def wrap(v, t):
    """value of the w-bit pattern of integer v, read in type t"""
    s, w = t
    m = v % (2 ** w)
    return z3.If(m >= 2 ** (w - 1), m - 2 ** w, m) if s else m


def c_int_binop(op, va, ta, vb, tb):
    """C11 value (mathematical integer) of `a op b` for in-range operand values va: ta, vb: tb."""
    if op in ("+", "-", "*", "/"):
        rt = c11.binop_type(op, ta, tb)
        x, y = wrap(va, rt), wrap(vb, rt)   # promotion preserves the value, conversion to rt wraps
        if op == "/":
            # the quotient truncates towards zero (6.5.5p6); z3's integer division is only used on non-negative operands
            ax, ay = z3.If(x >= 0, x, -x), z3.If(y >= 0, y, -y)
            q = ax / z3.If(ay == 0, z3.IntVal(1), ay)
            r = z3.If((x < 0) == (y < 0), q, -q)
        else:
            r = {"+": x + y, "-": x - y, "*": x * y}[op]
        return wrap(r, rt), rt
    ct = c11.compare_type(ta, tb)
    x, y = wrap(va, ct), wrap(vb, ct)
    r = {"<": x < y, ">": x > y, "<=": x <= y, ">=": x >= y, "==": x == y, "!=": x != y}[op]
    return r, (True, 32)


def lit_value(o):
    v = o.fields["value"]
    if isinstance(v, SInt):
        return v.t
    if isinstance(v, SBool):
        return z3.If(v.t, z3.IntVal(1), z3.IntVal(0))
    if isinstance(v, bool):
        return z3.IntVal(1 if v else 0)
    if isinstance(v, int):
        return z3.IntVal(v)
    return None


def mk_num(it, loader, name, t, label, register_in=None):
    v = z3.Int(label)
    n = it.call(irkit.C(loader, "Number"), [name, SInt(v), conc_vt(loader, t)], {})
    n.fields["inlined"] = True
    it.ctx.assume(in_range(v, t))      # WF(Number): the literal's value is representable in its type
    if register_in is not None:
        register_in.fields["il_ops_holder"].fields["read_ops"][name] = n
    return n


# ------------------------------------------------------------------------------------------
def gen_literals(loader, check, replay_on=True):
    T = loader.load(tkit.M_T).globals["RZILTransformer"]
    VTm = loader.load("rzilcompiler.Transformer.ValueType")
    check.under_contract(loader, T.methods["number"], VTm.globals["get_value_type_by_c_number"],
                         loader.load("rzilcompiler.Transformer.helper_hexagon").globals["get_num_base_by_token"],
                         irkit.C(loader, "Number").methods["__init__"], irkit.C(loader, "LetVar").methods["__init__"])
    V = z3.Int("V")
    for ttype, is_hex in (("DEC_NUMBER", False), ("HEX_NUMBER", True)):
        for sfx in (None, "U", "u", "LL", "ll", "ULL", "ull"):
            inst = f"{'hex' if is_hex else 'dec'} suffix={sfx or 'none'}"
            check.instances_declared += 1

            def setup(it, ttype=ttype):
                it.ctx.assume(V >= 0)
                t = tkit.mk_transformer(it)
                it.ctx.mark_pre(t)
                return {"t": t, "tok": SymToken(ttype, V)}

            def run(it, st, sfx=sfx):
                return it.call(tkit.method(it, st["t"], "number"), [[st["tok"], Token("INT_POST_TYPE", sfx) if sfx else None]], {})
            ex = explore(loader, setup, run)
            check.absorb(ex, f"number {inst}")
            if ex.paths:
                check.instances_generated += 1
            es, ew, fits = c11.literal_type(V, is_hex, sfx or "")
            for i, p in enumerate(ex.paths):
                pi = f"{inst} path={i}"
                pc = list(p.ctx.pc)
                rp = ("c09.literal", lambda mdl, is_hex=is_hex, sfx=sfx: {"value": int(mdl.get("V", 0)), "hex": is_hex, "suffix": sfx or ""}) if replay_on else None
                check.ob("number#total", pi, pc + [fits], p.outcome == "return", replay=rp,
                         detail="" if p.outcome == "return" else f"raises {p.value!r}")
                if p.outcome != "return":
                    continue
                n = p.value
                ok = isinstance(n, Obj) and n.cls is irkit.C(loader, "Number")
                check.ob("number#returns-Number", pi, pc, ok)
                if not ok:
                    continue
                vt = n.fields["value_type"]
                s_, w_ = vt.fields["_signed"], vt.fields["_bit_width"]
                zs = s_.t if isinstance(s_, SBool) else z3.BoolVal(bool(s_))
                zw = w_.t if isinstance(w_, SInt) else z3.IntVal(int(w_))
                tag = f"{pi} class={'fits-int' if False else ''}"
                # split by magnitude class of the literal (classes of the *input*), so that findings stay specific
                classes = [("le-INT_MAX", V <= c11.INT_MAX), ("le-UINT_MAX", z3.And(V > c11.INT_MAX, V <= c11.UINT_MAX)),
                           ("le-LLONG_MAX", z3.And(V > c11.UINT_MAX, V <= c11.LLONG_MAX)),
                           ("le-ULLONG_MAX", z3.And(V > c11.LLONG_MAX, V <= c11.ULLONG_MAX))]
                for cname, cond in classes:
                    check.ob("number#type-is-C11-literal-type", f"{pi} magnitude={cname}", pc + [fits, cond], z3.And(zs == es, zw == ew),
                             replay=rp, detail=f"literal typed ({s_}, {w_})")
                lv = lit_value(n)
                check.ob("number#value", pi, pc, lv is not None and lv == V, replay=rp)


def gen_rendering(loader, check, replay_on=True):
    """eval_RzIL(rendered literal) == value mod 2^w for every integer value and type."""
    LV = irkit.C(loader, "LetVar")
    VT = loader.load("rzilcompiler.Transformer.ValueType").globals["ValueType"]
    check.under_contract(loader, LV.methods["get_rzil_val"], LV.methods["il_read"], LV.methods["il_init_var"], VT.methods["il_op"])
    V = z3.Int("V")
    for t in c11.T8 + [(False, 1), (True, 128)]:
        for meth in ("get_rzil_val", "il_read", "il_init_var"):
            inst = f"type={tname(t)} method={meth}"
            check.instances_declared += 1

            def setup(it, t=t, meth=meth):
                n = it.call(irkit.C(loader, "Number"), ["const_1", SInt(V), conc_vt(loader, t)], {})
                n.fields["inlined"] = meth != "il_init_var"
                # C constants are 64 bit: |V| < 2^64 is the domain in which a rendering must exist
                it.ctx.assume(z3.And(V > -(2 ** 63), V < 2 ** 64))
                return n
            ex = explore(loader, setup, lambda it, n, meth=meth: it.call(it.getattr_(n, meth), [], {}))
            check.absorb(ex, f"LetVar.{meth} {inst}")
            if ex.paths:
                check.instances_generated += 1
            for i, p in enumerate(ex.paths):
                pi = f"{inst} path={i}"
                pc = p.ctx.pc
                rp = ("c09.render", lambda mdl, t=t, meth=meth: {"value": int(mdl.get("V", 0)), "type": list(t), "method": meth}) if replay_on else None
                check.ob(f"LetVar.{meth}#total", pi, pc, p.outcome == "return", replay=rp,
                         detail="" if p.outcome == "return" else f"raises {p.value!r}")
                if p.outcome != "return":
                    continue
                txt = p.value
                parts = txt.parts if isinstance(txt, Tpl) else [txt]
                if meth == "il_init_var":
                    # "RzILOpPure *<name> = <expr>;"
                    flat = Tpl(parts)
                    head = flat.parts[0] if isinstance(flat.parts[0], str) else ""
                    okshape = head.startswith("RzILOpPure *const_1 = ") and isinstance(flat.parts[-1], str) and flat.parts[-1].endswith(";")
                    check.ob("LetVar.il_init_var#declaration-shape", pi, pc, okshape, detail=flat.render())
                    if not okshape:
                        continue
                    parts = [head[len("RzILOpPure *const_1 = "):]] + flat.parts[1:-1] + [flat.parts[-1][:-1]]
                try:
                    val = rzil.Evaluator().ev(rzil.parse_expr(parts))
                    err = None
                except (rzil.ParseError, rzil.SortError) as e:
                    val, err = None, str(e)
                check.ob(f"LetVar.{meth}#well-sorted", pi, pc, err is None and val.sort == ("bv", t[1]), replay=rp,
                         detail=err or f"sort {val.sort}")
                if err is None and val.v is not None and val.sort == ("bv", t[1]):
                    check.ob(f"LetVar.{meth}#value", pi, pc, val.v == z3.Int2BV(V, t[1]), replay=rp, detail=Tpl(parts).render())


def gen_folding(loader, check, replay_on=True):
    T = loader.load(tkit.M_T).globals["RZILTransformer"]
    for fn in ("simplify_unary_expr", "simplify_arithmetic_expr", "simplify_compare_expr", "simplify_conditional_expr",
               "unary_expr", "additive_expr", "multiplicative_expr", "compare_op", "relational_expr", "equality_expr", "conditional_expr"):
        check.under_contract(loader, T.methods[fn])
    H = loader.load(tkit.M_H).globals["ILOpsHolder"]
    check.under_contract(loader, H.methods["rm_op_by_name"])
    Va, Vb = z3.Int("Va"), z3.Int("Vb")

    def R(kind, **kw):
        if not replay_on:
            return None
        return (kind, lambda mdl: dict(kw, va=int(mdl.get("Va", 0)), vb=int(mdl.get("Vb", 0))))

    def result_checks(name, pi, p, res, exp_val, exp_type, rp, is_bool=False):
        pc = p.ctx.pc
        if is_bool:
            ok = isinstance(res, Obj) and res.cls is irkit.C(loader, "Bool")
            check.ob(f"{name}#returns-Bool", pi, pc, ok, replay=rp)
            if ok:
                v = res.fields["value"]
                vt = v.t if isinstance(v, SBool) else z3.BoolVal(bool(v))
                check.ob(f"{name}#value", pi, pc, vt == exp_val, replay=rp)
            return
        ok = isinstance(res, Obj) and res.cls.is_subclass_of(irkit.C(loader, "LetVar"))
        check.ob(f"{name}#returns-literal", pi, pc, ok, replay=rp)
        if not ok:
            return
        rt = ir.vt(res)
        check.ob(f"{name}#type", pi, pc, rt == tuple(exp_type), replay=rp, detail=f"folded literal typed {tname(rt)}, C11 type {tname(exp_type)}")
        lv = lit_value(res)
        if lv is None:
            check.ob(f"{name}#value-is-integer", pi, pc, False, replay=rp, detail=f"value {res.fields['value']!r}")
            return
        if rt[1] == exp_type[1]:
            # same bit pattern as the C result (what SN/UN(w, v) denotes)
            check.ob(f"{name}#value", pi, pc, (lv - exp_val) % (2 ** rt[1]) == 0, replay=rp)
        # the folded literal must itself be representable in its type: later folds compare/compute with the raw integer
        check.ob(f"{name}#value-in-range-of-type", pi, pc, in_range(lv, rt), replay=rp)

    # ---- binary arithmetic ------------------------------------------------------------------------------
    for ta in LIT_TYPES:
        for tb in LIT_TYPES:
            for op, tok, cb in (("+", "ADD_OP", "additive_expr"), ("-", "SUB_OP", "additive_expr"), ("*", "MUL_OP", "multiplicative_expr"),
                                ("/", "DIV_OP", "multiplicative_expr")):
                inst = f"a={tname(ta)} b={tname(tb)}"
                name = f"{cb}({op})[fold]"

                def setup(it, ta=ta, tb=tb):
                    t = tkit.mk_transformer(it)
                    a = mk_num(it, loader, "const_a", ta, "Va", t)
                    b = mk_num(it, loader, "const_b", tb, "Vb", t)
                    it.ctx.mark_pre(t, a, b)
                    return {"t": t, "a": a, "b": b}

                def run(it, st, op=op, tok=tok, cb=cb):
                    return it.call(tkit.method(it, st["t"], cb), [[st["a"], Token(tok, op), st["b"]]], {})
                for p, pi in callback_paths(check, loader, name, inst, setup, run):
                    rp = R("c09.fold", cb=cb, op=op, tok=tok, ta=list(ta), tb=list(tb))
                    ev, et = c_int_binop(op, Va, ta, Vb, tb)
                    # C-side precondition: no signed overflow (undefined behaviour)
                    pre = []
                    if op == "/":
                        # C-side precondition: the divisor (converted to the common type) is not zero and the quotient is representable
                        xa, xb = wrap(Va, et), wrap(Vb, et)
                        pre = [xb != 0] + ([z3.Not(z3.And(xa == -(2 ** (et[1] - 1)), xb == -1))] if et[0] else [])
                    elif et[0]:
                        raw = {"+": Va + Vb, "-": Va - Vb, "*": Va * Vb}[op]
                        pre = [in_range(raw, et)]
                    if op == "/":
                        # "an expression it cannot fold exactly (e.g. inexact or zero division) is rejected": a zero divisor never yields a literal,
                        # and a division the compiler refuses to fold (raises) is within the property - only what it does fold must be the C quotient
                        check.ob(f"{name}#zero-divisor-is-rejected", pi, list(p.ctx.pc) + [wrap(Vb, et) == 0], p.outcome == "raise", replay=None,
                                 detail="a literal division by zero was folded to a value")
                    p.ctx.pc.extend(pre)
                    if op != "/":
                        check.ob(f"{name}#total", pi, p.ctx.pc, p.outcome == "return", replay=rp,
                                 detail="" if p.outcome == "return" else f"raises {p.value!r}")
                    if p.outcome == "return":
                        result_checks(name, pi, p, p.value, ev, et, rp)
                        h = p.state["t"].fields["il_ops_holder"]
                        check.ob(f"{name}#folded-operands-unregistered", pi, p.ctx.pc,
                                 "const_a" not in h.fields["read_ops"] and "const_b" not in h.fields["read_ops"])
            for op, tok, cb in (("<", "LT_OP", "relational_expr"), (">", "GT_OP", "relational_expr"), ("<=", "LE_OP", "relational_expr"),
                                (">=", "GE_OP", "relational_expr"), ("==", "EQ_OP", "equality_expr"), ("!=", "NE_OP", "equality_expr")):
                inst = f"a={tname(ta)} b={tname(tb)} signs={'same' if ta[0] == tb[0] else 'mixed'}"
                name = f"{cb}({op})[fold]"

                def setup(it, ta=ta, tb=tb):
                    t = tkit.mk_transformer(it)
                    a = mk_num(it, loader, "const_a", ta, "Va", t)
                    b = mk_num(it, loader, "const_b", tb, "Vb", t)
                    it.ctx.mark_pre(t, a, b)
                    return {"t": t, "a": a, "b": b}

                def run(it, st, op=op, tok=tok, cb=cb):
                    return it.call(tkit.method(it, st["t"], cb), [[st["a"], Token(tok, op), st["b"]]], {})
                for p, pi in callback_paths(check, loader, name, inst, setup, run):
                    rp = R("c09.fold", cb=cb, op=op, tok=tok, ta=list(ta), tb=list(tb))
                    ev, et = c_int_binop(op, Va, ta, Vb, tb)
                    check.ob(f"{name}#total", pi, p.ctx.pc, p.outcome == "return", replay=rp)
                    if p.outcome == "return":
                        result_checks(name, pi, p, p.value, ev, et, rp, is_bool=True)
        # ---- ground witnesses for comparison folding: concrete literal values, among them EQUAL values that are distinct Python
        #      objects (outside CPython's small-int cache) - folding must compare values, never object identity
        if ta == (True, 32):
            for va, vb in ((300, 300), (65536, 65536), (-300, -300), (5, 5), (300, 301), (-1, 1), (0, 0)):
                for op, tok, cb in (("==", "EQ_OP", "equality_expr"), ("!=", "NE_OP", "equality_expr"), ("<=", "LE_OP", "relational_expr"), (">", "GT_OP", "relational_expr")):
                    inst = f"ground {va} {op} {vb} (st32 literals)"
                    name = f"{cb}({op})[fold]"
                    check.instances_declared += 1

                    def setup_g(it, va=va, vb=vb):
                        t = tkit.mk_transformer(it)
                        mk = lambda nm, v: it.call(irkit.C(loader, "Number"), [nm, int(str(v)), conc_vt(loader, (True, 32))], {})     # noqa: E731
                        a, b = mk("const_a", va), mk("const_b", vb)
                        for n_ in (a, b):
                            n_.fields["inlined"] = True
                            t.fields["il_ops_holder"].fields["read_ops"][n_.fields["name"]] = n_
                        return {"t": t, "a": a, "b": b}
                    ex = explore(loader, setup_g, lambda it, st, op=op, tok=tok, cb=cb: it.call(tkit.method(it, st["t"], cb), [[st["a"], Token(tok, op), st["b"]]], {}))
                    check.absorb(ex, f"{name} {inst}")
                    if ex.paths:
                        check.instances_generated += 1
                    want = {"==": va == vb, "!=": va != vb, "<=": va <= vb, ">": va > vb}[op]
                    for p in ex.paths:
                        res = p.value if p.outcome == "return" else None
                        ok = isinstance(res, Obj) and res.cls is irkit.C(loader, "Bool") and bool(res.fields["value"]) == want
                        check.ob(f"{name}#ground-witness", inst, p.ctx.pc, ok, detail=f"{p.outcome} {p.value!r}",
                                 replay=("c09.ground_cmp", lambda mdl, va=va, vb=vb, op=op: {"va": va, "vb": vb, "op": op}) if replay_on else None)
        # ---- unary ---------------------------------------------------------------------------------------
        for op in ("~", "-", "+"):
            inst = f"a={tname(ta)}"
            name = f"unary_expr({op})[fold]"

            def setup(it, ta=ta):
                t = tkit.mk_transformer(it)
                a = mk_num(it, loader, "const_a", ta, "Va", t)
                it.ctx.mark_pre(t, a)
                return {"t": t, "a": a, "type0": (a.fields["value_type"].fields["_signed"], a.fields["value_type"].fields["_bit_width"]),
                        "value0": a.fields.get("value"), "name0": a.fields.get("name")}

            def run(it, st, op=op):
                return it.call(tkit.method(it, st["t"], "unary_expr"), [[Token("UNARY_OP", op), st["a"]]], {})
            for p, pi in callback_paths(check, loader, name, inst, setup, run):
                rp = R("c09.fold", cb="unary_expr", op=op, tok="UNARY_OP", ta=list(ta), tb=None)
                et = c11.unop_type(op, ta)
                x = wrap(Va, et)
                ev = wrap({"~": -x - 1, "-": -x, "+": x}[op], et)
                pre = [in_range(-Va, et)] if (op == "-" and et[0]) else []
                p.ctx.pc.extend(pre)
                check.ob(f"{name}#total", pi, p.ctx.pc, p.outcome == "return", replay=rp,
                         detail="" if p.outcome == "return" else f"raises {p.value!r}")
                if p.outcome == "return":
                    result_checks(name, pi, p, p.value, ev, et, rp)
                    a = p.state["a"]
                    now = (a.fields["value_type"].fields["_signed"], a.fields["value_type"].fields["_bit_width"])
                    check.ob(f"{name}#operand-type-not-mutated", pi, p.ctx.pc, now == p.state["type0"], replay=rp,
                             detail=f"type of the operand literal changed in place from {p.state['type0']} to {now}")
                    # the operand literal (which other expressions may hold as well) keeps its value and name (handing it back unchanged, as for +x, is fine)
                    same = a.fields.get("value") is p.state["value0"] and a.fields.get("name") == p.state["name0"]
                    check.ob(f"{name}#operand-not-mutated", pi, p.ctx.pc, same, replay=R("c09.fold_frame", op=op, ta=list(ta)),
                             detail=f"operand literal now named {a.fields.get('name')!r} with value {a.fields.get('value')!r}; result is the operand itself: {p.value is a}")

    # ---- constant condition of ?: -------------------------------------------------------------------------------
    for ta in LIT_TYPES:
        for tb in LIT_TYPES:
            for ck in ("Number", "Bool"):
                inst = f"cond={ck} a={tname(ta)} b={tname(tb)}"
                name = "conditional_expr[fold]"

                def setup(it, ta=ta, tb=tb, ck=ck):
                    t = tkit.mk_transformer(it)
                    if ck == "Number":
                        c = mk_num(it, loader, "const_c", (True, 32), "Vc", t)
                    else:
                        c = it.call(irkit.C(loader, "Bool"), ["True", SBool(z3.Bool("Bc"))], {})
                        c.fields["inlined"] = True
                    a = irkit.mk_operand(it, "Variable", ta, "a")
                    b = irkit.mk_operand(it, "Variable", tb, "b")
                    for o in (a, b):
                        t.fields["il_ops_holder"].fields["read_ops"][o.label] = o
                    it.ctx.mark_pre(t, a, b, c)
                    return {"t": t, "a": a, "b": b, "c": c}

                def run(it, st):
                    return it.call(tkit.method(it, st["t"], "conditional_expr"), [[st["c"], st["a"], st["b"]]], {})
                for p, pi in callback_paths(check, loader, name, inst, setup, run):
                    rp = None
                    check.ob(f"{name}#total", pi, p.ctx.pc, p.outcome == "return", replay=rp,
                             detail="" if p.outcome == "return" else f"raises {p.value!r}")
                    if p.outcome != "return":
                        continue
                    cond_true = (z3.Int("Vc") != 0) if ck == "Number" else z3.Bool("Bc")
                    a, b = p.state["a"], p.state["b"]
                    res = p.value
                    ok = isinstance(res, Obj) and "value_type" in res.fields
                    check.ob(f"{name}#returns-node", pi, p.ctx.pc, ok)
                    if not ok:
                        continue
                    et = c11.cond_type(ta, tb)
                    exp = c11.cond_value(cond_true, a.ghost["den"], ta, b.ghost["den"], tb)
                    rp2 = ("c09.cond", lambda mdl, ta=ta, tb=tb, ck=ck: {"ta": list(ta), "tb": list(tb), "cond_kind": ck,
                                                                           "cond": bool(mdl.get("Bc", mdl.get("Vc", 0))), "cond_value": int(mdl.get("Vc", 0) or 0),
                                                                           "a": int(mdl.get("a", 0)), "b": int(mdl.get("b", 0))}) if replay_on else None
                    # the live arm is selected
                    check.ob(f"{name}#selects-live-arm", pi, p.ctx.pc, z3.If(cond_true, z3.BoolVal(res is a), z3.BoolVal(res is b)), replay=rp2)
                    try:
                        rt = ir.vt(res)
                        probs = ir.wf_problems(res)
                    except ir.NotWF as e:
                        rt, probs = None, [str(e)]
                    check.ob(f"{name}#type-is-common-type-of-both-arms", pi, p.ctx.pc, rt == tuple(et), replay=rp2,
                             detail=f"result typed {tname(rt) if rt else '?'}, C11 type of ?: is {tname(et)}")
                    if rt is not None and rt[1] == et[1] and not probs:
                        check.ob(f"{name}#value", pi, p.ctx.pc, ir.den(res) == exp, replay=rp2)

    # ---- dead operand removal must not unregister what live code still uses ----------------------------------------
    for dead_kind in ("Register", "Variable"):
        inst = f"dead-arm={dead_kind} also-used-by-earlier-statement"
        name = "conditional_expr[fold]"
        check.instances_declared += 1

        def setup(it, dead_kind=dead_kind):
            t = tkit.mk_transformer(it, stub_add_op=False, symbolic_count=False)
            h = t.fields["il_ops_holder"]
            RA = irkit.enum(loader, "Register", "RegisterAccessType")
            if dead_kind == "Register":
                dead = it.call(irkit.C(loader, "Register"), ["Rt", RA.R, conc_vt(loader, (True, 32))], {})
            else:
                dead = irkit.mk_var(it, "v", (True, 32))
            live = it.call(irkit.C(loader, "Register"), ["Rs", RA.R, conc_vt(loader, (True, 32))], {})
            dest = it.call(irkit.C(loader, "Register"), ["Rd", RA.W, conc_vt(loader, (True, 32))], {})
            for o in (dead, live, dest):
                it.call(tkit.method(it, t, "add_op"), [o], {})
            # an earlier statement `Rd = <dead>` is already registered
            AT = irkit.enum(loader, "Assignment", "AssignmentType")
            earlier = it.call(tkit.method(it, t, "add_op"), [it.call(irkit.C(loader, "Assignment"), ["op_ASSIGN", AT("="), dest, dead], {})], {})
            one = it.call(tkit.method(it, t, "add_op"), [it.call(irkit.C(loader, "Number"), ["const_1", 1, conc_vt(loader, (True, 32))], {})], {})
            it.ctx.mark_pre(t)
            return {"t": t, "dead": dead, "live": live, "earlier": earlier, "one": one}

        def run(it, st):
            return it.call(tkit.method(it, st["t"], "conditional_expr"), [[st["one"], st["live"], st["dead"]]], {})
        ex = explore(loader, setup, run)
        check.absorb(ex, f"{name} {inst}")
        if ex.paths:
            check.instances_generated += 1
        for i, p in enumerate(ex.paths):
            pi = f"{inst} path={i}"
            check.ob(f"{name}#total", pi, p.ctx.pc, p.outcome == "return", detail="" if p.outcome == "return" else f"raises {p.value!r}")
            if p.outcome != "return":
                continue
            h = p.state["t"].fields["il_ops_holder"]
            regd = set(id(v) for d in ("read_ops", "exec_ops", "write_ops") for v in h.fields[d].values())
            missing = []
            for e in h.fields["write_ops"].values():
                for o in (e.fields.get("effect_ops") or []):
                    if isinstance(o, Obj) and o.cls.is_subclass_of(irkit.C(loader, "Pure")) and not o.fields.get("inlined") and id(o) not in regd:
                        missing.append(f"{o!r} used by registered effect {e!r}")
            rp = ("c09.dead_arm", lambda mdl, dead_kind=dead_kind: {"dead_kind": dead_kind}) if replay_on else None
            check.ob(f"{name}#operands-of-registered-effects-stay-registered", pi, p.ctx.pc, not missing, replay=rp,
                     detail="; ".join(missing))

    # ---- ILOpsHolder.rm_op_by_name: removes exactly the named op --------------------------------------------------
    for victim in ("r1", "e1", "w1", "absent"):
        check.instances_declared += 1

        def setup(it):
            h = it.call(H, [], {})
            objs = {}
            for tbl, names in (("read_ops", ("r1", "r2")), ("exec_ops", ("e1", "e2")), ("write_ops", ("w1", "w2"))):
                for n in names:
                    o = irkit.mk_var(it, n, (True, 32)) if tbl != "write_ops" else it.call(irkit.C(loader, "NOP"), [n], {})
                    h.fields[tbl][n] = o
                    objs[n] = o
            it.ctx.mark_pre(h)
            return {"h": h}
        ex = explore(loader, setup, lambda it, st, victim=victim: it.call(it.getattr_(st["h"], "rm_op_by_name"), [victim], {}))
        check.absorb(ex, f"rm_op_by_name {victim}")
        if ex.paths:
            check.instances_generated += 1
        for i, p in enumerate(ex.paths):
            pi = f"name={victim} path={i}"
            check.ob("rm_op_by_name#total", pi, p.ctx.pc, p.outcome == "return")
            if p.outcome != "return":
                continue
            h = p.state["h"]
            left = {tbl: sorted(h.fields[tbl]) for tbl in ("read_ops", "exec_ops", "write_ops")}
            want = {"read_ops": ["r1", "r2"], "exec_ops": ["e1", "e2"], "write_ops": ["w1", "w2"]}
            for tbl in want:
                want[tbl] = [n for n in want[tbl] if n != victim]
            check.ob("rm_op_by_name#removes-exactly-the-named-op", pi, p.ctx.pc, left == want, detail=f"tables after removal: {left}")

    # ---- sizeof ---------------------------------------------------------------------------------------------------------
    check.under_contract(loader, T.methods["c_call"], irkit.C(loader, "Sizeof").methods["__init__"])
    for t_ in c11.T8:
        inst = f"operand={tname(t_)}"

        def setup(it, t_=t_):
            t = tkit.mk_transformer(it)
            a = irkit.mk_operand(it, "Variable", t_, "a")
            it.ctx.mark_pre(t, a)
            return {"t": t, "a": a}

        def run(it, st):
            return it.call(tkit.method(it, st["t"], "c_call"), [["sizeof", st["a"]]], {})
        for p, pi in callback_paths(check, loader, "c_call(sizeof)", inst, setup, run):
            check.ob("c_call(sizeof)#total", pi, p.ctx.pc, p.outcome == "return")
            if p.outcome == "return":
                lv = lit_value(p.value) if isinstance(p.value, Obj) and "value" in p.value.fields else None
                check.ob("c_call(sizeof)#value-is-size-in-bytes", pi, p.ctx.pc, lv is not None and z3.simplify(lv == t_[1] // 8))
                check.ob("c_call(sizeof)#integer-type", pi, p.ctx.pc, ir.vt(p.value)[1] in (32, 64))
    check.notes.append("sizeof: the value clause is checked; the result type is size_t in C (implementation defined) and only "
                       "required to be a 32/64-bit integer type here")


def gen_division_bounded(loader, check, replay_on=True):
    """Native end-to-end witnesses next to the fold contract of `/` (which decides the clause for all literal values): `RdV = a / b`
    through the real compiler writes the C quotient or is rejected, and a zero divisor is always rejected."""
    from rzilcompiler.Compiler import Compiler
    from rzilcompiler.ArchEnum import ArchEnum
    cwd = os.getcwd()
    os.chdir(loader.repo)
    try:
        import io
        import contextlib
        with contextlib.redirect_stdout(io.StringIO()):
            c = Compiler(ArchEnum.HEXAGON)
        bad = []
        n = 0
        for a in (0, 1, 7, 8, 31, 32, 64, 70, 1000, 4294967296):
            for b in (0, 1, 2, 3, 7, 32, 65536):
                n += 1
                try:
                    txt = c.compile_c_stmt(f"{{ RdV = {a} / {b}; }}")
                except Exception:
                    continue            # rejected: within the property for every pair (and required for b == 0)
                m = re.search(r"WRITE_REG\(bundle, Rd_op, (.*)\);", txt)
                lit = re.search(r"[SU]N\(\d+, (-?(?:0x[0-9a-fA-F]+|\d+))\)", m.group(1) if m else "")
                got = int(lit.group(1), 0) if lit else None
                if b == 0 or got is None or (got - a // b) % (2 ** 32) != 0:
                    bad.append(f"{a}/{b} -> {m.group(1) if m else txt[-80:]}")
        check.ob("simplify_arithmetic_expr(/)#end-to-end: a folded quotient reaches the emitted text unchanged, a zero divisor is rejected", f"bounded: {n} literal pairs", [], not bad,
                 bounded=True, detail="; ".join(bad[:3]))
        check.notes.append(f"literal division: {n} concrete (a, b) pairs are additionally compiled natively end to end (the fold contract of `/` covers all values)")
    finally:
        os.chdir(cwd)


# ------------------------------------------------------------------------------------------ replay
def _lit_text(v, is_hex, sfx):
    return (hex(v) if is_hex else str(v)) + sfx


@replay.register("c09.literal")
def replay_literal(a):
    from rzilcompiler.Transformer.RZILTransformer import RZILTransformer
    from rzilcompiler.ArchEnum import ArchEnum
    t = RZILTransformer(ArchEnum.HEXAGON)
    v = a["value"]
    txt = hex(v) if a["hex"] else str(v)
    try:
        n = t.number([Token("HEX_NUMBER" if a["hex"] else "DEC_NUMBER", txt), Token("INT_POST_TYPE", a["suffix"]) if a["suffix"] else None])
    except Exception as e:
        return True, f"number({txt}{a['suffix']}) raised {type(e).__name__}: {e}"
    want = c11.literal_type(v, a["hex"], a["suffix"])
    got = (n.value_type.signed, n.value_type.bit_width)
    return (want is not None and got != want) or n.get_val() != v, f"literal {txt}{a['suffix']}: typed {tname(got)}, C11 6.4.4.1 type {tname(want) if want else 'none'}; value {n.get_val()}"


@replay.register("c09.render")
def replay_render(a):
    from rzilcompiler.Transformer.ValueType import ValueType
    from rzilcompiler.Transformer.Pures.Number import Number
    t = tuple(a["type"])
    n = Number("const_1", a["value"], ValueType(*t))
    n.inlined = a["method"] != "il_init_var"
    try:
        txt = getattr(n, a["method"])()
    except Exception as e:
        return True, f"{a['method']}() of literal {a['value']} : {tname(t)} raised {type(e).__name__}: {e}"
    if a["method"] == "il_init_var":
        txt = txt[len("RzILOpPure *const_1 = "):-1]
    srt, val, err = irkit.eval_text_concrete(txt, {}, {})
    want = a["value"] % (2 ** t[1])
    return err is not None or val != want, f"{a['method']}() = {txt}; denotes {val}, expected {want} ({err or 'well-sorted'})"


def _pyint_c(op, va, ta, vb, tb):
    ev, et = c_int_binop(op, z3.IntVal(va), ta, z3.IntVal(vb), tb)
    r = z3.simplify(ev)
    return (z3.is_true(r) if z3.is_true(r) or z3.is_false(r) else r.as_long()), et


@replay.register("c09.fold_frame")
def replay_fold_frame(a):
    """real unary_expr on a real literal that is registered in the holder: afterwards the literal still has its value, type and name"""
    from rzilcompiler.Transformer.RZILTransformer import RZILTransformer
    from rzilcompiler.Transformer.Pures.Number import Number
    from rzilcompiler.Transformer.ValueType import ValueType
    from rzilcompiler.ArchEnum import ArchEnum
    t = RZILTransformer(ArchEnum.HEXAGON)
    ta = tuple(a["ta"])
    n = t.add_op(Number("const_pos_5", 5, ValueType(*ta)))
    before = (n.get_name(), n.get_val(), n.value_type.signed, n.value_type.bit_width)
    r = t.unary_expr([Token("UNARY_OP", a["op"]), n])
    after = (n.get_name(), n.get_val(), n.value_type.signed, n.value_type.bit_width)
    return before != after, f"{a['op']}5:{tname(ta)}: operand literal before {before}, after {after}; the result is the operand itself: {r is n}"


@replay.register("c09.fold")
def replay_fold(a):
    from rzilcompiler.Transformer.RZILTransformer import RZILTransformer
    from rzilcompiler.Transformer.ValueType import ValueType
    from rzilcompiler.Transformer.Pures.Number import Number
    from rzilcompiler.ArchEnum import ArchEnum
    t = RZILTransformer(ArchEnum.HEXAGON)
    ta = tuple(a["ta"])
    na = t.add_op(Number("const_a", a["va"], ValueType(*ta)))
    type0 = (na.value_type._signed, na.value_type._bit_width)
    try:
        if a["cb"] == "unary_expr":
            r = t.unary_expr([Token("UNARY_OP", a["op"]), na])
            et = c11.unop_type(a["op"], ta)
            x = z3.simplify(wrap(z3.IntVal(a["va"]), et)).as_long()
            raw = {"~": -x - 1, "-": -x, "+": x}[a["op"]]
            want = z3.simplify(wrap(z3.IntVal(raw), et)).as_long()
            desc = f"{a['op']}({a['va']}:{tname(ta)})"
        else:
            tb = tuple(a["tb"])
            nb = t.add_op(Number("const_b", a["vb"], ValueType(*tb)))
            r = getattr(t, a["cb"])([na, Token(a["tok"], a["op"]), nb])
            want, et = _pyint_c(a["op"], a["va"], ta, a["vb"], tb)
            desc = f"({a['va']}:{tname(ta)}) {a['op']} ({a['vb']}:{tname(tb)})"
    except Exception as e:
        return True, f"folding raised {type(e).__name__}: {e}"
    clause = a.get("clause", "")
    if clause == "operand-type-not-mutated":
        now = (na.value_type._signed, na.value_type._bit_width)
        return now != type0, f"{desc}: the operand literal's own type changed in place from {type0} to {now}"
    if isinstance(want, bool):
        got = bool(r.get_val())
        return got != want, f"{desc} folded to {got}; C11 value {want}"
    got_t = (r.value_type.signed, r.value_type.bit_width)
    gv = r.get_val()
    if clause == "type":
        return got_t != tuple(et), f"{desc} folded to {gv} typed {tname(got_t)}; C11 type {tname(et)}"
    if clause == "value-in-range-of-type":
        lo, hi = (-(2 ** (got_t[1] - 1)), 2 ** (got_t[1] - 1)) if got_t[0] else (0, 2 ** got_t[1])
        return not (lo <= gv < hi), f"{desc} folded to the unwrapped integer {gv}, not representable in {tname(got_t)} (C11 value {want}); later compile-time comparisons use the raw integer"
    return (gv - want) % (2 ** got_t[1]) != 0 or got_t != tuple(et), f"{desc} folded to {gv}:{tname(got_t)}; C11 value {want}:{tname(et)}"


@replay.register("c09.ground_cmp")
def replay_ground_cmp(a):
    c = irkit.real_compiler()
    src = "{ RdV = (%d %s %d) ? 11 : 22; }" % (a["va"], a["op"], a["vb"])
    txt = c.compile_c_stmt(src)
    want = {"==": a["va"] == a["vb"], "!=": a["va"] != a["vb"], "<=": a["va"] <= a["vb"], ">": a["va"] > a["vb"]}[a["op"]]
    m = re.search(r"WRITE_REG\(bundle, Rd_op, (.*)\);", txt)
    got = m.group(1) if m else ""
    is11 = "0xb" in got or ", 11)" in got
    return is11 != want, f"{src} folds to {got} (C selects {11 if want else 22})"


@replay.register("c09.cond")
def replay_cond(a):
    from rzilcompiler.Transformer.RZILTransformer import RZILTransformer
    from rzilcompiler.Transformer.ValueType import ValueType
    from rzilcompiler.Transformer.Pures.Number import Number
    from rzilcompiler.Transformer.Pures.Bool import Bool
    from rzilcompiler.Transformer.Pures.Variable import Variable
    from rzilcompiler.ArchEnum import ArchEnum
    t = RZILTransformer(ArchEnum.HEXAGON)
    ta, tb = tuple(a["ta"]), tuple(a["tb"])
    cv = a.get("cond_value", 1 if a["cond"] else 0)
    c = t.add_op(Number("const_c", cv, ValueType(True, 32))) if a["cond_kind"] == "Number" else t.add_op(Bool("True", bool(a["cond"])))
    x, y = t.add_op(Variable("a", ValueType(*ta))), t.add_op(Variable("b", ValueType(*tb)))
    r = t.conditional_expr([c, x, y])
    et = c11.cond_type(ta, tb)
    clause = a.get("clause", "")
    if "selects-live-arm" in clause or clause.endswith("value"):
        # the live arm of a constant condition is the then-arm iff the condition is non-zero
        live = x if (cv != 0 if a["cond_kind"] == "Number" else a["cond"]) else y
        node = r
        while type(node).__name__ == "Cast":
            node = node.ops[0]
        return node is not live, f"({cv if a['cond_kind'] == 'Number' else a['cond']} ? a : b) folded to {r}; the live arm is {live}"
    rt = ir.vt(r)
    return rt != tuple(et), f"({a['cond']} ? a:{tname(ta)} : b:{tname(tb)}) folded to {r} typed {tname(rt)}; C11 type of the conditional expression is {tname(et)}"


@replay.register("c09.dead_arm")
def replay_dead_arm(a):
    from rzilcompiler.Compiler import Compiler
    from rzilcompiler.ArchEnum import ArchEnum
    import io
    import contextlib
    with contextlib.redirect_stdout(io.StringIO()):
        c = Compiler(ArchEnum.HEXAGON)
    src = "{ RdV = RtV; RdV = 1 ? RsV : RtV; }" if a["dead_kind"] == "Register" else "{ int32_t v = RsV; RdV = v; RdV = 1 ? RsV : v; }"
    txt = c.compile_c_stmt(src)
    name = "Rt" if a["dead_kind"] == "Register" else "v"
    uses = [l for l in txt.splitlines() if ("Rt" in l if name == "Rt" else '"v"' in l)]
    decl = [l for l in txt.splitlines() if (l.startswith("const HexOp *Rt_op") or l.startswith("RzILOpPure *Rt =")) or "Declare: st32 v" in l]
    bad = bool(uses) and not decl
    return bad, f"{src} -> uses of {name}: {uses}; declarations of {name}: {decl}"


# ------------------------------------------------------------------------------------------
def gen_task(loader, check, what, replay_on=True):
    {"literals": gen_literals, "rendering": gen_rendering, "folding": gen_folding, "division": gen_division_bounded}[what](loader, check, replay_on)


def generate_reduced(loader, check):
    global LIT_TYPES
    saved = LIT_TYPES
    LIT_TYPES = [(True, 32), (False, 64)]
    try:
        gen_literals(loader, check, False)
        gen_rendering(loader, check, False)
        gen_folding(loader, check, False)
    finally:
        LIT_TYPES = saved


def run(check: Check):
    check.trust("T-VCGEN: pyvc interpretation of the Python subset (mitigated by mutant self-test and native replay)")
    check.trust("T-C11: literal typing 6.4.4.1 (LP64), promotions, usual arithmetic conversions, wrap-around, written in spec/c11.py "
                "and the integer-domain helper c_int_binop of this file")
    check.trust("T-RZIL: SN/UN(w, v) denote v mod 2^w for a C integer constant v (|v| < 2^64)")
    check.assume("literal values are mathematical integers (z3 Int): exact for Python ints")
    check.assume("WF(Number) as precondition of folding: a literal operand's value is representable in its type; C-side signed "
                 "overflow (UB) is excluded by precondition")
    check.assume("A-NAMES: add_op through its contract")
    check.run_parallel("contracts.c09", "gen_task", [{"what": w} for w in ("literals", "rendering", "folding", "division")], workers=WORKERS)
    run_mutants(check, MUTANTS, "contracts.c09", "generate_reduced")
    return check.finish(
        level="proof",
        rule="one obligation per (function, literal spelling / operand literal types, path, clause); literal values symbolic Int")
