"""C13 - reported instruction attributes are exactly those of the instruction itself.

Functions under contract: HexagonTransformerExtension.set_token_meta_data, the six setters,
set_writes_pred, reset_flags, get_meta, get_noped_meta; the attribute-relevant callbacks of
RZILTransformer (mem_store, mem_load, new_reg, reg, explicit_reg, reg_alias, jump, selection_stmt,
assignment_expr) and - by a mechanical scan - every other callback's tokens; RZILTransformer.reset;
Compiler.transform_insn; RZILInstruction.get_unimplemented_rzil_instr.
Flags are symbolic Booleans and the written-predicate list ranges over all 65 duplicate-free lists
over {0..3}: the contracts hold for every prior history.
"""
from __future__ import annotations
import ast
import itertools
import os
import z3
from lark import Token

from pyvc.interp import explore
from pyvc.loader import Loader, ClassInfo, FuncInfo
from pyvc.values import Obj, SBool, Tpl
from pyvc.vc import Check
from pyvc import replay
from . import irkit, tkit
from .common import WORKERS, conc_vt, run_mutants, zb

PROP = "C13"
M_X = "rzilcompiler.HexagonExtensions"
FLAGS = ["is_conditional", "uses_new", "writes_mem", "reads_mem", "branches", "writes_predicate"]
ATTR = {"is_conditional": "HEX_IL_INSN_ATTR_COND", "uses_new": "HEX_IL_INSN_ATTR_NEW", "writes_mem": "HEX_IL_INSN_ATTR_MEM_WRITE",
        "reads_mem": "HEX_IL_INSN_ATTR_MEM_READ", "branches": "HEX_IL_INSN_ATTR_BRANCH", "writes_predicate": "HEX_IL_INSN_ATTR_WPRED"}
# attribute table of the property statement (T-HEX): which token sets which attribute
TOKEN_ATTR = {"selection_stmt": "is_conditional", "new_reg": "uses_new", "mem_store": "writes_mem", "mem_load": "reads_mem",
              "jump": "branches"}
PRED_LISTS = [list(p) for k in range(5) for p in itertools.permutations(range(4), k)]

MUTANTS = [
    {"name": "set_token_meta_data: mem_load also sets MEM_WRITE", "file": "rzilcompiler/HexagonExtensions.py",
     "old": '        elif token == "mem_load":\n            self.set_reads_mem()', "new": '        elif token == "mem_load":\n            self.set_reads_mem()\n            self.set_writes_mem()'},
    {"name": "set_token_meta_data: jump does not set BRANCH", "file": "rzilcompiler/HexagonExtensions.py",
     "old": '        elif token == "jump":\n            self.set_branches()', "new": '        elif token == "jump":\n            pass'},
    {"name": "reset_flags: forgets uses_new", "file": "rzilcompiler/HexagonExtensions.py",
     "old": "        self.uses_new = False\n        self.branches = False", "new": "        self.branches = False"},
    {"name": "get_meta: MEM_READ reported for writes", "file": "rzilcompiler/HexagonExtensions.py",
     "old": "        if self.reads_mem:\n            flags.append", "new": "        if self.writes_mem:\n            flags.append"},
    {"name": "get_meta: NONE appended even when attributes exist", "file": "rzilcompiler/HexagonExtensions.py",
     "old": "        if len(flags) == 0:\n            flags.append(\"HEX_IL_INSN_ATTR_NONE\")", "new": "        if len(flags) <= 1:\n            flags.append(\"HEX_IL_INSN_ATTR_NONE\")"},
    {"name": "set_writes_pred: predicate 3 never recorded", "file": "rzilcompiler/HexagonExtensions.py",
     "old": "if num in range(4) and num not in self.preds_written:", "new": "if num in range(3) and num not in self.preds_written:"},
    {"name": "explicit_reg: .new flag inverted for the attribute", "file": "rzilcompiler/Transformer/RZILTransformer.py",
     "old": '        self.ext.set_token_meta_data("explicit_reg", is_new=new)', "new": '        self.ext.set_token_meta_data("explicit_reg", is_new=not new)'},
    {"name": "assignment_expr: every predicate write recorded as P0", "file": "rzilcompiler/Transformer/RZILTransformer.py",
     "old": "                    dest.get_pred_num() if dname[1] in [\"0\", \"1\", \"2\", \"3\"] else -1", "new": "                    0"},
    {"name": "mem_load callback reports a store", "file": "rzilcompiler/Transformer/RZILTransformer.py",
     "old": '        self.ext.set_token_meta_data("mem_load")\n        vt = ValueType', "new": '        self.ext.set_token_meta_data("mem_store")\n        vt = ValueType'},
    {"name": "reg callback marks .new", "file": "rzilcompiler/Transformer/RZILTransformer.py",
     "old": '    def reg(self, items):\n        self.ext.set_token_meta_data("reg")', "new": '    def reg(self, items):\n        self.ext.set_token_meta_data("new_reg")'},
    {"name": "cast_expr sets COND (a neutral production sets an attribute)", "file": "rzilcompiler/Transformer/RZILTransformer.py",
     "old": '        self.ext.set_token_meta_data("cast_expr")', "new": '        self.ext.set_token_meta_data("selection_stmt")'},
    {"name": "transform_insn: no reset between parts", "file": "rzilcompiler/Compiler.py",
     "old": "            for pt, text in zip(parsed_insns.asts, parsed_insns.behaviors):\n                self.transformer.reset()", "new": "            for pt, text in zip(parsed_insns.asts, parsed_insns.behaviors):\n                pass"},
    {"name": "transform_insn: noped instructions report the transformer's attributes", "file": "rzilcompiler/Compiler.py",
     "old": "                    meta.append(self.transformer.ext.get_noped_meta())", "new": "                    meta.append(self.transformer.ext.get_meta())"},
    {"name": "RZILTransformer.reset: flags not reset", "file": "rzilcompiler/Transformer/RZILTransformer.py",
     "old": "    def reset(self):\n        self.ext.reset_flags()\n", "new": "    def reset(self):\n"},
]


# ------------------------------------------------------------------------------------------
def XCls(loader):
    return loader.load(M_X).globals["HexagonTransformerExtension"]


def mk_ext(it, preds, symbolic=True):
    """Extension instance in an arbitrary prior state: symbolic flags, given written-predicate list."""
    X = XCls(it.loader)
    dummy = Obj(irkit.C(it.loader, "Pure"))      # `transformer` back-reference, unused by the functions under contract
    x = it.call(X, [dummy], {})
    set_ext_state(it, x, preds, symbolic)
    return x


def set_ext_state(it, x, preds, symbolic=True):
    for f in FLAGS:
        x.fields[f] = SBool(z3.Bool(f"f_{f}")) if symbolic else False
    lst = it.getattr_(x, "preds_written")
    lst[:] = list(preds)


def ext_flags(it, x):
    return {f: it.getattr_(x, f) for f in FLAGS}


def flag_term(v):
    if isinstance(v, SBool):
        return v.t
    if isinstance(v, bool):
        return z3.BoolVal(v)
    return None


def state_obligations(check, name, pi, p, x, it_get, expect_set, prior_preds, expect_preds, replay=None):
    """flags' == flags0 or (flag in expect_set);  preds' == expect_preds"""
    pc = p.ctx.pc
    for f in FLAGS:
        v = it_get(x, f)
        t = flag_term(v)
        if t is None:
            check.ob(f"{name}#flag-is-bool", f"{pi} flag={f}", pc, False, detail=repr(v), replay=replay)
            continue
        f0 = z3.Bool(f"f_{f}")
        want = z3.BoolVal(True) if f in expect_set else f0
        check.ob(f"{name}#ensures.{f}", pi, pc, t == want, replay=replay)
    lst = it_get(x, "preds_written")
    check.ob(f"{name}#ensures.preds_written", pi, pc, isinstance(lst, list) and lst == expect_preds, replay=replay,
             detail=f"prior {prior_preds} -> {lst}, expected {expect_preds}")


def scan_tokens(loader):
    """All literal tokens passed to set_token_meta_data, per method of RZILTransformer and of the extension."""
    out = {}
    for modname, clsname in ((tkit.M_T, "RZILTransformer"), (M_X, "HexagonTransformerExtension")):
        cls = loader.load(modname).globals[clsname]
        for mname, f in cls.methods.items():
            if not isinstance(f, FuncInfo):
                continue
            for node in ast.walk(f.node):
                if isinstance(node, ast.Call) and isinstance(node.func, ast.Attribute) and node.func.attr == "set_token_meta_data":
                    if node.args and isinstance(node.args[0], ast.Constant):
                        out.setdefault(f"{clsname}.{mname}", []).append(node.args[0].value)
                    else:
                        out.setdefault(f"{clsname}.{mname}", []).append(None)
                elif isinstance(node, ast.Call) and isinstance(node.func, ast.Attribute) and node.func.attr in (
                        "set_uses_new", "set_writes_pred", "set_writes_mem", "set_reads_mem", "set_is_conditional", "set_branches"):
                    out.setdefault(f"{clsname}.{mname}", []).append("@" + node.func.attr)
    return out


# ------------------------------------------------------------------------------------------
def gen_extension(loader, check, replay_on=True, parts=("inventory", "set", "reset", "get_meta", "misc"), lists=None):
    X = XCls(loader)
    pred_lists = PRED_LISTS if lists is None else lists
    for m in ("set_token_meta_data", "set_uses_new", "set_writes_pred", "set_writes_mem", "set_reads_mem",
              "set_is_conditional", "set_branches", "reset_flags", "get_meta", "get_noped_meta", "__init__"):
        check.under_contract(loader, X.methods[m])
    toks = scan_tokens(loader)
    all_tokens = sorted({t for v in toks.values() for t in v if isinstance(t, str) and not t.startswith("@")} | {"<any-other-token>"})
    check.extra["tokens_scanned"] = all_tokens

    def R(kind, **kw):
        if not replay_on:
            return None
        return (kind, lambda mdl: dict(kw, model={k: v for k, v in mdl.items() if isinstance(v, bool)}))

    # ---- state inventory: every attribute of the extension must be classified -------------------
    if "inventory" not in parts:
        return gen_extension_rest(loader, check, X, all_tokens, parts, pred_lists, R)
    inv = set(X.attr_exprs)
    init = X.methods["__init__"]
    for node in ast.walk(init.node):
        if isinstance(node, ast.Attribute) and isinstance(node.ctx, ast.Store) and isinstance(node.value, ast.Name) and node.value.id == "self":
            inv.add(node.attr)
    classified = set(FLAGS) | {"preds_written", "spec_ids", "transformer", "missing_fcns"}
    unknown = sorted(inv - classified)
    if unknown:
        check.undecided.append(("HexagonTransformerExtension state inventory", f"unclassified attributes {unknown} (needs contract)"))
    check.extra["extension_state_inventory"] = sorted(inv)

    return gen_extension_rest(loader, check, X, all_tokens, parts, pred_lists, R)


def gen_extension_rest(loader, check, X, all_tokens, parts, pred_lists, R):
    RI = None
    # ---- set_token_meta_data ------------------------------------------------------------------------
    f_set = X.methods["set_token_meta_data"]
    cases = []
    for tok in (all_tokens if "set" in parts else []):
        if tok == "pred_write":
            for n in (-1, 0, 1, 2, 3, 4, 7):
                for pl in pred_lists:
                    cases.append((tok, {"pred_num": n}, pl))
        elif [] not in pred_lists:
            continue    # token cases that do not depend on the list are generated by the chunk containing []
        elif tok == "explicit_reg":
            for isn in (True, False):
                for pl in ([], [2, 0]):
                    cases.append((tok, {"is_new": isn}, pl))
        else:
            for pl in ([], [1], [3, 0, 2]):
                cases.append((tok, {}, pl))
    for tok, kw, pl in cases:
        inst = f"token={tok} kwargs={kw} preds={pl}"
        check.instances_declared += 1

        def setup(it, pl=pl):
            x = mk_ext(it, pl)
            it.ctx.mark_pre(x)
            return x

        def run(it, x, tok=tok, kw=kw):
            return it.call(it.getattr_(x, "set_token_meta_data"), [tok], dict(kw))
        ex = explore(loader, setup, run)
        check.absorb(ex, f"set_token_meta_data {inst}")
        if ex.paths:
            check.instances_generated += 1
        expect = set()
        epl = list(pl)
        if tok in TOKEN_ATTR:
            expect = {TOKEN_ATTR[tok]}
        elif tok == "explicit_reg" and kw["is_new"]:
            expect = {"uses_new"}
        elif tok == "pred_write":
            expect = {"writes_predicate"}
            n = kw["pred_num"]
            if n in (0, 1, 2, 3) and n not in epl:
                epl.append(n)
        for i, p in enumerate(ex.paths):
            pi = f"{inst} path={i}"
            rp = R("c13.set_token", token=tok, kwargs=kw, preds=pl)
            check.ob("set_token_meta_data#total", pi, p.ctx.pc, p.outcome == "return", replay=rp,
                     detail="" if p.outcome == "return" else f"raises {p.value!r}")
            if p.outcome != "return":
                continue
            it = _It(p)
            state_obligations(check, "set_token_meta_data", pi, p, p.state, it, expect, pl, sorted(epl) if False else epl, rp)

    # ---- reset_flags -----------------------------------------------------------------------------------
    for pl in (pred_lists if "reset" in parts else []):
        inst = f"preds={pl}"
        check.instances_declared += 1

        def setup(it, pl=pl):
            x = mk_ext(it, pl)
            it.ctx.mark_pre(x)
            return x
        ex = explore(loader, setup, lambda it, x: it.call(it.getattr_(x, "reset_flags"), [], {}))
        check.absorb(ex, f"reset_flags {inst}")
        if ex.paths:
            check.instances_generated += 1
        for i, p in enumerate(ex.paths):
            pi = f"{inst} path={i}"
            rp = R("c13.reset_flags", preds=pl)
            check.ob("reset_flags#total", pi, p.ctx.pc, p.outcome == "return", replay=rp)
            if p.outcome != "return":
                continue
            it = _It(p)
            for f in FLAGS:
                t = flag_term(it(p.state, f))
                check.ob(f"reset_flags#ensures.{f}", pi, p.ctx.pc, (t == z3.BoolVal(False)) if t is not None else False, replay=rp)
            lst = it(p.state, "preds_written")
            check.ob("reset_flags#ensures.preds_written-empty", pi, p.ctx.pc, isinstance(lst, list) and lst == [], replay=rp,
                     detail=f"written-predicate list after reset_flags: {lst}")

    # ---- get_meta ----------------------------------------------------------------------------------------
    for pl in (pred_lists if "get_meta" in parts else []):
        inst = f"preds={pl}"
        check.instances_declared += 1

        def setup(it, pl=pl):
            x = mk_ext(it, pl)
            it.ctx.mark_pre(x)
            return x
        ex = explore(loader, setup, lambda it, x: it.call(it.getattr_(x, "get_meta"), [], {}))
        check.absorb(ex, f"get_meta {inst}")
        if ex.paths:
            check.instances_generated += 1
        cover = []
        for i, p in enumerate(ex.paths):
            pi = f"{inst} path={i}"
            pc = p.ctx.pc
            rp = R("c13.get_meta", preds=pl)
            check.ob("get_meta#total", pi, pc, p.outcome == "return", replay=rp)
            if p.outcome != "return":
                continue
            res = p.value
            ok = isinstance(res, list) and all(isinstance(s, str) for s in res)
            check.ob("get_meta#returns-list-of-str", pi, pc, ok, replay=rp)
            if not ok:
                continue
            check.ob("get_meta#no-duplicates", pi, pc, len(res) == len(set(res)), replay=rp)
            for f in FLAGS:
                check.ob(f"get_meta#ensures.{ATTR[f]}", pi, pc, z3.Bool(f"f_{f}") == z3.BoolVal(ATTR[f] in res), replay=rp)
            wp = z3.Bool("f_writes_predicate")
            for n in range(4):
                a = f"HEX_IL_INSN_ATTR_WRITE_P{n}"
                check.ob(f"get_meta#ensures.WRITE_P{n}", pi, pc, z3.And(wp, z3.BoolVal(n in pl)) == z3.BoolVal(a in res), replay=rp)
            none = "HEX_IL_INSN_ATTR_NONE"
            anyflag = z3.Or(*[z3.Bool(f"f_{f}") for f in FLAGS])
            check.ob("get_meta#ensures.NONE-iff-nothing", pi, pc, z3.Not(anyflag) == z3.BoolVal(none in res), replay=rp)
            known = set(ATTR.values()) | {f"HEX_IL_INSN_ATTR_WRITE_P{n}" for n in range(4)} | {none}
            check.ob("get_meta#only-known-attributes", pi, pc, set(res) <= known, replay=rp)
            check.ob("get_meta#modifies", pi, pc, not p.ctx.pre_writes() and not p.ctx.pre_container_writes(), replay=rp)
            cover.append(z3.And(*pc) if pc else z3.BoolVal(True))
        if cover:
            check.ob("get_meta#paths-cover-all-flag-states", inst, [], z3.Or(*cover))

    # ---- get_noped_meta / unimplemented ------------------------------------------------------------------
    if "misc" not in parts:
        return

    def setup(it):
        x = mk_ext(it, [1, 2])
        it.ctx.mark_pre(x)
        return x
    ex = explore(loader, setup, lambda it, x: it.call(it.getattr_(x, "get_noped_meta"), [], {}))
    check.absorb(ex, "get_noped_meta")
    check.instances_declared += 1
    check.instances_generated += 1 if ex.paths else 0
    for i, p in enumerate(ex.paths):
        check.ob("get_noped_meta#ensures", f"path={i}", p.ctx.pc, p.outcome == "return" and p.value == ["HEX_IL_INSN_ATTR_NONE"])
    RI = loader.load("rzilcompiler.Compiler").globals["RZILInstruction"]
    check.under_contract(loader, RI.methods["get_unimplemented_rzil_instr"], RI.methods["__init__"])
    ex = explore(loader, lambda it: None, lambda it, st: it.call(RI.methods["get_unimplemented_rzil_instr"], ["J2_foo"], {}))
    check.absorb(ex, "get_unimplemented_rzil_instr")
    check.instances_declared += 1
    check.instances_generated += 1 if ex.paths else 0
    for i, p in enumerate(ex.paths):
        ok = p.outcome == "return" and isinstance(p.value, Obj) and p.value.fields.get("meta") == [["HEX_IL_INSN_ATTR_INVALID"]]
        check.ob("get_unimplemented_rzil_instr#meta-INVALID", f"path={i}", p.ctx.pc, ok,
                 detail="" if p.outcome == "return" else f"raises {p.value!r}")


class _It:
    """reads the post-state of a finished path (fields, falling back to class-level state)"""

    def __init__(self, p):
        self.p = p
        from pyvc.interp import Interp
        self.it = Interp(p.ctx)

    def __call__(self, x, name):
        return self.it.getattr_(x, name)


# ------------------------------------------------------------------------------------------ callbacks
def reg_items(letter="R", acc=("SRC_REG", "s")):
    return [Token("REG_TYPE", letter), Token(acc[0], acc[1])]


def gen_callbacks(loader, check, replay_on=True):
    T = loader.load(tkit.M_T).globals["RZILTransformer"]
    toks = scan_tokens(loader)
    check.extra["tokens_per_callback"] = {k: v for k, v in sorted(toks.items())}
    verified = {"mem_store": {"writes_mem"}, "mem_load": {"reads_mem"}, "new_reg": {"uses_new"}, "reg": set(),
                "jump": {"branches"}, "selection_stmt": {"is_conditional"}}
    for fn in list(verified) + ["explicit_reg", "reg_alias", "assignment_expr"]:
        check.under_contract(loader, T.methods[fn])
    X = XCls(loader)
    check.under_contract(loader, X.methods["reg_alias"], X.methods["hex_reg"], X.methods["reg"])

    # ground obligation: every *other* callback passes only neutral tokens, and calls no setter directly
    bearing = set(TOKEN_ATTR) | {"explicit_reg", "pred_write"}
    allowed = {"RZILTransformer.mem_store": {"mem_store"}, "RZILTransformer.mem_load": {"mem_load"},
               "RZILTransformer.new_reg": {"new_reg"}, "RZILTransformer.jump": {"jump"},
               "RZILTransformer.selection_stmt": {"selection_stmt"}, "RZILTransformer.explicit_reg": {"explicit_reg"},
               "RZILTransformer.assignment_expr": {"pred_write"}, "HexagonTransformerExtension.reg_alias": {"new_reg"},
               "HexagonTransformerExtension.set_token_meta_data": {"@set_uses_new", "@set_writes_pred", "@set_writes_mem",
                                                                    "@set_reads_mem", "@set_is_conditional", "@set_branches"}}
    for meth, tl in sorted(toks.items()):
        bad = [t for t in tl if (t is None or t in bearing or str(t).startswith("@")) and t not in allowed.get(meth, set())]
        check.ob("callbacks#only-expected-productions-set-attributes", meth, [], not bad,
                 detail=f"{meth} passes attribute-bearing token(s) {bad}")
    check.instances_declared += 1
    check.instances_generated += 1

    def R(kind, **kw):
        if not replay_on:
            return None
        return (kind, lambda mdl: dict(kw, model={k: v for k, v in mdl.items() if isinstance(v, bool)}))

    def run_cb(name, inst, make_items, expect, expect_pred=None, prior=(2,), registered=None):
        check.instances_declared += 1

        def setup(it):
            t = tkit.mk_transformer(it)
            reg = registered(it) if registered else []
            for op in reg:
                nm = it.call(it.getattr_(op, "get_name"), [], {})
                t.fields["il_ops_holder"].fields["read_ops"][nm] = op
            set_ext_state(it, t.fields["ext"], list(prior))
            items = make_items(it, t, reg)
            it.ctx.mark_pre(t)
            return {"t": t, "items": items}

        def run(it, st):
            return it.call(tkit.method(it, st["t"], name), [st["items"]], {})
        ex = explore(loader, setup, run)
        check.absorb(ex, f"{name} {inst}")
        if ex.paths:
            check.instances_generated += 1
        for i, p in enumerate(ex.paths):
            pi = f"{inst} path={i}" if len(ex.paths) > 1 else inst
            rp = R("c13.callback", cb=name, inst=inst)
            check.ob(f"{name}#total", pi, p.ctx.pc, p.outcome == "return", replay=None,
                     detail="" if p.outcome == "return" else f"raises {p.value!r}")
            if p.outcome != "return":
                continue
            it = _It(p)
            epl = list(prior)
            if expect_pred is not None and expect_pred not in epl:
                epl.append(expect_pred)
            state_obligations(check, name, pi, p, p.state["t"].fields["ext"], it, expect, list(prior), epl, None)

    nop = lambda it: it.call(irkit.C(loader, "NOP"), ["nop"], {})
    run_cb("mem_store", "u32", lambda it, t, r: [Token("MEM_STORE", "mem_store_"), Token("SIGN_TYPE", "u"), Token("BIT_WIDTH", "32"),
                                                  irkit.mk_var(it, "EA", (False, 32)), irkit.mk_operand(it, "Variable", (True, 32), "x")],
           {"writes_mem"})
    run_cb("mem_load", "s16", lambda it, t, r: [Token("MEM_LOAD", "mem_load_"), Token("SIGN_TYPE", "s"), Token("BIT_WIDTH", "16"),
                                                 irkit.mk_var(it, "EA", (False, 32))], {"reads_mem"})
    for letter, acc in (("R", ("SRC_REG", "s")), ("P", ("DEST_REG", "d")), ("R", ("SRC_REG_PAIR", "ss")), ("N", ("SRC_REG", "s"))):
        run_cb("new_reg", f"{letter}{acc[1]}", lambda it, t, r, letter=letter, acc=acc: reg_items(letter, acc), {"uses_new"})
        run_cb("reg", f"{letter}{acc[1]}", lambda it, t, r, letter=letter, acc=acc: reg_items(letter, acc), set())
    for nm in ("R31", "P0", "C1:0", "P3"):
        run_cb("explicit_reg", f"{nm} plain", lambda it, t, r, nm=nm: [Token("__ANON", nm), None], set())
        run_cb("explicit_reg", f"{nm}_NEW", lambda it, t, r, nm=nm: [Token("__ANON", nm), Token("_NEW", "_NEW")], {"uses_new"})
    for al in ("UPCYCLE", "PC", "SA0"):
        run_cb("reg_alias", f"{al} plain", lambda it, t, r, al=al: [Token("__ANON", al), None], set())
        run_cb("reg_alias", f"{al}_NEW", lambda it, t, r, al=al: [Token("__ANON", al), Tpl(["_NEW"]) if False else Token("_NEW", "_NEW")], {"uses_new"})
    run_cb("jump", "target", lambda it, t, r: [Token("JUMP", "JUMP"), irkit.mk_operand(it, "Variable", (False, 32), "x")], {"branches"})
    run_cb("selection_stmt", "if", lambda it, t, r: [Token("IF", "if"), irkit.mk_operand(it, "Variable", (True, 32), "c"), nop(it)],
           {"is_conditional"})
    run_cb("selection_stmt", "if-else", lambda it, t, r: [Token("IF", "if"), irkit.mk_operand(it, "CompareOp", (True, 32), "c"), nop(it),
                                                           Token("ELSE", "else"), nop(it)], {"is_conditional"})

    # assignments: WPRED iff the destination is a predicate register, WRITE_Pn for explicit P0..P3 only
    RA = irkit.enum(loader, "Register", "RegisterAccessType")

    def mk_reg(it, name, acc, t, explicit=False):
        return it.call(irkit.C(loader, "Register"), [name, acc, conc_vt(loader, t)], {"is_explicit": explicit})
    dests = [("P0", RA.UNKNOWN, (True, 8), True, {"writes_predicate"}, 0), ("P3", RA.UNKNOWN, (True, 8), True, {"writes_predicate"}, 3),
             ("P1", RA.UNKNOWN, (True, 8), True, {"writes_predicate"}, 1), ("P2", RA.UNKNOWN, (True, 8), True, {"writes_predicate"}, 2),
             ("Pd", RA.W, (True, 8), False, {"writes_predicate"}, None), ("Pe", RA.W, (True, 8), False, {"writes_predicate"}, None),
             ("Rd", RA.W, (True, 32), False, set(), None), ("R31", RA.UNKNOWN, (True, 32), True, set(), None),
             ("Rxx", RA.PRW, (True, 64), False, set(), None)]
    for (nm, acc, t, expl, exp, pn) in dests:
        for prior in ((), (2,), (3, 0, 1)):
            run_cb("assignment_expr", f"dest={nm} prior={list(prior)}",
                   lambda it, t_, r, nm=nm, acc=acc, t=t, expl=expl: [r[0], Token("ASSIGN_OP", "="), irkit.mk_operand(it, "Variable", t, "x")],
                   exp, pn, prior, registered=lambda it, nm=nm, acc=acc, t=t, expl=expl: [mk_reg(it, nm, acc, t, expl)])
    # writes to register aliases are never predicate writes, whatever letter the alias name starts with
    for al in ("PC", "PKTCOUNT", "SP", "UPCYCLE", "P3"):
        run_cb("assignment_expr", f"dest=alias {al}",
               lambda it, t_, r: [r[0], Token("ASSIGN_OP", "="), irkit.mk_operand(it, "Variable", (False, 32), "x")], set(), None, (1,),
               registered=lambda it, al=al: [it.call(irkit.C(loader, "Register"), [al.lower(), RA.UNKNOWN, conc_vt(loader, (False, 32))], {"is_reg_alias": True})])
    run_cb("assignment_expr", "dest=local variable",
           lambda it, t_, r: [r[0], Token("ASSIGN_OP", "="), irkit.mk_operand(it, "Variable", (True, 32), "x")], set(), None, (1,),
           registered=lambda it: [irkit.mk_var(it, "v", (True, 32))])


# ------------------------------------------------------------------------------------------ transform_insn
def transform_stub_factory(log):
    """Assumed contract of lark's Transformer.transform (T-LARK): calls the callbacks of *this part*.
    requires (checked): the per-behaviour state is the initial state when the part starts.
    effect: the callbacks leave the flags in an arbitrary state A_i (fresh symbols per call)."""
    def stub(it, callee, args, kwargs):
        t = args[0]
        x = t.fields["ext"]
        n = sum(1 for e in log if "rendered" not in e)
        pre = {f: it.getattr_(x, f) for f in FLAGS}
        pre["preds_written"] = list(it.getattr_(x, "preds_written"))
        log.append(pre)
        for f in FLAGS:
            x.fields[f] = SBool(z3.Bool(f"A{n}_{f}"))
        lst = it.getattr_(x, "preds_written")
        lst[:] = [[1], [3, 0]][sum(1 for e in log if "rendered" not in e) % 2 - 1]
        return f"return part{n};"
    return stub


def get_meta_stub_factory(log):
    """Contract of get_meta (discharged in gen_extension): returns render(current flags, written predicates).
    Here the result is an opaque token and the state it was rendered from is recorded."""
    def stub(it, f, args, kwargs):
        x = args[0]
        st = {fl: it.getattr_(x, fl) for fl in FLAGS}
        st["preds_written"] = list(it.getattr_(x, "preds_written"))
        k = sum(1 for e in log if "rendered" in e)
        log.append({"rendered": st})
        return [f"<render of state at get_meta call {k}>"]
    return stub


def gen_transform_insn(loader, check, replay_on=True):
    Cm = loader.load("rzilcompiler.Compiler")
    Comp = Cm.globals["Compiler"]
    check.under_contract(loader, Comp.methods["transform_insn"], loader.load(tkit.M_T).globals["RZILTransformer"].methods["reset"])
    PI = loader.load("rzilcompiler.Parser").globals["ParsedInsn"]
    for nparts in (1, 2):
        for noped in (False, True):
            inst = f"parts={nparts} noped={noped}"
            check.instances_declared += 1
            log = []

            def setup(it, nparts=nparts, noped=noped, log=log):
                del log[:]
                c = Obj(Comp)
                t = tkit.mk_transformer(it, stub_add_op=False, symbolic_count=False)
                set_ext_state(it, t.fields["ext"], [2, 1])           # dirty state left by an earlier compilation
                c.fields["transformer"] = t
                c.fields["ext"] = it.call(loader.load(M_X).globals["HexagonCompilerExtension"], [], {})
                c.fields["noped_insns"] = ["J2_foo"] if noped else ["other"]
                c.fields["compiled_insns"] = {}
                trees = [Obj(irkit.C(loader, "Pure"), label=f"tree{i}") for i in range(nparts)]
                for tr in trees:
                    tr.stubs["pretty"] = lambda it_, o, a, k: "tree"
                pi = it.call(PI, ["J2_foo", trees, [f"beh{i}" for i in range(nparts)]], {})
                it.ctx.contracts["Transformer.transform"] = transform_stub_factory(log)
                it.ctx.contracts[f"{M_X}.HexagonTransformerExtension.get_meta"] = get_meta_stub_factory(log)
                return {"c": c, "pi": pi, "t": t}

            def run(it, st):
                return it.call(it.getattr_(st["c"], "transform_insn"), ["J2_foo", st["pi"]], {})
            ex = explore(loader, setup, run)
            check.absorb(ex, f"transform_insn {inst}")
            if ex.paths:
                check.instances_generated += 1
            for i, p in enumerate(ex.paths):
                pi_ = f"{inst} path={i}"
                pc = p.ctx.pc
                check.ob("transform_insn#total", pi_, pc, p.outcome == "return",
                         detail="" if p.outcome == "return" else f"raises {p.value!r}")
                if p.outcome != "return":
                    continue
                ri = p.value
                meta = ri.fields.get("meta") if isinstance(ri, Obj) else None
                check.ob("transform_insn#one-meta-per-part", pi_, pc, isinstance(meta, list) and len(meta) == nparts)
                if not isinstance(meta, list) or len(meta) != nparts:
                    continue
                if noped:
                    check.ob("transform_insn#noped-reports-NONE", pi_, pc, all(m == ["HEX_IL_INSN_ATTR_NONE"] for m in meta))
                    check.ob("transform_insn#noped-not-transformed", pi_, pc, len(log) == 0)
                    continue
                starts = [e for e in log if "rendered" not in e]
                rends = [e["rendered"] for e in log if "rendered" in e]
                check.ob("transform_insn#each-part-transformed-once", pi_, pc, len(starts) == nparts and len(rends) == nparts)
                if len(starts) != nparts or len(rends) != nparts:
                    continue
                for k, pre in enumerate(starts):
                    clean = all(pre[f] is False for f in FLAGS) and pre["preds_written"] == []
                    check.ob("transform_insn#part-starts-from-reset-state", f"{pi_} part={k}", pc, clean,
                             detail=f"state at start of part {k}: " + ", ".join(f"{f}={pre[f]}" for f in FLAGS) + f", preds_written={pre['preds_written']}")
                    # the meta of part k is render(A_k): get_meta is called on exactly the state the part's callbacks left
                    own = all(flag_term(rends[k][f]) is not None and z3.eq(flag_term(rends[k][f]), z3.Bool(f"A{k}_{f}")) for f in FLAGS)
                    check.ob("transform_insn#meta-of-part-is-its-own", f"{pi_} part={k}", pc,
                             own and rends[k]["preds_written"] == [[1], [3, 0]][k % 2] and meta[k] == [f"<render of state at get_meta call {k}>"])
                it = _It(p)
                x = p.state["t"].fields["ext"]
                for f in FLAGS:
                    t_ = flag_term(it(x, f))
                    check.ob("transform_insn#resets-on-exit", f"{pi_} flag={f}", pc, (t_ == z3.BoolVal(False)) if t_ is not None else False)
                check.ob("transform_insn#resets-on-exit", f"{pi_} preds_written", pc, it(x, "preds_written") == [])


# ------------------------------------------------------------------------------------------ replay
@replay.register("c13.set_token")
def replay_set_token(a):
    from rzilcompiler.HexagonExtensions import HexagonTransformerExtension as X
    x = X(None)
    mdl = a.get("model", {})
    for f in FLAGS:
        setattr(x, f, bool(mdl.get(f"f_{f}", False)))
    x.preds_written[:] = a["preds"]
    before = {f: getattr(x, f) for f in FLAGS}
    x.set_token_meta_data(a["token"], **a["kwargs"])
    after = {f: getattr(x, f) for f in FLAGS}
    tok, kw = a["token"], a["kwargs"]
    exp = set()
    epl = list(a["preds"])
    if tok in TOKEN_ATTR:
        exp = {TOKEN_ATTR[tok]}
    elif tok == "explicit_reg" and kw.get("is_new"):
        exp = {"uses_new"}
    elif tok == "pred_write":
        exp = {"writes_predicate"}
        if kw["pred_num"] in (0, 1, 2, 3) and kw["pred_num"] not in epl:
            epl.append(kw["pred_num"])
    want = {f: before[f] or f in exp for f in FLAGS}
    bad = want != after or list(x.preds_written) != epl
    x.preds_written[:] = []
    return bad, f"set_token_meta_data({tok!r}, {kw}) from {before}, preds {a['preds']} -> {after}; expected {want}, preds {epl}"


@replay.register("c13.reset_flags")
def replay_reset_flags(a):
    from rzilcompiler.HexagonExtensions import HexagonTransformerExtension as X
    x = X(None)
    for f in FLAGS:
        setattr(x, f, True)
    x.preds_written[:] = a["preds"]
    x.reset_flags()
    left = list(x.preds_written)
    flags = {f: getattr(x, f) for f in FLAGS}
    y = X(None)    # a second instance, as a second compiler in the same process would create
    seen_by_other = list(y.preds_written)
    x.preds_written[:] = []
    bad = any(flags.values()) or left != []
    return bad, (f"after reset_flags(): flags {flags}, written-predicate list {left} (was {a['preds']}); "
                 f"a fresh second instance sees {seen_by_other}")


@replay.register("c13.get_meta")
def replay_get_meta(a):
    from rzilcompiler.HexagonExtensions import HexagonTransformerExtension as X
    x = X(None)
    mdl = a.get("model", {})
    for f in FLAGS:
        setattr(x, f, bool(mdl.get(f"f_{f}", False)))
    x.preds_written[:] = a["preds"]
    res = x.get_meta()
    want = {ATTR[f] for f in FLAGS if getattr(x, f)}
    if x.writes_predicate:
        want |= {f"HEX_IL_INSN_ATTR_WRITE_P{n}" for n in a["preds"]}
    if not want:
        want = {"HEX_IL_INSN_ATTR_NONE"}
    x.preds_written[:] = []
    return set(res) != want or len(res) != len(set(res)), f"get_meta() = {res}, expected set {sorted(want)}"


# ------------------------------------------------------------------------------------------
def gen_task(loader, check, what, replay_on=True, parts=None, lists=None):
    if what == "extension":
        gen_extension(loader, check, replay_on, parts, lists)
    else:
        {"callbacks": gen_callbacks, "transform_insn": gen_transform_insn}[what](loader, check, replay_on)


def tasks_for(tier):
    full = PRED_LISTS
    sub = [list(c) for k in range(5) for c in itertools.combinations(range(4), k)] + [[3, 0], [2, 1, 0], [1, 3, 2, 0], [3, 1]]
    gm = full if tier == "thorough" else sub
    ts = [{"what": "extension", "parts": ["inventory", "misc"]}, {"what": "callbacks"}, {"what": "transform_insn"}]
    n = 6
    for i in range(n):
        ts.append({"what": "extension", "parts": ["set", "reset"], "lists": full[i::n]})
        ts.append({"what": "extension", "parts": ["get_meta"], "lists": gm[i::n]})
    return ts


def generate_reduced(loader, check):
    global PRED_LISTS
    saved = PRED_LISTS
    PRED_LISTS = [[], [1], [3, 0], [0, 1, 2, 3]]
    try:
        gen_extension(loader, check, False)
        gen_callbacks(loader, check, False)
        gen_transform_insn(loader, check, False)
    finally:
        PRED_LISTS = saved


def run(check: Check):
    check.trust("T-VCGEN: pyvc interpretation of the Python subset (mitigated by mutant self-test and native replay)")
    check.trust("T-HEX: attribute table (token -> attribute) transcribed from the property statement")
    check.trust("T-LARK: Transformer.transform calls exactly the callbacks of the given tree (assumed contract: havocs the "
                "flags of the part being transformed; its precondition 'state is reset' is checked)")
    check.assume("prior history = any values of the six flags (symbolic Booleans) and any duplicate-free list over {0..3} "
                 "(all 65 enumerated) - the representation invariant of the written-predicate list")
    check.assume("callbacks not run symbolically are covered by the mechanical token scan: they pass only neutral tokens, "
                 "and set_token_meta_data is proved to change nothing for every neutral token and an arbitrary other token")
    check.run_parallel("contracts.c13", "gen_task", tasks_for(check.tier), workers=WORKERS)
    run_mutants(check, MUTANTS, "contracts.c13", "generate_reduced")
    return check.finish(
        level="proof",
        rule="one obligation per (function, token / prior written-predicate list / destination, path, clause); flags symbolic")
