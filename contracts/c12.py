"""C12 - IL node ownership is linear: one consuming use, DUP for the rest.

Local linearity contracts (all on the real functions):
  * variable-backed pures (GlobalVar/Register, Parameter, Immediate): il_read() returns the bare C variable
    iff it is the first use, DUP(var) otherwise - for EVERY read history (symbolic counter);
    locals are read through fresh VARL nodes; inlined pures re-render their expression;
  * atom linearity of every emitting function: each text obtained from a child's il_read() / effect_var()
    occurs exactly once in the returned text;
  * every il_init_var() result is appended exactly once by the emit loops (fold invariants over holder tables
    of any size), PureExec / Hybrid declare at most once;
  * callbacks consume their children: every operand a callback receives is an operand of the node it returns
    (or is unregistered), so nothing that gets declared is left unused.
Lemma (solver-free, over the contracts; T-IND): if all templates are atom-linear and every il_read result is
embedded in an emitted initialiser, each pure variable has exactly one raw use and each effect variable one use.
"""
from __future__ import annotations
import z3
from lark import Token

from pyvc.interp import explore, NativeAbs, AbsSeq, AbsCat, AbsAcc, LoopContract
from pyvc.loader import Loader
from pyvc.values import Obj, Tpl, Atom, SInt, Unsupported
from pyvc.vc import Check
from pyvc import replay
from spec import ir
from . import irkit, tkit, emit, c02, c03, c05, catalog
from .common import WORKERS, conc_vt, tname, run_mutants

PROP = "C12"
FILTER = (r"#atom-linearity|#raw|declared-at-most-once|source-read-once|every-effect-once|#loop|#children|#total|inlined-nodes-declare-nothing|#decl\.count|#emit|"
          r"read exactly once|read counter advances|first read raw|each value argument read exactly once|dead-arm-side-effect")

MUTANTS = [
    {"name": "PureExec.il_read: DUP only from the third use on", "file": "rzilcompiler/Transformer/Pures/PureExec.py",
     "old": "        if self.reads > 1:\n            return f\"DUP({self.pure_var()})\"", "new": "        if self.reads > 2:\n            return f\"DUP({self.pure_var()})\""},
    {"name": "GlobalVar.il_read: counter incremented before the test (first use already DUP)", "file": "rzilcompiler/Transformer/Pures/GlobalVar.py",
     "old": "        if self.reads < 1:  # First use of this variable\n            ret = self.pure_var()\n        else:\n            ret = f\"DUP({self.pure_var()})\"\n\n        self.reads += 1",
     "new": "        self.reads += 1\n        if self.reads < 1:  # First use of this variable\n            ret = self.pure_var()\n        else:\n            ret = f\"DUP({self.pure_var()})\"\n"},
    {"name": "Parameter.il_read: never DUPs", "file": "rzilcompiler/Transformer/Pures/Parameter.py",
     "old": "        if self.reads <= 1 or not self.value_type.group & VTGroup.PURE:", "new": "        if True:"},
    {"name": "PureExec.il_init_var: declared on every call", "file": "rzilcompiler/Transformer/Pures/PureExec.py",
     "old": "        if self.init_counter > 0:", "new": "        if self.init_counter > 1:"},
    {"name": "Cast.il_exec: operand read once but embedded twice", "file": "rzilcompiler/Transformer/Pures/Cast.py",
     "old": "        if self.value_type.signed and self.ops[0].value_type.signed:\n            fill_bit = f\"MSB({self.ops[0].il_read()})\"",
     "new": "        if self.value_type.signed and self.ops[0].value_type.signed:\n            r = self.ops[0].il_read()\n            return f\"CAST({self.value_type.bit_width}, MSB({r}), {r})\""},
    {"name": "Ternary.il_exec: else arm read but dropped", "file": "rzilcompiler/Transformer/Pures/Ternary.py",
     "old": 'return f"ITE({cond}, {self.ops[1].il_read()}, {self.ops[2].il_read()})"', "new": 'self.ops[2].il_read()\n        return f"ITE({cond}, {self.ops[1].il_read()}, {self.ops[1].il_read()})"'},
    {"name": "emit_read_block: initialiser appended twice", "file": "rzilcompiler/Transformer/RZILTransformer.py",
     "old": "            read_op = op.il_init_var()\n            if not read_op:\n                continue\n            res += read_op + \"\\n\"", "new": "            read_op = op.il_init_var()\n            if not read_op:\n                continue\n            res += read_op + \"\\n\" + read_op + \"\\n\""},
    {"name": "emit_exec_block: initialiser obtained but not appended", "file": "rzilcompiler/Transformer/RZILTransformer.py",
     "old": "            exec_op = op.il_init_var()\n            if not exec_op:\n                continue\n            res += exec_op + \"\\n\"", "new": "            exec_op = op.il_init_var()\n            if not exec_op:\n                continue\n            res += \"\\n\""},
    {"name": "emit_stmt_blocks: operands of a statement ordered by name instead of creation number", "file": "rzilcompiler/Transformer/RZILTransformer.py",
     "old": "key=lambda x: x.num_id", "new": "key=lambda x: x.name"},
    {"name": "emit_stmt_blocks: an already declared operand ends the statement's operand loop", "file": "rzilcompiler/Transformer/RZILTransformer.py",
     "old": "                if not op_init:\n                    continue\n                res += op_init", "new": "                if not op_init:\n                    break\n                res += op_init"},
    {"name": "emit_write_block: hybrids skipped", "file": "rzilcompiler/Transformer/RZILTransformer.py",
     "old": "                hybrid_init = op.il_init_var()\n                if not hybrid_init:\n                    continue\n                res += hybrid_init + \"\\n\"\n                continue", "new": "                continue"},
    {"name": "Sequence.il_write: first effect referenced twice", "file": "rzilcompiler/Transformer/Effects/Sequence.py",
     "old": '{", ".join([e.effect_var() for e in self.effects])}', "new": '{", ".join([self.effects[0].effect_var()] + [e.effect_var() for e in self.effects][:-1])}'},
    {"name": "Assignment.il_write: source read twice", "file": "rzilcompiler/Transformer/Effects/Assignment.py",
     "old": "        else:\n            read = self.src.il_read()\n        if self.type", "new": "        else:\n            self.src.il_read()\n            read = self.src.il_read()\n        if self.type"},
    {"name": "mem_load: address operand not attached to the load", "file": "rzilcompiler/Transformer/RZILTransformer.py",
     "old": '        return self.add_op(MemLoad(f"ml_{va.get_name()}", va, mem_acc_type))', "new": '        return self.add_op(MemLoad(f"ml_{va.get_name()}", Variable("EA", ValueType(False, 32)), mem_acc_type))'},
]


# ------------------------------------------------------------------------------------------ emit loops
class InitStubOp:
    pass


def mk_abstract_op(it, kind, label, loader):
    """holder entry whose il_init_var() is replaced by its contract: returns '' or a declaration text (atom)"""
    cls = {"pure": "Variable", "exec": "ArithmeticOp", "effect": "Assignment", "hybrid": "PostfixIncDec"}[kind]
    if cls == "Variable":
        o = irkit.mk_var(it, label, (True, 32))
    elif cls == "ArithmeticOp":
        AT = irkit.enum(loader, "ArithmeticOp", "ArithmeticType")
        o = it.call(irkit.C(loader, "ArithmeticOp"), [label, irkit.mk_var(it, label + "_a", (True, 32)), irkit.mk_var(it, label + "_b", (True, 32)), AT("+")], {})
    elif cls == "Assignment":
        ATy = irkit.enum(loader, "Assignment", "AssignmentType")
        o = it.call(irkit.C(loader, "Assignment"), [label, ATy("="), irkit.mk_var(it, label + "_d", (True, 32)), irkit.mk_var(it, label + "_s", (True, 32))], {})
    else:
        HT = irkit.enum(loader, "Hybrid", "HybridType")
        v = irkit.mk_var(it, label + "_v", (True, 32))
        o = it.call(irkit.C(loader, "PostfixIncDec"), [label, v, v.fields["value_type"], HT("++")], {})
    o.label = label
    ne = z3.Bool(f"nonempty!{label}")

    def init_stub(it_, obj, args, kwargs):
        n = obj.ghost["ninit"] = obj.ghost.get("ninit", 0) + 1
        return Tpl([Atom(label, n, nonempty=ne, kind="init")])
    o.stubs["il_init_var"] = init_stub
    o.stubs["__str__"] = irkit.str_stub
    o.ghost["nonempty"] = ne
    return o


class TableLoop(LoopContract):
    """for op in holder.<table>.values():   invariant  res == res0 ++ concat(init(op) + NL for op in prefix if init(op) != '')"""

    def __init__(self, loader, fn, kinds, skip_hybrid=False, var="res"):
        self.loader = loader
        self.name = fn
        self.kinds = kinds
        self.skip_hybrid = skip_hybrid

    def element_kinds(self):
        return self.kinds

    def havoc_prefix(self, it, env, seq):
        env.vars["res"] = Tpl([Atom("res_prefix", 0, kind="prefix")])

    def make_element(self, it, kind, seq):
        return mk_abstract_op(it, kind, "op_k", self.loader)

    def check_step(self, it, env, seq, kind, elem, broke):
        res = env.vars.get("res")
        ninit = elem.ghost.get("ninit", 0)
        parts = res.parts if isinstance(res, Tpl) else None
        ok_pref = parts is not None and isinstance(parts[0], Atom) and parts[0].kind == "prefix"
        tail = parts[1:] if ok_pref else None
        ne = elem.ghost["nonempty"]
        skipped = self.skip_hybrid and kind == "hybrid"
        if skipped:
            self.oblige(it, f"{self.name}#loop.step: hybrids are declared by the write block only", f"element={kind}", ok_pref and tail == [] and ninit == 0)
            return
        appended = ok_pref and len(tail) == 2 and isinstance(tail[0], Atom) and tail[0].tag == "op_k" and tail[0].kind == "init" and tail[1] == "\n"
        unchanged = ok_pref and tail == []
        self.oblige(it, f"{self.name}#loop.step: initialiser obtained exactly once", f"element={kind}", ninit == 1, detail=f"il_init_var() called {ninit} times")
        self.oblige(it, f"{self.name}#loop.step: a non-empty initialiser is appended exactly once followed by a newline", f"element={kind}",
                    z3.Implies(ne, z3.BoolVal(bool(appended))), detail=f"tail {tail}")
        self.oblige(it, f"{self.name}#loop.step: an empty initialiser appends nothing", f"element={kind}",
                    z3.Implies(z3.Not(ne), z3.BoolVal(bool(unchanged))), detail=f"tail {tail}")

    def havoc_exit(self, it, env, seq):
        env.vars["res"] = Tpl([Atom("res_all", 0, kind="prefix", meta={"all": True})])


class TableAbs(NativeAbs):
    pytype = dict

    def __init__(self, seq):
        self.seq = seq

    def getattr(self, it, name):
        if name == "values":
            return _Ret(self.seq)
        raise Unsupported(f"dict.{name} on abstract holder table")


class _Ret(NativeAbs):
    def __init__(self, v):
        self.v = v

    def call(self, it, args, kwargs):
        return self.v


def gen_emit_loops(loader, check, replay_on=True):
    T = loader.load(tkit.M_T).globals["RZILTransformer"]
    for fn, table, kinds, skip, header in (("emit_read_block", "read_ops", ["pure"], False, "\n// READ\n"),
                                           ("emit_exec_block", "exec_ops", ["exec", "hybrid"], True, "\n// EXEC\n"),
                                           ("emit_write_block", "write_ops", ["effect", "hybrid"], False, "\n// WRITE\n")):
        check.under_contract(loader, T.methods[fn])
        check.instances_declared += 1

        def setup(it, fn=fn, table=table, kinds=kinds, skip=skip):
            t = tkit.mk_transformer(it)
            h = t.fields["il_ops_holder"]
            seq = AbsSeq(f"{table}.values", TableLoop(loader, fn, kinds, skip))
            it.ctx.assume(seq.length >= 0)
            h.fields[table] = TableAbs(seq)
            return {"t": t, "h": h}
        ex = explore(loader, setup, lambda it, st, fn=fn: it.call(tkit.method(it, st["t"], fn), [st["h"], "RES0"], {}))
        check.absorb(ex, fn)
        if ex.paths:
            check.instances_generated += 1
        seen = set()
        for i, p in enumerate(ex.paths):
            pi = f"table=any-size path={i}"
            check.path_obligations(p, pi)
            seen.add(p.outcome)
            if p.outcome == "return":
                r = p.value
                ok = isinstance(r, Tpl) and len(r.parts) == 1 and isinstance(r.parts[0], Atom) and r.parts[0].meta.get("all")
                check.ob(f"{fn}#emit.result-is-the-fold-over-the-whole-table", pi, p.ctx.pc, bool(ok), detail=repr(r))
            elif p.outcome == "raise":
                check.ob(f"{fn}#total", pi, p.ctx.pc, False, detail=f"raises {p.value!r}")
        check.ob(f"{fn}#loop.paths", "any", [], {"loop-step", "return"} <= seen, detail=str(seen))
        # base: the header comment is appended before the loop
        check.instances_declared += 1

        def setup0(it, fn=fn, table=table):
            t = tkit.mk_transformer(it)
            return {"t": t, "h": t.fields["il_ops_holder"]}
        ex = explore(loader, setup0, lambda it, st, fn=fn: it.call(tkit.method(it, st["t"], fn), [st["h"], "RES0"], {}))
        check.absorb(ex, f"{fn} empty table")
        if ex.paths:
            check.instances_generated += 1
        for p in ex.paths:
            check.ob(f"{fn}#emit.base: empty table yields res0 + header", "empty", p.ctx.pc, p.outcome == "return" and p.value == "RES0" + header, detail=repr(p.value))

    # emit_stmt_blocks: per effect, its exec operands (sorted by num_id) then the effect; ground shapes of the statement list first
    check.under_contract(loader, T.methods["emit_stmt_blocks"], irkit.C(loader, "Effect").methods["get_exec_op_list"])
    for shape in ("1 effect, 0 exec ops", "1 effect, 2 exec ops", "2 effects sharing an exec op", "effect with empty init (Empty)",
                  "1 effect, exec ops numbered 9 and 10", "1 effect, exec ops numbered 99 and 100", "2 effects that print identically"):
        check.instances_declared += 1

        def setup(it, shape=shape):
            t = tkit.mk_transformer(it)
            h = t.fields["il_ops_holder"]
            AT = irkit.enum(loader, "ArithmeticOp", "ArithmeticType")
            ATy = irkit.enum(loader, "Assignment", "AssignmentType")

            def pe(label, nid, a=None, b=None):
                a = a or irkit.mk_var(it, label + "_a", (True, 32))
                b = b or irkit.mk_var(it, label + "_b", (True, 32))
                o = it.call(irkit.C(loader, "ArithmeticOp"), [label, a, b, AT("+")], {})
                o.fields["num_id"] = nid
                o.label = label

                def init_stub(it_, obj, args, kwargs):
                    n = obj.ghost["ninit"] = obj.ghost.get("ninit", 0) + 1
                    return Tpl([Atom(label, n, nonempty=(n == 1), kind="init")]) if n == 1 else ""
                o.stubs["il_init_var"] = init_stub
                return o

            def eff(label, src):
                e = it.call(irkit.C(loader, "Assignment"), [label, ATy("="), irkit.mk_var(it, label + "_d", (True, 32)), src], {})
                e.label = label
                e.stubs["il_init_var"] = lambda it_, obj, args, kwargs: Tpl([Atom(label, 1, kind="init")])
                e.stubs["__str__"] = irkit.str_stub
                return e
            order = []
            if shape.startswith("1 effect, 0"):
                e = eff("e0", irkit.mk_var(it, "x", (True, 32)))
                h.fields["write_ops"]["e0"] = e
                order = ["e0"]
            elif shape.startswith("1 effect, 2"):
                inner = pe("p5", 5)
                outer = pe("p7", 7, a=inner)
                e = eff("e0", outer)
                h.fields["write_ops"]["e0"] = e
                order = ["p5", "p7", "e0"]
            elif "numbered" in shape:
                # creation ids whose decimal strings do not sort like the numbers: the inner (older) operand is declared first
                lo = 9 if "9 and 10" in shape else 99
                inner = pe(f"p{lo}", lo)
                outer = pe(f"p{lo + 1}", lo + 1, a=inner)
                inner.fields["name"], outer.fields["name"] = f"op_ADD_{lo}", f"op_MUL_{lo + 1}"
                e = eff("e0", outer)
                h.fields["write_ops"]["e0"] = e
                order = [f"p{lo}", f"p{lo + 1}", "e0"]
            elif shape.startswith("2 effects that print"):
                # two statements with the same printed form (a repeated statement): both blocks are emitted
                e0, e1 = eff("e0", pe("p3", 3)), eff("e1", pe("p4", 4))
                same = lambda it_, obj, args, kwargs: "Rd = (a + b)"      # noqa: E731
                e0.stubs["__str__"] = same
                e1.stubs["__str__"] = same
                h.fields["write_ops"]["e0"] = e0
                h.fields["write_ops"]["e1"] = e1
                order = ["p3", "e0", "p4", "e1"]
            elif shape.startswith("2 effects"):
                sh = pe("p3", 3)
                e0, e1 = eff("e0", sh), eff("e1", sh)
                h.fields["write_ops"]["e0"] = e0
                h.fields["write_ops"]["e1"] = e1
                order = ["p3", "e0", "e1"]
            else:
                e = it.call(irkit.C(loader, "Empty"), ["empty"], {})
                h.fields["write_ops"]["empty"] = e
                order = []
            return {"t": t, "h": h, "order": order}
        ex = explore(loader, setup, lambda it, st: it.call(tkit.method(it, st["t"], "emit_stmt_blocks"), [st["h"], "RES0"], {}))
        check.absorb(ex, f"emit_stmt_blocks {shape}")
        if ex.paths:
            check.instances_generated += 1
        for i, p in enumerate(ex.paths):
            check.ob("emit_stmt_blocks#total", shape, p.ctx.pc, p.outcome == "return", detail="" if p.outcome == "return" else f"raises {p.value!r}")
            if p.outcome == "return":
                t = emit.as_tpl(p.value)
                tags = [a.tag for a in t.atoms() if a.kind == "init"]
                check.ob("emit_stmt_blocks#emit.every-initialiser-once-operands-before-their-effect", shape, p.ctx.pc, tags == p.state["order"], detail=str(tags))
    # any table, any number of operands per statement: nested fold invariants (the seven shapes above stay as ground instances)
    gen_stmt_blocks_unbounded(loader, check)


# ------------------------------------------------------------------------------------------ emit_stmt_blocks, any table
class StmtBuildLoop(LoopContract):
    """first loop of emit_stmt_blocks   for effect in holder.write_ops.values():
    invariant  statements == [ sorted(execlist(e_i), key=num_id) ++ [e_i]  for e_i in prefix ]   (same order, nothing else)"""
    name = "emit_stmt_blocks.collect"

    def __init__(self, loader):
        self.loader = loader
        self.marker = AbsSeq("statements_prefix")

    def element_kinds(self):
        return ["effect", "hybrid"]

    def check_entry(self, it, env, seq):
        self.oblige(it, "emit_stmt_blocks#loop.base: the statement list starts empty", "", env.vars.get("statements") == [])
        self.res0 = env.vars.get("res")

    def havoc_prefix(self, it, env, seq):
        env.vars["statements"] = [self.marker]

    def make_element(self, it, kind, seq):
        return mk_stmt_effect(it, kind, "e_k", self.loader, None)

    def check_step(self, it, env, seq, kind, elem, broke):
        st = env.vars.get("statements")
        inst = f"element={kind}"
        shape = isinstance(st, list) and len(st) == 2 and st[0] is self.marker and isinstance(st[1], AbsCat) and not broke
        self.oblige(it, "emit_stmt_blocks#loop.step: exactly one statement is appended per table entry, earlier ones untouched", inst, bool(shape), detail=repr(st))
        if not shape:
            return
        cat = st[1]
        src = cat.base.meta.get("sorted_of")
        self.oblige(it, "emit_stmt_blocks#loop.step: the statement is the effect's own executable operand list, sorted, followed by the effect itself", inst,
                    src is elem.ghost.get("execlist") and len(cat.tail) == 1 and cat.tail[0] is elem and not cat.base.meta.get("reverse"),
                    detail=f"base {cat.base.name} tail {cat.tail!r}")
        key = cat.base.meta.get("sorted_key")
        nid = SInt(z3.Int("probe_num_id"))
        probe = mk_abstract_op(it, "exec", "probe", self.loader)
        probe.fields["num_id"] = nid
        r = it.call(key, [probe], {}) if key is not None else None
        self.oblige(it, "emit_stmt_blocks#loop.step: operands are ordered by their creation number (an integer)", inst,
                    (r.t == nid.t) if isinstance(r, SInt) else False, detail=f"key(probe) = {r!r}")
        self.oblige(it, "emit_stmt_blocks#loop.step: collecting the operands obtains the list once and declares nothing yet", inst,
                    elem.ghost.get("nexec", 0) == 1 and elem.ghost.get("ninit", 0) == 0, detail=f"get_exec_op_list x{elem.ghost.get('nexec', 0)}, il_init_var x{elem.ghost.get('ninit', 0)}")
        self.oblige(it, "emit_stmt_blocks#loop.step: nothing is emitted while collecting", inst, env.vars.get("res") == self.res0, detail=repr(env.vars.get("res")))

    def havoc_exit(self, it, env, seq):
        env.vars["statements"] = AbsSeq("statements", StmtLoop(self.loader), length=seq.length)


def mk_stmt_effect(it, kind, label, loader, inner):
    e = mk_abstract_op(it, kind, label, loader)
    lst = AbsSeq(f"execlist({label})", inner)
    it.ctx.assume(lst.length >= 0)
    e.ghost["execlist"] = lst

    def exec_stub(it_, obj, args, kwargs):
        obj.ghost["nexec"] = obj.ghost.get("nexec", 0) + 1
        return lst
    e.stubs["get_exec_op_list"] = exec_stub
    return e


class StmtOpLoop(LoopContract):
    """inner loop   for op in stmt[:-1]:   invariant  res == res_at_entry ++ concat(init(op) + NL for op in prefix if init(op) != '')"""
    name = "emit_stmt_blocks.operands"

    def __init__(self, loader):
        self.loader = loader
        self.entry = None

    def element_kinds(self):
        return ["exec"]

    def check_entry(self, it, env, seq):
        self.entry = env.vars.get("res")

    def havoc_prefix(self, it, env, seq):
        env.vars["res"] = Tpl([Atom("res_prefix", 0, kind="prefix")])

    def make_element(self, it, kind, seq):
        return mk_abstract_op(it, "exec", "op_j", self.loader)

    def check_step(self, it, env, seq, kind, elem, broke):
        res = env.vars.get("res")
        ninit = elem.ghost.get("ninit", 0)
        parts = res.parts if isinstance(res, Tpl) else None
        ok_pref = parts is not None and isinstance(parts[0], Atom) and parts[0].kind == "prefix" and not broke
        tail = parts[1:] if ok_pref else None
        ne = elem.ghost["nonempty"]
        appended = ok_pref and len(tail) == 2 and isinstance(tail[0], Atom) and tail[0].tag == "op_j" and tail[0].kind == "init" and tail[1] == "\n"
        unchanged = ok_pref and tail == []
        inst = "operand=any"
        self.oblige(it, "emit_stmt_blocks#loop.step(operands): initialiser obtained exactly once", inst, ninit == 1, detail=f"il_init_var() called {ninit} times")
        self.oblige(it, "emit_stmt_blocks#loop.step(operands): a non-empty initialiser is appended exactly once followed by a newline", inst,
                    z3.Implies(ne, z3.BoolVal(bool(appended))), detail=f"tail {tail}")
        self.oblige(it, "emit_stmt_blocks#loop.step(operands): an already declared operand (empty initialiser) appends nothing", inst,
                    z3.Implies(z3.Not(ne), z3.BoolVal(bool(unchanged))), detail=f"tail {tail}")

    def havoc_exit(self, it, env, seq):
        entry = emit.as_tpl(self.entry) if self.entry is not None else Tpl([])
        env.vars["res"] = Tpl(list(entry.parts) + [Atom("operands_all", 0, kind="fold", meta={"seq": seq})])


class StmtLoop(LoopContract):
    """second loop   for stmt in statements:   invariant  res == res0 ++ concat(block(s) for s in prefix)  with
    block(s) = '' if init(effect(s)) == '' else  comment(effect) ++ fold(operands(s)) ++ init(effect) ++ NL"""
    name = "emit_stmt_blocks.emit"

    def __init__(self, loader):
        self.loader = loader

    def element_kinds(self):
        return ["effect", "hybrid"]

    def check_entry(self, it, env, seq):
        self.oblige(it, "emit_stmt_blocks#loop.base: emission starts from the text passed in", "", env.vars.get("res") == "RES0", detail=repr(env.vars.get("res")))

    def havoc_prefix(self, it, env, seq):
        env.vars["res"] = Tpl([Atom("res_prefix", 0, kind="prefix")])

    def make_element(self, it, kind, seq):
        self.inner = StmtOpLoop(self.loader)
        self.eff = mk_stmt_effect(it, kind, "e_k", self.loader, self.inner)
        base = AbsSeq("sorted(execlist(e_k))", self.inner, length=self.eff.ghost["execlist"].length)
        self.base = base
        return AbsCat(base, [self.eff])

    def check_step(self, it, env, seq, kind, elem, broke):
        res = env.vars.get("res")
        e = self.eff
        inst = f"element={kind}"
        parts = res.parts if isinstance(res, Tpl) else None
        ok_pref = parts is not None and parts and isinstance(parts[0], Atom) and parts[0].kind == "prefix" and not broke
        tail = Tpl(parts[1:]) if ok_pref else None
        ne = e.ghost["nonempty"]

        def show(a):
            if a.kind == "fold":
                return "<operands>" if a.meta.get("seq") is self.base else "<other-fold>"
            return f"<{a.kind}:{a.tag}#{a.ordinal}>"
        txt = tail.render(show) if tail is not None else None
        want = "\n// <str:e_k#0>;\n<operands><init:e_k#1>\n"
        self.oblige(it, "emit_stmt_blocks#loop.step: the effect's initialiser is obtained exactly once", inst, e.ghost.get("ninit", 0) == 1, detail=f"il_init_var() called {e.ghost.get('ninit', 0)} times")
        self.oblige(it, "emit_stmt_blocks#loop.step: block = comment, the operands' initialisers in list order, then the effect's initialiser and a newline", inst,
                    z3.Implies(ne, z3.BoolVal(txt == want)), detail=repr(txt))
        self.oblige(it, "emit_stmt_blocks#loop.step: an effect without initialiser emits nothing (its operands are not declared either)", inst,
                    z3.Implies(z3.Not(ne), z3.BoolVal(txt == "")), detail=repr(txt))
        self.oblige(it, "emit_stmt_blocks#loop.step: the operand list is not re-computed while emitting", inst, e.ghost.get("nexec", 0) == 0)

    def havoc_exit(self, it, env, seq):
        env.vars["res"] = Tpl([Atom("res_all", 0, kind="prefix", meta={"all": True})])


def gen_stmt_blocks_unbounded(loader, check):
    T = loader.load(tkit.M_T).globals["RZILTransformer"]
    check.instances_declared += 1

    def setup(it):
        t = tkit.mk_transformer(it)
        h = t.fields["il_ops_holder"]
        seq = AbsSeq("write_ops.values", StmtBuildLoop(loader))
        it.ctx.assume(seq.length >= 0)
        h.fields["write_ops"] = TableAbs(seq)
        return {"t": t, "h": h}
    ex = explore(loader, setup, lambda it, st: it.call(tkit.method(it, st["t"], "emit_stmt_blocks"), [st["h"], "RES0"], {}))
    check.absorb(ex, "emit_stmt_blocks any table")
    if ex.paths:
        check.instances_generated += 1
    seen = {}
    for i, p in enumerate(ex.paths):
        pi = f"table=any-size path={i}"
        check.path_obligations(p, pi)
        seen[p.outcome] = seen.get(p.outcome, 0) + 1
        if p.outcome == "return":
            r = p.value
            ok = isinstance(r, Tpl) and len(r.parts) == 1 and isinstance(r.parts[0], Atom) and r.parts[0].meta.get("all")
            check.ob("emit_stmt_blocks#emit.result-is-the-fold-over-all-statements", pi, p.ctx.pc, bool(ok), detail=repr(r))
        elif p.outcome == "raise":
            check.ob("emit_stmt_blocks#total", pi, p.ctx.pc, False, detail=f"raises {p.value!r}")
    # 2 kinds collecting + (2 kinds x {empty, non-empty}) emitting + 2 x operand steps at least
    check.ob("emit_stmt_blocks#loop.paths", "any", [], seen.get("loop-step", 0) >= 8 and seen.get("return", 0) >= 1, detail=str(seen))


# ------------------------------------------------------------------------------------------ children are consumed
def transitive_ops(o, seen=None):
    seen = seen if seen is not None else set()
    if not isinstance(o, Obj) or o.oid in seen:
        return seen
    seen.add(o.oid)
    for f in ("ops", "effect_ops"):
        for ch in (o.fields.get(f) or []):
            transitive_ops(ch, seen)
    for f in ("dest", "src", "va", "data_var", "target", "cond", "then", "otherwise", "control", "compound"):
        if f in o.fields:
            transitive_ops(o.fields[f], seen)
    return seen


def gen_children(loader, check, replay_on=True):
    T = loader.load(tkit.M_T).globals["RZILTransformer"]
    RA = irkit.enum(loader, "Register", "RegisterAccessType")

    def reg(it, name, t=(True, 32), acc=None):
        return it.call(irkit.C(loader, "Register"), [name, acc or RA.R, conc_vt(loader, t)], {})

    cases = [
        ("additive_expr", lambda it, a, b: [a, Token("ADD_OP", "+"), b]),
        ("multiplicative_expr", lambda it, a, b: [a, Token("MUL_OP", "*"), b]),
        ("and_expr", lambda it, a, b: [a, Token("BIT_AND_OP", "&"), b]),
        ("shift_expr", lambda it, a, b: [a, Token("LEFT_OP", "<<"), b]),
        ("relational_expr", lambda it, a, b: [a, Token("LT_OP", "<"), b]),
        ("logical_and_expr", lambda it, a, b: [a, Token("AND_OP", "&&"), b]),
        ("conditional_expr", lambda it, a, b: [irkit.mk_operand(it, "CompareOp", (True, 32), "c"), a, b]),
        ("unary_expr", lambda it, a, b: [Token("UNARY_OP", "~"), a]),
        ("cast_expr", lambda it, a, b: [conc_vt(loader, (False, 64)), a]),
        ("mem_load", lambda it, a, b: [Token("MEM_LOAD", "mem_load_"), Token("SIGN_TYPE", "s"), Token("BIT_WIDTH", "16"), a]),
        ("mem_store", lambda it, a, b: [Token("MEM_STORE", "mem_store_"), Token("SIGN_TYPE", "u"), Token("BIT_WIDTH", "32"), a, b]),
        ("jump", lambda it, a, b: [Token("JUMP", "JUMP"), a]),
        ("c_call(sizeof)", lambda it, a, b: ["sizeof", a]),
    ]
    for name, mk in cases:
        cb = name.split("(")[0]
        check.under_contract(loader, T.methods[cb])
        check.instances_declared += 1

        def setup(it, mk=mk):
            a, b = reg(it, "Rs"), reg(it, "Rt")
            t = tkit.mk_transformer(it, registered=[a, b])
            items = mk(it, a, b)
            used = [x for x in (a, b) if any(x is y for y in items)]
            it.ctx.mark_pre(t)
            return {"t": t, "items": items, "children": used}
        ex = explore(loader, setup, lambda it, st, cb=cb: it.call(tkit.method(it, st["t"], cb), [st["items"]], {}))
        check.absorb(ex, f"children {name}")
        if ex.paths:
            check.instances_generated += 1
        for i, p in enumerate(ex.paths):
            pi = f"{name} register-operands"
            check.ob(f"{cb}#total", pi, p.ctx.pc, p.outcome == "return", detail="" if p.outcome == "return" else f"raises {p.value!r}")
            if p.outcome != "return":
                continue
            reach = transitive_ops(p.value)
            h = p.state["t"].fields["il_ops_holder"]
            lost = []
            for ch in p.state["children"]:
                still_registered = any(v is ch for d in ("read_ops", "exec_ops", "write_ops") for v in h.fields[d].values())
                if ch.oid not in reach and still_registered:
                    lost.append(repr(ch))
            rp = ("c12.unused", lambda mdl, name=name: {"case": name}) if replay_on and name == "c_call(sizeof)" else None
            check.ob(f"{cb}#children: every registered operand is consumed by the returned node", pi, p.ctx.pc, not lost, replay=rp,
                     detail=f"registered but not referenced by the result: {lost}")


@replay.register("c12.unused")
def replay_unused(a):
    c = irkit.real_compiler()
    txt = c.compile_c_stmt("{ RdV = sizeof(RssV); }")
    decl = [l for l in txt.splitlines() if l.startswith("RzILOpPure *Rss =")]
    uses = [l for l in txt.splitlines() if "Rss" in l and not l.startswith("RzILOpPure *Rss =") and "Rss_op" not in l.replace("Rss_op = ISA2REG", "") and not l.startswith("//")]
    uses = [l for l in uses if " Rss" in l or "(Rss" in l or ", Rss" in l]
    return bool(decl) and not uses, f"{{ RdV = sizeof(RssV); }} declares {decl} but the pure Rss is never consumed: uses {uses}"


# ------------------------------------------------------------------------------------------
def gen_catalog(loader, check, part, replay_on=True):
    {"pureexec": catalog.gen_pureexec, "leaf": catalog.gen_leaf_reads, "misc": catalog.gen_misc_nodes}[part](loader, check, replay_on)


def gen_own(loader, check, what, replay_on=True):
    {"loops": gen_emit_loops, "children": gen_children}[what](loader, check, replay_on)


def gen_dead_arm(loader, check, replay_on=True):
    """'nothing that was initialised is left unused': a value-producing operation in the dead arm of a constant condition is removed
    together with everything it registered (C06's dead-arm contract)"""
    from . import c06
    c06.gen_selected(loader, check, replay_on)


def gen_printing(loader, check, replay_on=True):
    """the statement comments of the READ_STATEMENTS layout print nodes: printing must not spend an operand's consuming read (C11's printer contract)"""
    from . import c11
    saved = getattr(check, "ob_filter", None)
    check.ob_filter = r"#comment\.pure|#comment\.total"
    try:
        c11.gen_comments(loader, check, replay_on)
    finally:
        check.ob_filter = saved


def gen_same_operand(loader, check, replay_on=True):
    """`x op x`: the SAME operand node in both positions of a binary node (both arms of ?:, both sides of a comparison ...). Each position
    reads it once - two reads, two distinct texts, both embedded; on a real variable-backed operand exactly one of them is raw."""
    t32 = (True, 32)
    AT = irkit.enum(loader, "ArithmeticOp", "ArithmeticType")
    BT = irkit.enum(loader, "BitOp", "BitOperationType")
    CT = irkit.enum(loader, "CompareOp", "CompareOpType")
    BO = irkit.enum(loader, "BooleanOp", "BooleanOpType")
    cases = {
        "ArithmeticOp(+)": lambda it, x: it.call(irkit.C(loader, "ArithmeticOp"), ["op", x, x, AT("+")], {}),
        "ArithmeticOp(-)": lambda it, x: it.call(irkit.C(loader, "ArithmeticOp"), ["op", x, x, AT("-")], {}),
        "ArithmeticOp(*)": lambda it, x: it.call(irkit.C(loader, "ArithmeticOp"), ["op", x, x, AT("*")], {}),
        "BitOp(&)": lambda it, x: it.call(irkit.C(loader, "BitOp"), ["op", x, x, BT("&")], {}),
        "BitOp(^)": lambda it, x: it.call(irkit.C(loader, "BitOp"), ["op", x, x, BT("^")], {}),
        "BitOp(<<)": lambda it, x: it.call(irkit.C(loader, "BitOp"), ["op", x, x, BT("<<")], {}),
        "CompareOp(==)": lambda it, x: it.call(irkit.C(loader, "CompareOp"), ["op", x, x, CT("==")], {}),
        "CompareOp(<)": lambda it, x: it.call(irkit.C(loader, "CompareOp"), ["op", x, x, CT("<")], {}),
        "BooleanOp(&&)": lambda it, x: it.call(irkit.C(loader, "BooleanOp"), ["op", x, x, BO("&&")], {}),
        "Ternary(c ? x : x)": lambda it, x: it.call(irkit.C(loader, "Ternary"), ["op", irkit.mk_operand(it, "CompareOp", t32, "c"), x, x], {}),
        "Ternary(x ? x : y)": lambda it, x: it.call(irkit.C(loader, "Ternary"), ["op", x, x, irkit.mk_operand(it, "Variable", t32, "y")], {}),
    }
    for lab, mk in cases.items():
        for kind in ("Variable", "Register"):
            def build(it, mk=mk, kind=kind):
                x = irkit.mk_operand(it, kind, t32, "x")
                n = mk(it, x)
                others = [o for o in n.fields["ops"] if o is not x]
                return n, [x] + others
            emit.run_emission(check, loader, f"{lab.split('(')[0]}.il_exec", f"same operand twice: {lab} operand={kind}", build)
        # on the real operand: one raw use, the other DUP
        check.instances_declared += 1

        def setup(it, mk=mk):
            RA = irkit.enum(loader, "Register", "RegisterAccessType")
            x = it.call(irkit.C(loader, "Register"), ["Rs", RA.R, conc_vt(loader, t32)], {})
            return {"n": mk(it, x), "x": x}
        ex = explore(loader, setup, lambda it, st: it.call(it.getattr_(st["n"], "il_exec"), [], {}))
        check.absorb(ex, f"same operand {lab}")
        if ex.paths:
            check.instances_generated += 1
        for p in ex.paths:
            inst = f"same register twice: {lab}"
            if p.outcome != "return":
                check.ob("il_exec(same operand)#total", inst, p.ctx.pc, False, detail=f"raises {p.value!r}")
                continue
            txt = emit.as_tpl(p.value).render(lambda a: f"@{a.tag}")
            import re as _re
            dups = len(_re.findall(r"DUP\(Rs\)", txt))
            raw = len(_re.findall(r"(?<![A-Za-z0-9_])Rs(?![A-Za-z0-9_])", txt)) - dups
            check.ob("il_exec(same operand)#raw: one raw use, every other use DUP", inst, p.ctx.pc, raw == 1 and dups >= 1, detail=txt)
    # the callbacks keep both positions: `x op x` builds a node whose two operands are x (same type on both sides: nothing to convert)
    T = loader.load(tkit.M_T).globals["RZILTransformer"]
    for cb, tok, op, cls in (("additive_expr", "ADD_OP", "+", "ArithmeticOp"), ("additive_expr", "SUB_OP", "-", "ArithmeticOp"), ("multiplicative_expr", "MUL_OP", "*", "ArithmeticOp"),
                             ("and_expr", "AND_OP", "&", "BitOp"), ("exclusive_or_expr", "XOR_OP", "^", "BitOp"), ("inclusive_or_expr", "OR_OP", "|", "BitOp"),
                             ("equality_expr", "EQ_OP", "==", "CompareOp"), ("relational_expr", "LT_OP", "<", "CompareOp")):
        if cb not in T.methods:
            check.undecided.append((f"same operand {cb}", "callback not found (needs contract)"))
            continue
        inst = f"x {op} x"
        check.instances_declared += 1

        def setup_c(it):
            t = tkit.mk_transformer(it)
            x = irkit.mk_operand(it, "Register", t32, "x")
            it.ctx.mark_pre(t, x)
            return {"t": t, "x": x}
        ex = explore(loader, setup_c, lambda it, st, cb=cb, tok=tok, op=op: it.call(tkit.method(it, st["t"], cb), [[st["x"], Token(tok, op), st["x"]]], {}))
        check.absorb(ex, f"{cb} {inst}")
        if ex.paths:
            check.instances_generated += 1
        for p in ex.paths:
            if p.outcome != "return":
                check.ob(f"{cb}(same operand)#total", inst, p.ctx.pc, False, detail=f"raises {p.value!r}")
                continue
            r, x = p.value, p.state["x"]
            ok = isinstance(r, Obj) and r.cls is irkit.C(loader, cls) and len(r.fields["ops"]) == 2 and all(o is x for o in r.fields["ops"])
            check.ob(f"{cb}(same operand)#children: both operands of the node are x", inst, p.ctx.pc, ok, detail=repr(getattr(r, "fields", {}).get("ops")))
            check.ob(f"{cb}(same operand)#children: x keeps its type", inst, p.ctx.pc, ir.vt(x) == t32)


def gen_history(loader, check, replay_on=True):
    """'exactly one consuming use ... nothing initialised is left unconsumed' for every history of the compiler object: an operand of an
    earlier behaviour (whose raw use is spent) must not be handed out again - nothing registered survives reset(), and no operand holder
    other than the reset one stays reachable (C14's reset contract, holder clauses)"""
    from . import c14
    saved = getattr(check, "ob_filter", None)
    check.ob_filter = r"reset#(no-stale-holder|modifies|total)|#reset\.holder"
    try:
        c14.gen_reset(loader, check, replay_on)
    finally:
        check.ob_filter = saved


def dispatch(loader, check, module=None, func=None, kwargs=None, replay_on=True):
    import importlib
    kw = dict(kwargs)
    if not replay_on:
        kw["replay_on"] = False
    getattr(importlib.import_module(module), func)(loader, check, **kw)


def tasks():
    ts = [("contracts.c02", "gen_task", t) for t in c02.tasks_for("quick") if t["what"] == "emission"]
    ts += [("contracts.c03", "gen_task", t) for t in c03.tasks_for("quick") if t["what"] in ("emission", "ite", "chains")]
    ts += [("contracts.c05", "gen_task", {"what": w}) for w in ("sequence", "effects")]
    ts += [("contracts.c12", "gen_catalog", {"part": p}) for p in ("pureexec", "leaf", "misc")]
    ts += [("contracts.c12", "gen_own", {"what": w}) for w in ("loops", "children")]
    # argument lists of sub-routine calls: values are read exactly once, a borrowed parameter passed on goes through il_read (C08's contracts)
    ts += [("contracts.c08", "gen_task", {"what": w}) for w in ("build_arg_list", "call_text")]
    ts += [("contracts.c12", "gen_dead_arm", {})]
    ts += [("contracts.c12", "gen_history", {})]
    ts += [("contracts.c12", "gen_same_operand", {})]
    ts += [("contracts.c12", "gen_printing", {})]
    return ts


def generate_reduced(loader, check):
    check.ob_filter = FILTER
    c02.gen_emission(loader, check, ["Variable", "CompareOp"], False)
    c03.gen_emission(loader, check, c03.T8, ["Variable"], False)
    c05.gen_sequence(loader, check, False)
    c05.gen_effect_emission(loader, check, False)
    for p in ("pureexec", "leaf", "misc"):
        gen_catalog(loader, check, p, False)
    gen_emit_loops(loader, check, False)
    gen_children(loader, check, False)
    from . import c08
    c08.gen_build_arg_list(loader, check, False)
    c08.gen_call_text(loader, check, False)
    gen_dead_arm(loader, check, False)
    gen_history(loader, check, False)
    gen_same_operand(loader, check, False)
    gen_printing(loader, check, False)


def run(check: Check):
    check.trust("T-VCGEN: pyvc interpretation of the Python subset (mutant self-test, native replay)")
    check.trust("T-IND + linearity lemma (metatheory): atom-linear templates + every il_read result embedded in an emitted initialiser + "
                "every initialiser appended once  =>  each pure variable has exactly one raw use, each effect variable exactly one use")
    check.assume("a child's il_read()/effect_var()/il_init_var() is used through its contract (opaque text, counters advance); holder tables "
                 "are abstract sequences of any length in the emit loops")
    check.assume("A-NAMES: add_op through its contract")
    check.ob_filter = FILTER
    ts = [{"module": m, "func": f, "kwargs": k} for (m, f, k) in tasks()]
    check.run_parallel("contracts.c12", "dispatch", ts, workers=WORKERS, sink_attrs={"ob_filter": FILTER})
    run_mutants(check, MUTANTS, "contracts.c12", "generate_reduced")
    return check.finish(
        level="proof",
        rule="one obligation per (emitting function, operand kinds/types, clause) for atom linearity; symbolic read counters; fold "
             "invariants for the emit loops; one children-consumed obligation per callback")
