"""C14 - compilation results do not depend on history or on earlier failures.

Contract structure (DESIGN.md section 3, C14):
  * mechanical state inventory of the transformer / holder / extension / compiler / preprocessor
    classes, classified in contracts/state.json; class-level mutable containers must be re-bound
    per instance; an unclassified attribute is *undecided*;
  * reset() re-establishes the value a freshly constructed transformer has for every per-behaviour
    attribute, from an arbitrary (symbolic / dirty) pre-state;
  * every public entry point (transform_insn, compile_insn, compile_c_stmt, compile_sub_routine,
    add_sub_routine) leaves the per-behaviour state reset on normal AND exceptional exit (the
    external parse / transform calls are havocking stubs that may raise at any point);
  * resource objects that callbacks write (Parameter.reads, SubRoutine return-type group) are
    unobservable: the emitted text is the same in both states (two-state obligations);
  * compiler-generated numbering (hybrid_op_count) enters results only through the name h_tmp<N>.
"""
from __future__ import annotations
import ast
import json
import os
import z3
from lark import Token

from pyvc.interp import explore, NativeAbs, PyRaise
from pyvc.loader import Loader, ClassInfo, FuncInfo
from pyvc.values import Obj, SBool, SInt, Tpl, ExcVal, Unsupported
from pyvc.vc import Check
from pyvc import replay
from . import irkit, tkit
from .common import WORKERS, conc_vt, run_mutants
from .c13 import FLAGS, set_ext_state, _It, flag_term, M_X

PROP = "C14"
HERE = os.path.dirname(os.path.abspath(__file__))

CLASSES = {
    "RZILTransformer": tkit.M_T, "ILOpsHolder": tkit.M_H, "HexagonTransformerExtension": M_X,
    "HexagonCompilerExtension": M_X, "Compiler": "rzilcompiler.Compiler",
    "PreprocessorHexagon": "rzilcompiler.Preprocessor.Hexagon.PreprocessorHexagon",
}

MUTANTS = [
    {"name": "reset: imm_set_effect_list not cleared", "file": "rzilcompiler/Transformer/RZILTransformer.py",
     "old": "        self.imm_set_effect_list.clear()\n", "new": ""},
    {"name": "reset: pending hybrid effects not cleared", "file": "rzilcompiler/Transformer/RZILTransformer.py",
     "old": "        self.il_ops_holder.hybrid_effect_dict.clear()\n", "new": ""},
    {"name": "ILOpsHolder.clear: exec ops survive", "file": "rzilcompiler/Transformer/ILOpsHolder.py",
     "old": "        self.exec_ops.clear()\n", "new": ""},
    {"name": "ILOpsHolder.clear: op counter not reset", "file": "rzilcompiler/Transformer/ILOpsHolder.py",
     "old": "        self.let_ops.clear()\n        self.op_count = 0", "new": "        self.let_ops.clear()"},
    {"name": "reset_flags: conditional flag survives", "file": "rzilcompiler/HexagonExtensions.py",
     "old": "    def reset_flags(self):\n        self.is_conditional = False\n", "new": "    def reset_flags(self):\n"},
    {"name": "compile_c_stmt: reset only on success", "file": "rzilcompiler/Compiler.py",
     "old": "        try:\n            return self.transformer.transform(ast)\n        finally:\n            self.transformer.reset()",
     "new": "        result = self.transformer.transform(ast)\n        self.transformer.reset()\n        return result"},
    {"name": "transform_insn: reset dropped from finally", "file": "rzilcompiler/Compiler.py",
     "old": "        finally:\n            self.transformer.reset()\n\n    def get_insn_rzil", "new": "        finally:\n            pass\n\n    def get_insn_rzil"},
    {"name": "Compiler: sub-routine table class-level again", "file": "rzilcompiler/Compiler.py",
     "old": "        self.sub_routines: dict[str:SubRoutine] = dict()\n\n        self.set_lark_parser()", "new": "\n        self.set_lark_parser()"},
    {"name": "new class-level cache on the transformer", "file": "rzilcompiler/Transformer/RZILTransformer.py",
     "old": "class RZILTransformer(Transformer):\n", "new": "class RZILTransformer(Transformer):\n    seen_names = dict()\n"},
    {"name": "new per-instance attribute not covered by reset", "file": "rzilcompiler/Transformer/RZILTransformer.py",
     "old": "        self.imm_set_effect_list = list()\n", "new": "        self.imm_set_effect_list = list()\n        self.last_error = None\n"},
    {"name": "compile_sub_routine: body compiled on the shared transformer", "file": "rzilcompiler/Compiler.py",
     "old": "        body = transformer.transform(ast_body)", "new": "        body = self.transformer.transform(ast_body)"},
    {"name": "Parameter.il_read: DUP decided by read count for every type", "file": "rzilcompiler/Transformer/Pures/Parameter.py",
     "old": "        if self.reads <= 1 or not self.value_type.group & VTGroup.PURE:", "new": "        if self.reads <= 1:"},
    {"name": "resolve_hybrid: temporary named by the (history dependent) hybrid counter parity", "file": "rzilcompiler/Transformer/RZILTransformer.py",
     "old": '        tmp_x_name = f"h_tmp{self.il_ops_holder.hybrid_op_count}"', "new": '        tmp_x_name = f"h_tmp{self.il_ops_holder.hybrid_op_count}" if self.il_ops_holder.hybrid_op_count > 5 else "h_tmp"'},
]


def load_state_classes():
    with open(os.path.join(HERE, "state.json")) as f:
        return json.load(f)


def is_mutable_container_expr(e):
    if isinstance(e, (ast.List, ast.Dict, ast.Set, ast.ListComp, ast.DictComp, ast.SetComp)):
        return True
    if isinstance(e, ast.Call) and isinstance(e.func, ast.Name) and e.func.id in ("list", "dict", "set"):
        return True
    return False


def self_assigned_attrs(f: FuncInfo):
    out = set()
    for node in ast.walk(f.node):
        if isinstance(node, ast.Attribute) and isinstance(node.ctx, ast.Store) and isinstance(node.value, ast.Name) and node.value.id == "self":
            out.add(node.attr)
    return out


def init_closure_assigned(cls: ClassInfo):
    """attributes assigned on self in __init__ or in methods __init__ calls on self (one level of closure, transitive)"""
    seen, todo, out = set(), ["__init__"], set()
    while todo:
        m = todo.pop()
        if m in seen:
            continue
        seen.add(m)
        owner, f = cls.lookup(m)
        if not isinstance(f, FuncInfo):
            continue
        out |= self_assigned_attrs(f)
        for node in ast.walk(f.node):
            if isinstance(node, ast.Call) and isinstance(node.func, ast.Attribute) and isinstance(node.func.value, ast.Name) \
                    and node.func.value.id == "self":
                todo.append(node.func.attr)
    return out


# ------------------------------------------------------------------------------------------
def gen_inventory(loader, check, replay_on=True):
    spec = load_state_classes()
    for cname, mod in CLASSES.items():
        cls = loader.load(mod).globals[cname]
        inst_attrs = init_closure_assigned(cls)
        class_attrs = {k: v for k, v in cls.attr_exprs.items()}
        known = spec.get(cname, {})
        allattrs = sorted(set(inst_attrs) | set(class_attrs))
        check.extra.setdefault("state_inventory", {})[cname] = {a: known.get(a, "UNCLASSIFIED") for a in allattrs}
        for a in allattrs:
            if a not in known:
                check.undecided.append((f"state inventory {cname}.{a}", "attribute is not classified in contracts/state.json (needs contract)"))
        # class-level mutable containers must be re-bound per instance
        for a, e in class_attrs.items():
            if is_mutable_container_expr(e):
                ok = a in inst_attrs
                rp = ("c14.shared_state", lambda mdl, cname=cname, a=a: {"cls": cname, "attr": a}) if replay_on and cname in (
                    "Compiler", "PreprocessorHexagon", "HexagonTransformerExtension") else None
                check.ob("inventory#class-level-container-is-rebound-per-instance", f"{cname}.{a}", [], ok, replay=rp,
                         detail=f"{cname}.{a} is a class-level mutable container that no __init__ path re-binds: shared by all instances")
        check.instances_declared += 1
        check.instances_generated += 1
    # every other class of the package: class-level mutable containers are hidden process-wide state
    pkg_root = os.path.join(loader.repo, "rzilcompiler")
    for dirpath, _, files in os.walk(pkg_root):
        if "Tests" in dirpath:
            continue
        for fn in files:
            if not fn.endswith(".py"):
                continue
            modname = os.path.relpath(os.path.join(dirpath, fn), loader.repo)[:-3].replace("/", ".")
            if modname.endswith("__init__"):
                continue
            try:
                m = loader.load(modname)
            except Exception as e:
                check.undecided.append((f"inventory {modname}", f"cannot load: {e}"))
                continue
            for name, c in m.globals.items():
                if isinstance(c, ClassInfo) and c.module is m and c.name not in CLASSES:
                    for a, e in c.attr_exprs.items():
                        if is_mutable_container_expr(e):
                            assigned = init_closure_assigned(c)
                            check.ob("inventory#class-level-container-is-rebound-per-instance", f"{c.name}.{a}", [], a in assigned,
                                     detail=f"{c.name}.{a}: class-level mutable container shared by all instances")
            for node in ast.walk(m.tree):
                if isinstance(node, ast.Global):
                    check.ob("inventory#no-global-statement", f"{modname}:{node.lineno}", [], False,
                             detail="module-level state written through `global`")
    check.ob("inventory#scanned", "package", [], True)

    # missing_fcns is diagnostic: read only by the reporting function and the counter itself
    X = loader.load(M_X).globals["HexagonTransformerExtension"]
    readers = []
    for mname, f in X.methods.items():
        if isinstance(f, FuncInfo):
            for node in ast.walk(f.node):
                if isinstance(node, ast.Attribute) and node.attr == "missing_fcns" and isinstance(node.ctx, ast.Load):
                    readers.append(mname)
    check.ob("inventory#missing_fcns-is-diagnostic-only", "HexagonTransformerExtension", [],
             set(readers) <= {"report_missing_fcns", "get_val_type_by_fcn"}, detail=f"read in {sorted(set(readers))}")


PER_BEHAVIOUR_HOLDER = ["hybrid_effect_dict", "read_ops", "exec_ops", "write_ops", "let_ops", "op_count"]


DIRTY_PARTS = ("pending", "tables", "counters", "immediates", "flags", "preds")


def dirty(it, t, tag="d", parts=DIRTY_PARTS):
    """Puts the transformer in an arbitrary dirty per-behaviour state (`parts`: which components are dirty - an exception can
    leave any subset behind, e.g. only a flag when it is raised before the first operand is registered)."""
    h = t.fields["il_ops_holder"]
    for i, dn in enumerate(("hybrid_effect_dict", "read_ops", "exec_ops", "write_ops", "let_ops")):
        if ("pending" in parts and dn == "hybrid_effect_dict") or ("tables" in parts and dn != "hybrid_effect_dict"):
            h.fields[dn][f"{tag}{i}"] = Obj(irkit.C(it.loader, "Pure"), label=f"{tag}{i}")
    if "counters" in parts:
        c = z3.Int(f"{tag}_op_count")
        it.ctx.assume(c >= 0)
        h.fields["op_count"] = SInt(c)
        hc = z3.Int(f"{tag}_hybrid_count")
        it.ctx.assume(hc >= 0)
        h.fields["hybrid_op_count"] = SInt(hc)
    if "immediates" in parts:
        t.fields["imm_set_effect_list"].append(Obj(irkit.C(it.loader, "Effect"), label=f"{tag}_imm"))
    x = t.fields["ext"]
    if "flags" in parts:
        for f in FLAGS:
            x.fields[f] = SBool(z3.Bool(f"{tag}_{f}"))
    if "preds" in parts:
        lst = it.getattr_(x, "preds_written")
        lst.extend([1, 3])


def reset_state_obligations(check, name, pi, p, t, spec, replay=None, fresh=None):
    """every per-behaviour attribute has the value of a freshly constructed transformer"""
    pc = p.ctx.pc
    it = _It(p)
    h = t.fields["il_ops_holder"]
    x = t.fields["ext"]
    for a, cl in spec["ILOpsHolder"].items():
        if cl != "per-behaviour":
            continue
        v = h.fields.get(a)
        if isinstance(v, dict):
            check.ob(f"{name}#reset.holder.{a}", pi, pc, len(v) == 0, replay=replay, detail=f"{a} keeps {list(v)[:3]}")
        else:
            ok = (v == 0) if isinstance(v, int) else (z3.simplify(v.t == 0) if isinstance(v, SInt) else False)
            check.ob(f"{name}#reset.holder.{a}", pi, pc, ok, replay=replay, detail=f"{a} = {v}")
    for a, cl in spec["RZILTransformer"].items():
        if cl != "per-behaviour":
            continue
        v = t.fields.get(a)
        check.ob(f"{name}#reset.transformer.{a}", pi, pc, isinstance(v, list) and len(v) == 0, replay=replay,
                 detail=f"{a} = {v}")
    for a, cl in spec["HexagonTransformerExtension"].items():
        if cl != "per-behaviour":
            continue
        v = it(x, a)
        if isinstance(v, list):
            check.ob(f"{name}#reset.ext.{a}", pi, pc, v == [], replay=replay, detail=f"{a} = {v}")
        else:
            tt = flag_term(v)
            check.ob(f"{name}#reset.ext.{a}", pi, pc, (tt == z3.BoolVal(False)) if tt is not None else False, replay=replay,
                     detail=f"{a} = {v}")


def stale_holders(t, Hcls):
    """paths (attribute chains from the transformer) to ILOpsHolder objects other than t.il_ops_holder"""
    cur = t.fields.get("il_ops_holder")
    out, seen, todo = [], set(), [(t, "transformer")]
    while todo:
        o, path = todo.pop()
        if not isinstance(o, Obj) or id(o) in seen:
            continue
        seen.add(id(o))
        if o.cls is Hcls and o is not cur:
            out.append(path)
            continue
        for f, v in o.fields.items():
            if isinstance(v, Obj):
                todo.append((v, f"{path}.{f}"))
    return out


def gen_reset(loader, check, replay_on=True):
    spec = load_state_classes()
    T = loader.load(tkit.M_T).globals["RZILTransformer"]
    Hc = loader.load(tkit.M_H).globals["ILOpsHolder"]
    check.under_contract(loader, T.methods["reset"], T.methods["__init__"], Hc.methods["clear"], Hc.methods["__init__"],
                         loader.load(M_X).globals["HexagonTransformerExtension"].methods["reset_flags"])
    for parts in (DIRTY_PARTS,) + tuple((x,) for x in DIRTY_PARTS):
        check.instances_declared += 1
        label = "dirty pre-state" if parts == DIRTY_PARTS else f"only {parts[0]} dirty"

        def setup(it, parts=parts):
            t = tkit.mk_transformer(it, stub_add_op=False, symbolic_count=False)
            dirty(it, t, parts=parts)
            it.ctx.mark_pre(t)
            return t
        ex = explore(loader, setup, lambda it, t: it.call(it.getattr_(t, "reset"), [], {}))
        check.absorb(ex, "reset")
        if ex.paths:
            check.instances_generated += 1
        for i, p in enumerate(ex.paths):
            pi = f"{label} path={i}"
            rp = ("c14.reset", lambda mdl, parts=parts: {"parts": list(parts)}) if replay_on else None
            check.ob("reset#total", pi, p.ctx.pc, p.outcome == "return", replay=rp)
            if p.outcome == "return":
                reset_state_obligations(check, "reset", pi, p, p.state, spec, rp)
                # frame: resources are not touched (installing another, reset, operand holder is a way of clearing the per-behaviour state:
                # the clauses above then speak about the new holder, the clause below about the old one)
                t = p.state
                Hcls = loader.load(tkit.M_H).globals["ILOpsHolder"]
                h_now = t.fields["il_ops_holder"]
                bad = [(o, f) for (o, f, _, _) in p.ctx.pre_writes() if o is t and not (f == "il_ops_holder" and isinstance(h_now, Obj) and h_now.cls is Hcls)]
                check.ob("reset#modifies-only-per-behaviour-state", pi, p.ctx.pc, not bad, detail=str(bad))
                stale = stale_holders(t, Hcls)
                check.ob("reset#no-stale-holder: every operand holder still reachable from the transformer is the reset one", pi, p.ctx.pc, not stale,
                         detail="; ".join(stale[:3]), replay=("c14.stale_holder", lambda mdl: {}) if replay_on else None)

    # a freshly constructed transformer satisfies the reset state (base case of the invariant)
    check.instances_declared += 1
    ex = explore(loader, lambda it: tkit.mk_transformer(it, stub_add_op=False, symbolic_count=False), lambda it, t: t)
    check.absorb(ex, "RZILTransformer.__init__")
    if ex.paths:
        check.instances_generated += 1
    for i, p in enumerate(ex.paths):
        reset_state_obligations(check, "__init__", f"fresh path={i}", p, p.value, spec)


# ------------------------------------------------------------------------------------------ entry points
class ParserAbs(NativeAbs):
    """Assumed contract of the Lark parser object (T-LARK): parse(text) returns an opaque tree or raises."""

    def __init__(self, may_raise=True):
        self.may_raise = may_raise

    def getattr(self, it, name):
        if name == "parse":
            return _ParseCall(self)
        raise Unsupported(f"parser.{name}")


class _ParseCall(NativeAbs):
    def __init__(self, p):
        self.p = p

    def call(self, it, args, kwargs):
        it.ctx.stats["assumed_calls"]["Lark.parse (T-LARK: returns a tree or raises)"] = 1
        if self.p.may_raise and it.ctx.branch(z3.Bool(it.ctx.fresh_name("parse_raises"))):
            raise PyRaise(ExcVal(Exception, ["parse error"]))
        tr = Obj(irkit.C(it.loader, "Pure"), label="tree")
        tr.stubs["pretty"] = lambda it_, o, a, k: "tree"
        return tr


def dirty_transform_stub(log, entry_facts=None):
    """Assumed contract of Transformer.transform: arbitrary callbacks of this transformer run (the
    per-behaviour state becomes arbitrary) and it returns text or raises any Exception."""
    def stub(it, callee, args, kwargs):
        t = args[0]
        log.append(t)
        if entry_facts is not None:
            # is the transformer in the reset state when the translation starts?  (recorded with the path condition of this moment)
            import types
            sub = Check("C14", "quick")
            reset_state_obligations(sub, "at-transform", f"call {len(log)}", types.SimpleNamespace(ctx=it.ctx), t, load_state_classes())
            entry_facts.extend(sub.obs)
        dirty(it, t, tag=f"w{len(log)}")
        if it.ctx.branch(z3.Bool(it.ctx.fresh_name("transform_raises"))):
            raise PyRaise(ExcVal(Exception, ["visit error"]))
        return "return x;"
    return stub


def mk_compiler(it, log, noped=False, entry_facts=None):
    loader = it.loader
    Comp = loader.load("rzilcompiler.Compiler").globals["Compiler"]
    c = Obj(Comp)
    t = tkit.mk_transformer(it, stub_add_op=False, symbolic_count=False)
    c.fields["transformer"] = t
    c.fields["ext"] = it.call(loader.load(M_X).globals["HexagonCompilerExtension"], [], {})
    c.fields["noped_insns"] = ["J2_foo"] if noped else ["other"]
    c.fields["compiled_insns"] = {}
    c.fields["parsed_insns"] = {}
    c.fields["sub_routines"] = {}
    c.fields["parser"] = ParserAbs()
    it.ctx.contracts["Transformer.transform"] = dirty_transform_stub(log, entry_facts)
    # get_meta through its contract (discharged in C13): a pure function of the flags, no state change
    it.ctx.contracts[f"{M_X}.HexagonTransformerExtension.get_meta"] = lambda it_, f, a, k: ["<render of current flags>"]
    return c, t


def gen_entry_points(loader, check, replay_on=True):
    spec = load_state_classes()
    Comp = loader.load("rzilcompiler.Compiler").globals["Compiler"]
    for m in ("transform_insn", "compile_insn", "compile_c_stmt", "compile_sub_routine", "add_sub_routine"):
        check.under_contract(loader, Comp.methods[m])
    PI = loader.load("rzilcompiler.Parser").globals["ParsedInsn"]

    # History independence is a rely/guarantee argument with two admissible disciplines:
    #   (exit)  every entry point leaves the transformer in the reset state on every exit, normal or exceptional, or
    #   (entry) this entry point puts the transformer in the reset state itself before every translation it starts, whatever it finds.
    # An entry point is history independent if it satisfies (entry), or if ALL entry points satisfy (exit) (and construction yields the
    # reset state: gen_reset).  Both facts are computed per entry point from sub-obligations discharged here; the obligation that goes
    # into the report is the disjunction.
    exit_facts, entry_facts_of = {}, {}

    def run_ep(name, inst, call, pre_dirty, rp=None):
        check.instances_declared += 1
        log = []
        outcomes = set()
        for mode in ("exit", "entry"):
            facts = []

            def setup(it, mode=mode, facts=facts):
                del log[:]
                del facts[:]
                c, t = mk_compiler(it, log, entry_facts=(facts if mode == "entry" else None))
                if pre_dirty or mode == "entry":
                    dirty(it, t, "pre")
                it.ctx.mark_pre(c)
                return {"c": c, "t": t, "facts": facts}
            ex = explore(loader, setup, lambda it, st: call(it, st))
            check.absorb(ex, f"{name} {inst} ({mode})")
            if ex.paths and mode == "exit":
                check.instances_generated += 1
            sub = Check("C14", "quick")
            for i, p in enumerate(ex.paths):
                pi = f"{inst} exit={p.outcome} path={i}"
                if mode == "exit":
                    outcomes.add(p.outcome)
                    reset_state_obligations(sub, name, pi, p, p.state["t"], spec, rp)
                else:
                    # the facts list is filled while the path runs; explore() re-runs setup per path, so the list holds this path's facts
                    sub.obs.extend(p.state["facts"])
                    if not log and p.outcome == "return":
                        pass
            sub.discharge()
            failed = [f"{o.name} [{o.instance}]" for o in sub.obs if o.status != "discharged"]
            (exit_facts if mode == "exit" else entry_facts_of).setdefault(name, []).extend(failed)
            check.extra.setdefault("history_sub_obligations", {})[f"{name} {inst} ({mode})"] = {"checked": len(sub.obs), "failed": failed[:6]}
        # both exits are explored (vacuity guard)
        check.ob(f"{name}#explores-normal-and-exceptional-exit", inst, [], outcomes == {"return", "raise"},
                 detail=f"outcomes {outcomes}")
        return
        yield

    rpc = ("c14.compile_c_stmt", lambda mdl: {}) if replay_on else None
    for nparts in (1, 2):
        def call(it, st, nparts=nparts):
            trees = [Obj(irkit.C(loader, "Pure"), label=f"tree{i}") for i in range(nparts)]
            for tr in trees:
                tr.stubs["pretty"] = lambda it_, o, a, k: "tree"
            pi = it.call(PI, ["J2_foo", trees, [f"beh{i}" for i in range(nparts)]], {})
            return it.call(it.getattr_(st["c"], "transform_insn"), ["J2_foo", pi], {})
        for p, pi in run_ep("transform_insn", f"parts={nparts} dirty-pre-state", call, True):
            pass

        def call2(it, st, nparts=nparts):
            trees = [Obj(irkit.C(loader, "Pure"), label=f"tree{i}") for i in range(nparts)]
            for tr in trees:
                tr.stubs["pretty"] = lambda it_, o, a, k: "tree"
            st["c"].fields["parsed_insns"]["J2_foo"] = it.call(PI, ["J2_foo", trees, [f"beh{i}" for i in range(nparts)]], {})
            return it.call(it.getattr_(st["c"], "compile_insn"), ["J2_foo"], {})
        for p, pi in run_ep("compile_insn", f"parts={nparts}", call2, False):
            pass
    for p, pi in run_ep("compile_c_stmt", "any statement", lambda it, st: it.call(it.getattr_(st["c"], "compile_c_stmt"), ["{ x; }"], {}),
                        False, rpc):
        pass

    all_exit_clean = not any(exit_facts.values())
    for name in sorted(exit_facts):
        ok = all_exit_clean or not entry_facts_of.get(name)
        detail = ""
        if not ok:
            dirty_exits = {k: v[:2] for k, v in exit_facts.items() if v}
            detail = (f"{name} starts a translation on a transformer that is not in the reset state: {entry_facts_of[name][:2]}; "
                      f"and not every entry point leaves it reset: {dirty_exits}")
        check.ob(f"{name}#history-independent: translation starts from the reset state (own reset, or every entry point leaves it reset on every exit)",
                 "any history", [], ok, detail=detail, replay=("c14.history_pair", lambda mdl: {}) if replay_on else None)

    # compile_sub_routine / add_sub_routine work on a fresh transformer: frame over the shared one
    for name in ("compile_sub_routine", "add_sub_routine"):
        check.instances_declared += 1
        log = []

        def setup(it, log=log):
            del log[:]
            c, t = mk_compiler(it, log)
            it.ctx.mark_pre(c)
            return {"c": c, "t": t}

        def run(it, st, name=name):
            return it.call(it.getattr_(st["c"], name), ["my_fn", "int32_t", ["int32_t x", "uint8_t y"], "{ return x; }"], {})
        ex = explore(loader, setup, run)
        check.absorb(ex, name)
        if ex.paths:
            check.instances_generated += 1
        for i, p in enumerate(ex.paths):
            pi = f"exit={p.outcome} path={i}"
            reset_state_obligations(check, name, pi, p, p.state["t"], spec)
            used_shared = any(t is p.state["t"] for t in log)
            check.ob(f"{name}#body-compiled-on-a-fresh-transformer", pi, p.ctx.pc, not used_shared,
                     detail="the compiler's own transformer was used for the routine body")
            t = p.state["t"]
            h = t.fields["il_ops_holder"]
            bad = [(o, f) for (o, f, _, _) in p.ctx.pre_writes() if o is h or o is t.fields["ext"]]
            check.ob(f"{name}#modifies-no-per-behaviour-state-of-the-shared-transformer", pi, p.ctx.pc, not bad, detail=str(bad[:4]))
            if p.outcome == "raise" and name == "add_sub_routine":
                check.ob("add_sub_routine#no-partial-registration-on-failure", pi, p.ctx.pc, "my_fn" not in p.state["c"].fields["sub_routines"])
            if p.outcome == "return" and name == "add_sub_routine":
                check.ob("add_sub_routine#registered", pi, p.ctx.pc, "my_fn" in p.state["c"].fields["sub_routines"]
                         and "my_fn" in t.fields["sub_routines"])


# ------------------------------------------------------------------------------------------ two instances own disjoint state
class FileAbs(NativeAbs):
    def __init__(self, path):
        self.path = path

    def getattr(self, it, name):
        if name == "readlines":
            return _K(["GRAMMAR"])
        raise Unsupported(f"file.{name}")


class _K(NativeAbs):
    def __init__(self, v):
        self.v = v

    def call(self, it, args, kwargs):
        return self.v


SAMPLE_JSON = {
    "HEXAGON_NOPED_INSNS_JSON": lambda: {"noped": ["A2_nop"]},
    "HEXAGON_QEMU_RZIL_MACROS_JSON": lambda: {"macros": {"bswap32": {"return_type": "uint32_t", "params": ["uint32_t"], "rzil_macro": "BSWAP32"}}},
    "HEXAGON_SUB_ROUTINES_JSON": lambda: {"sub_routines": {"clz32": {"return_type": "uint32_t", "params": ["uint32_t t"], "code": "{ return t; }"}}},
}


def mutable_containers(root):
    """ids of all mutable containers / heap records reachable from root (lists, dicts, sets, objects)"""
    out = {}
    seen = set()

    def walk(v, path):
        if isinstance(v, Obj):
            if v.oid in seen:
                return
            seen.add(v.oid)
            out[("obj", v.oid)] = (path, v)
            for k, x in v.fields.items():
                walk(x, f"{path}.{k}")
        elif isinstance(v, (list, set)):
            if id(v) in seen:
                return
            seen.add(id(v))
            out[("c", id(v))] = (path, v)
            for i, x in enumerate(v):
                walk(x, f"{path}[{i}]")
        elif isinstance(v, dict):
            if id(v) in seen:
                return
            seen.add(id(v))
            out[("c", id(v))] = (path, v)
            for k, x in v.items():
                walk(x, f"{path}[{k!r}]")
        elif isinstance(v, tuple):
            for i, x in enumerate(v):
                walk(x, f"{path}[{i}]")
    walk(root, "self")
    return out


def gen_two_instances(loader, check, replay_on=True):
    """Compiler.__init__ run twice in one process: the two instances share no mutable state."""
    Cm = loader.load("rzilcompiler.Compiler")
    Comp = Cm.globals["Compiler"]
    for m in ("__init__", "set_lark_parser", "set_extension", "set_il_op_transformer", "set_preprocessor", "add_noped_insns", "add_macros",
              "add_sub_routines", "add_macro_to_transformer", "add_sub_routine", "compile_sub_routine"):
        if m in Comp.methods:
            check.under_contract(loader, Comp.methods[m])
    check.instances_declared += 1
    ArchEnum = loader.load("rzilcompiler.ArchEnum").globals["ArchEnum"]

    def with_hook(it, s, env):
        import ast as _ast
        item = s.items[0]
        call = item.context_expr
        if not (isinstance(call, _ast.Call) and isinstance(call.func, _ast.Name) and call.func.id == "open"):
            raise Unsupported("with statement other than open()")
        path = it.eval(call.args[0], env)
        env.vars[item.optional_vars.id] = FileAbs(path)
        it.exec_block(s.body, env)

    def setup(it):
        it.ctx.with_hook = with_hook
        it.ctx.contracts["rzilcompiler.Configuration.Conf.get_path"] = lambda it_, f, a, k: ("PATH", a[0].name)
        it.ctx.contracts["json.load"] = lambda it_, f, a, k: SAMPLE_JSON[a[0].path[1]]()
        it.ctx.contracts["lark.lark.Lark"] = lambda it_, f, a, k: ParserAbs(may_raise=False)
        it.ctx.contracts["Transformer.transform"] = lambda it_, f, a, k: "return NOP();"
        return None

    def run(it, st):
        c1 = it.call(Comp, [ArchEnum.HEXAGON], {})
        c2 = it.call(Comp, [ArchEnum.HEXAGON], {})
        return c1, c2
    ex = explore(loader, setup, run)
    check.absorb(ex, "Compiler() twice")
    if ex.paths:
        check.instances_generated += 1
    for i, p in enumerate(ex.paths):
        pi = f"two instances path={i}"
        check.ob("Compiler.__init__#total", pi, p.ctx.pc, p.outcome == "return", detail="" if p.outcome == "return" else f"raises {p.value!r}")
        if p.outcome != "return":
            continue
        c1, c2 = p.value
        m1, m2 = mutable_containers(c1), mutable_containers(c2)
        shared = [f"{m1[k][0]}  ==  {m2[k][0]}" for k in m1 if k in m2]
        rp = ("c14.two_instances", lambda mdl: {}) if replay_on else None
        check.ob("Compiler.__init__#two-instances-share-no-mutable-state", pi, p.ctx.pc, not shared, replay=rp,
                 detail="shared between two Compiler instances: " + "; ".join(shared[:4]))
        check.ob("Compiler.__init__#resources-loaded", pi, p.ctx.pc, "bswap32" in c1.fields["transformer"].fields["macros"] and "clz32" in c1.fields["sub_routines"])


# ------------------------------------------------------------------------------------------ shared resources
def gen_resources(loader, check, replay_on=True):
    """Writes to resource objects during a transformation must be unobservable."""
    Par = irkit.C(loader, "Parameter")
    check.under_contract(loader, Par.methods["il_read"])
    VTm = loader.load("rzilcompiler.Transformer.ValueType")
    G = VTm.globals["VTGroup"]
    from .common import mk_vt
    # (1) the compiler's long-lived parameters (pkt, hi, bundle: EXTERNAL types): il_read() is independent of the read count
    for gname, g in (("EXTERNAL", G.EXTERNAL), ("VOID", G.VOID)):
        check.instances_declared += 1

        def setup(it, g=g):
            p = Obj(Par, label="pkt")
            p.fields["name"] = "pkt"
            p.fields["isa_name"] = None
            vt = mk_vt(loader, False, 64, g)
            vt.fields["external_type"] = "HexPkt"
            p.fields["value_type"] = vt
            r = z3.Int("reads0")
            it.ctx.assume(r >= 0)
            p.fields["reads"] = SInt(r)
            return p
        ex = explore(loader, setup, lambda it, p: it.call(it.getattr_(p, "il_read"), [], {}))
        check.absorb(ex, f"Parameter.il_read group={gname}")
        if ex.paths:
            check.instances_generated += 1
        texts = set()
        for i, p in enumerate(ex.paths):
            check.ob("Parameter.il_read#total", f"group={gname} path={i}", p.ctx.pc, p.outcome == "return")
            if p.outcome == "return":
                texts.add(p.value if isinstance(p.value, str) else repr(p.value))
        check.ob("Parameter.il_read#independent-of-read-history", f"group={gname}", [], len(texts) == 1,
                 detail=f"texts over all read counts: {sorted(texts)}")

    # (2) resolve_hybrid sets HYBRID_LVAR on the (shared) return type of a registered routine: idempotent, and the
    #     numbering enters only through the name
    T = loader.load(tkit.M_T).globals["RZILTransformer"]
    check.under_contract(loader, T.methods["resolve_hybrid"])
    SubR, SubC = irkit.C(loader, "SubRoutine"), irkit.C(loader, "SubRoutineCall")
    results = {}
    for pre_flag in (False, True):
        check.instances_declared += 1

        def setup(it, pre_flag=pre_flag):
            t = tkit.mk_transformer(it)
            par = it.call(Par, ["x", conc_vt(loader, (True, 32))], {})
            rt = conc_vt(loader, (True, 32), (G.PURE | G.HYBRID_LVAR) if pre_flag else G.PURE)
            sr = it.call(SubR, ["my_fn", rt, [par], "return x;"], {})
            arg = irkit.mk_operand(it, "Variable", (True, 32), "a")
            call = it.call(SubC, [sr, [arg]], {})
            it.ctx.mark_pre(t)
            return {"t": t, "call": call, "sr": sr}
        ex = explore(loader, setup, lambda it, st: it.call(tkit.method(it, st["t"], "resolve_hybrid"), [st["call"]], {}))
        check.absorb(ex, f"resolve_hybrid routine-type-flag={pre_flag}")
        if ex.paths:
            check.instances_generated += 1
        for i, p in enumerate(ex.paths):
            pi = f"flag-already-set={pre_flag} path={i}"
            check.ob("resolve_hybrid#total", pi, p.ctx.pc, p.outcome == "return",
                     detail="" if p.outcome == "return" else f"raises {p.value!r}")
            if p.outcome != "return":
                continue
            # path condition does not mention the numbering / history counters
            from .common import free_consts
            fv = set()
            for c in p.ctx.pc:
                fv |= free_consts(c)
            check.ob("resolve_hybrid#no-branching-on-counters", pi, [], not ({"hybrid_count0", "op_count0"} & fv) or
                     all(str(c).startswith("hybrid_count0 >=") or str(c).startswith("op_count0 >=") for c in p.ctx.pc if free_consts(c) & {"hybrid_count0", "op_count0"}),
                     detail=str(p.ctx.pc))
            tmp = p.value
            nm = tmp.fields.get("name") if isinstance(tmp, Obj) else None
            ok = isinstance(nm, Tpl) and len(nm.parts) == 2 and nm.parts[0] == "h_tmp" and isinstance(nm.parts[1], SInt) \
                and z3.eq(nm.parts[1].t, z3.Int("hybrid_count0"))
            check.ob("resolve_hybrid#temporary-named-by-counter-only", pi, p.ctx.pc, ok, detail=f"name {nm}")
            h = p.state["t"].fields["il_ops_holder"]
            cnt = h.fields["hybrid_op_count"]
            check.ob("resolve_hybrid#counter-incremented", pi, p.ctx.pc, isinstance(cnt, SInt) and z3.Int("hybrid_count0") + 1 == cnt.t)
            g_after = p.state["sr"].fields["value_type"].fields["group"]
            results[pre_flag] = (g_after, ir_shape(tmp))
            check.ob("resolve_hybrid#resource-write-is-idempotent", pi, p.ctx.pc, g_after == (G.PURE | G.HYBRID_LVAR))
    if len(results) == 2:
        check.ob("resolve_hybrid#result-independent-of-earlier-resource-write", "two-state", [], results[False] == results[True],
                 detail=f"{results}")


def ir_shape(o):
    if isinstance(o, Obj):
        return (o.cls.name, str(o.fields.get("value_type") and (o.fields["value_type"].fields["_signed"], o.fields["value_type"].fields["_bit_width"], str(o.fields["value_type"].fields["group"]))))
    return repr(o)


# ------------------------------------------------------------------------------------------ replay
@replay.register("c14.shared_state")
def replay_shared(a):
    from rzilcompiler.ArchEnum import ArchEnum
    if a["cls"] == "Compiler":
        from rzilcompiler.Compiler import Compiler
        x, y = Compiler(ArchEnum.HEXAGON), Compiler(ArchEnum.HEXAGON)
    elif a["cls"] == "PreprocessorHexagon":
        from rzilcompiler.Preprocessor.Hexagon.PreprocessorHexagon import PreprocessorHexagon
        x, y = PreprocessorHexagon("a"), PreprocessorHexagon("b")
    else:
        from rzilcompiler.HexagonExtensions import HexagonTransformerExtension
        x, y = HexagonTransformerExtension(None), HexagonTransformerExtension(None)
    same = getattr(x, a["attr"]) is getattr(y, a["attr"])
    return same, f"two instances of {a['cls']}: .{a['attr']} is the same object: {same}"


@replay.register("c14.two_instances")
def replay_two_instances(a):
    from rzilcompiler.Compiler import Compiler
    from rzilcompiler.ArchEnum import ArchEnum
    import io
    import contextlib
    with contextlib.redirect_stdout(io.StringIO()):
        x, y = Compiler(ArchEnum.HEXAGON), Compiler(ArchEnum.HEXAGON)
    shared = []
    for path, get in (("sub_routines", lambda c: c.sub_routines), ("transformer.macros", lambda c: c.transformer.macros),
                      ("transformer.sub_routines", lambda c: c.transformer.sub_routines), ("compiled_insns", lambda c: c.compiled_insns),
                      ("parsed_insns", lambda c: c.parsed_insns), ("preprocessor.behaviors", lambda c: c.preprocessor.behaviors),
                      ("transformer.parameters", lambda c: c.transformer.parameters)):
        if get(x) is get(y):
            shared.append(path)
    for k in x.transformer.macros:
        if x.transformer.macros[k] is y.transformer.macros.get(k):
            shared.append(f"macro object {k}")
            break
    for k in x.sub_routines:
        if x.sub_routines[k] is y.sub_routines.get(k):
            shared.append(f"sub-routine object {k}")
            break
    return bool(shared), f"two Compiler instances share: {shared}"


@replay.register("c14.compile_c_stmt")
def replay_compile_c_stmt(a):
    from rzilcompiler.Compiler import Compiler
    from rzilcompiler.ArchEnum import ArchEnum
    c = Compiler(ArchEnum.HEXAGON)
    ref = c.compile_c_stmt("{ RdV = 1; }")
    try:
        # fails while an immediate copy, registered operands AND a pending side effect (the call) are outstanding
        c.compile_c_stmt("{ RdV = siV + RsV++; RdV = clz32(RsV) + unknown_fn(RtV); }")
        return None, "failing statement did not fail"
    except Exception as e:
        exc = type(e).__name__
    h = c.transformer.il_ops_holder
    left = list(h.read_ops) + list(h.exec_ops) + list(h.write_ops) + list(h.hybrid_effect_dict) + [str(e) for e in c.transformer.imm_set_effect_list]
    again = c.compile_c_stmt("{ RdV = 1; }")
    return again != ref or bool(left), f"after a statement that raised {exc}: holder keeps {left}; recompiling '{{ RdV = 1; }}' gives identical text: {again == ref}"


@replay.register("c14.history_pair")
def replay_history_pair(a):
    """real Compiler objects: every ordered pair (first entry point, succeeding or raising; second entry point) - the second result must
    equal what a fresh Compiler produces (numbering of generated names aside, which legitimately continues)"""
    import re as _re
    from rzilcompiler.Compiler import Compiler
    from rzilcompiler.ArchEnum import ArchEnum
    from rzilcompiler.Parser import Parser
    parsed = Parser().parse({"X_hist_ok": ["{ RdV = RtV; }"], "X_hist_fail": ["{ RdV = siV + RsV++; PdV = unknown_fn(RtV); }"], "X_hist_second": ["{ RdV = RsV; }"]})

    def norm(x):
        return _re.sub(r"_\d+", "_N", str(x))
    firsts = {
        "statement that succeeds": lambda c: c.compile_c_stmt("{ RdV = mem_load_s16(EA) + siV; }"),
        "statement that raises": lambda c: c.compile_c_stmt("{ RdV = siV + RsV++; PdV = clz32(RsV) + unknown_fn(RtV); }"),
        "instruction that succeeds": lambda c: c.transform_insn("X_hist_ok", parsed["X_hist_ok"]),
        "instruction that raises": lambda c: c.transform_insn("X_hist_fail", parsed["X_hist_fail"]),
    }
    seconds = {
        "statement": lambda c: norm(c.compile_c_stmt("{ RdV = RsV; }")),
        "instruction": lambda c: (lambda r: norm((r.rzil, r.meta)))(c.transform_insn("X_hist_second", parsed["X_hist_second"])),
    }
    ref = {k: f(Compiler(ArchEnum.HEXAGON)) for k, f in seconds.items()}
    bad = []
    for fk, ff in firsts.items():
        for sk, sf in seconds.items():
            c = Compiler(ArchEnum.HEXAGON)
            try:
                ff(c)
            except Exception:           # noqa: BLE001 - the raising histories are the point
                pass
            try:
                got = sf(c)
            except Exception as e:      # noqa: BLE001
                got = f"raises {type(e).__name__}"
            if got != ref[sk]:
                bad.append(f"after a {fk}, the {sk} '{{ RdV = RsV; }}' differs from a fresh compiler's: {got[:160]} vs {ref[sk][:160]}")
    return bool(bad), "; ".join(bad[:2]) if bad else "all 8 histories give the fresh compiler's result"


@replay.register("c14.stale_holder")
def replay_stale_holder(a):
    """real transformer: register an operand, reset, then look for an operand holder other than the current one that is still reachable
    from the transformer and still holds operands"""
    from rzilcompiler.Transformer.RZILTransformer import RZILTransformer
    from rzilcompiler.Transformer.ILOpsHolder import ILOpsHolder
    from rzilcompiler.Transformer.Pures.Variable import Variable
    from rzilcompiler.Transformer.ValueType import ValueType
    from rzilcompiler.ArchEnum import ArchEnum
    t = RZILTransformer(ArchEnum.HEXAGON)
    t.add_op(Variable("stale_x", ValueType(True, 32)))
    t.reset()
    found, seen, todo = [], set(), [(t, "transformer", 0)]
    while todo:
        o, path, d = todo.pop()
        if id(o) in seen or d > 3 or not hasattr(o, "__dict__"):
            continue
        seen.add(id(o))
        if isinstance(o, ILOpsHolder) and o is not t.il_ops_holder and (o.read_ops or o.exec_ops or o.write_ops or o.let_ops):
            found.append(path)
            continue
        for f, v in vars(o).items():
            if hasattr(v, "__dict__") and not isinstance(v, type):
                todo.append((v, f"{path}.{f}", d + 1))
    return bool(found), f"after reset() a holder that still lists the operands of the previous behaviour is reachable through {found}"


@replay.register("c14.reset")
def replay_reset(a):
    from rzilcompiler.Transformer.RZILTransformer import RZILTransformer
    from rzilcompiler.ArchEnum import ArchEnum
    t = RZILTransformer(ArchEnum.HEXAGON)
    h = t.il_ops_holder
    parts = a.get("parts") or list(DIRTY_PARTS)
    if "pending" in parts:
        h.hybrid_effect_dict["x"] = object()
    if "tables" in parts:
        for d in (h.read_ops, h.exec_ops, h.write_ops, h.let_ops):
            d["x"] = object()
    if "counters" in parts:
        h.op_count = 7
    if "immediates" in parts:
        t.imm_set_effect_list.append(object())
    if "flags" in parts:
        for f in FLAGS:
            setattr(t.ext, f, True)
    if "preds" in parts:
        t.ext.preds_written.append(2)
    t.reset()
    h = t.il_ops_holder          # the holder in use after the reset (reset may clear the old one or install a new one)
    left = {n: len(getattr(h, n)) for n in ("hybrid_effect_dict", "read_ops", "exec_ops", "write_ops", "let_ops")}
    left.update(op_count=h.op_count, imm=len(t.imm_set_effect_list), preds=list(t.ext.preds_written),
                flags=[f for f in FLAGS if getattr(t.ext, f)])
    bad = any(v for k, v in left.items())
    return bool(bad), f"dirty components {parts}; state after reset(): {left}"


# ------------------------------------------------------------------------------------------
def gen_numbering(loader, check, replay_on=True):
    """the numbering counters (op_count, hybrid_op_count) are the one piece of state that legitimately survives between behaviours;
    the emitted effect must not depend on their value: the order of the final sequence is the same at every numbering, also where
    the temporaries' names do not sort like their numbers (the ordering contracts of C06 at counters 0, 9, 99)"""
    from . import c06
    saved = getattr(check, "ob_filter", None)
    check.ob_filter = r"keep-their-source-order|emit_final_seq_return#total"
    try:
        c06.gen_selected(loader, check, replay_on)
    finally:
        check.ob_filter = saved


def gen_type_objects(loader, check, replay_on=True):
    """state that hides in shared type objects: the type a spelling denotes is independent of earlier declarations (generator of C01)"""
    from . import c01
    saved = getattr(check, "ob_filter", None)
    check.ob_filter = r"declaration-type#history"
    try:
        c01.gen_type_history(loader, check, replay_on)
    finally:
        check.ob_filter = saved


def gen_task(loader, check, what, replay_on=True):
    if what == "type_objects":
        return gen_type_objects(loader, check, replay_on)
    {"inventory": gen_inventory, "reset": gen_reset, "entry": gen_entry_points, "resources": gen_resources,
     "two_instances": gen_two_instances, "numbering": gen_numbering}[what](loader, check, replay_on)


def generate_reduced(loader, check):
    for w in ("inventory", "reset", "entry", "resources", "two_instances", "numbering", "type_objects"):
        gen_task(loader, check, w, False)


def run(check: Check):
    check.trust("T-VCGEN: pyvc interpretation of the Python subset (mitigated by mutant self-test and native replay)")
    check.trust("T-LARK: Lark.parse / Transformer.transform are replaced by assumed contracts (arbitrary effect on the "
                "per-behaviour state of the transformer they run on, return or raise any Exception)")
    check.trust("T-IND: the invariant 'per-behaviour state is reset between entry-point calls' holds initially (fresh "
                "transformer obligation) and is preserved by every entry point on every exit; induction over the call "
                "history is metatheory")
    check.assume("state classification: contracts/state.json (per-behaviour / resource / numbering / diagnostic / output-cache); "
                 "an attribute missing from it makes the check undecided (exit 2), never silently accepted")
    check.assume("callbacks write only per-behaviour state and the two resource objects covered by the two-state obligations "
                 "(Parameter.reads, SubRoutine return-type group); frames of the individual callbacks are the #modifies "
                 "obligations of C02/C03")
    check.run_parallel("contracts.c14", "gen_task", [{"what": w} for w in ("inventory", "reset", "entry", "resources", "two_instances", "numbering", "type_objects")], workers=WORKERS)
    if check.undecided:
        pass
    run_mutants(check, MUTANTS, "contracts.c14", "generate_reduced")
    # a mutant that makes the inventory undecided is also detected (exit 2 instead of 0)
    return check.finish(
        level="proof",
        rule="one obligation per (entry point / function, exit kind, path, per-behaviour attribute); pre-state symbolic/dirty")
