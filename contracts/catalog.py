"""Catalogue of text-emitting functions (il_read / il_exec / il_write / il_init_var) of the IR classes
that are not already covered by contracts/c02.py, c03.py, c05.py, with the obligation families
  #sort / #well-sorted      (C10)   emitted expression is well-sorted and has sort(node)
  #decl                     (C11)   a declaration line has the shape  <ctype> [*]<ident> = <expr>;
  #atom-linearity / #raw    (C12)   operand texts used once; first use raw, later uses DUP
  #binding                  (C07)   operand / register / immediate binding facts
Each check selects its families with an obligation filter.
"""
from __future__ import annotations
import re
import z3
from lark import Token

from pyvc.interp import explore
from pyvc.values import Obj, Tpl, Atom, SInt
from spec import rzil, ir, c11
from . import irkit, tkit, emit
from .common import T8, tname, conc_vt

DECL_RE = re.compile(r"^(const )?(RzILOpPure|RzILOpEffect|RzILOpBool|HexOp|HexPkt|HexInsn) (\*)?([A-Za-z_]\w*) = $")
PLUGIN_IDS = {"pkt", "hi", "bundle", "true", "false"}


def split_lines(t: Tpl):
    """template -> list of line-templates (split at newlines inside literal chunks)"""
    lines, cur = [], []
    for p in t.parts:
        if isinstance(p, str):
            segs = p.split("\n")
            for i, sg in enumerate(segs):
                if i > 0:
                    lines.append(Tpl(cur))
                    cur = []
                if sg:
                    cur.append(sg)
        else:
            cur.append(p)
    lines.append(Tpl(cur))
    return [l for l in lines if l.parts]


def parse_decl(line: Tpl):
    """-> ('comment', text) | ('decl', ctype, is_ptr, name, expr_parts) | ('bad', reason)"""
    if not line.parts:
        return ("empty",)
    head = line.parts[0]
    if isinstance(head, str) and head.startswith("//"):
        return ("comment", line.render(lambda a: a.tag))
    if not isinstance(head, str):
        return ("bad", "line does not start with a C type")
    i = head.find(" = ")
    if i < 0:
        return ("bad", f"no initialiser in {head!r}")
    m = DECL_RE.match(head[:i + 3])
    if not m:
        return ("bad", f"not a declaration: {head[:i + 3]!r}")
    last = line.parts[-1]
    if not (isinstance(last, str) and last.endswith(";")):
        return ("bad", "declaration does not end with ';'")
    if len(line.parts) == 1:
        expr = [head[i + 3:-1]]
    else:
        expr = [head[i + 3:]] + line.parts[1:-1] + [last[:-1]]
    expr = [e for e in expr if not (isinstance(e, str) and e == "")]
    return ("decl", m.group(2), bool(m.group(3)), m.group(4), expr)


def balanced(parts):
    d = 0
    for p in parts:
        if isinstance(p, str):
            for ch in p:
                if ch == "(":
                    d += 1
                elif ch == ")":
                    d -= 1
                    if d < 0:
                        return False
    return d == 0


def check_text(check, name, pi, pc, value, want_sort=None, decl=None, ops=(), cvars=None, locals_w=None, op_widths=None,
               lines_expected=None, replay=None, allow_empty=False):
    """Generic obligations on an emitted text.  decl: expected ('RzILOpPure', True) C type of each declaration."""
    t = emit.as_tpl(value)
    check.ob(f"{name}#returns-text", pi, pc, t is not None, replay=replay)
    if t is None:
        return None
    if not t.parts:
        check.ob(f"{name}#empty-only-when-allowed", pi, pc, allow_empty, replay=replay)
        return t
    exprs = []
    if decl is not None:
        lines = split_lines(t)
        n_decl = 0
        for ln in lines:
            d = parse_decl(ln)
            if d[0] == "comment":
                continue
            check.ob(f"{name}#decl.shape", pi, pc, d[0] == "decl", replay=replay, detail=d[1] if d[0] == "bad" else "")
            if d[0] != "decl":
                continue
            n_decl += 1
            ctype, is_ptr, ident, expr = d[1:]
            check.ob(f"{name}#decl.parentheses-balanced", pi, pc, balanced(expr), replay=replay)
            exprs.append((ctype, is_ptr, ident, expr))
        if lines_expected is not None:
            check.ob(f"{name}#decl.count", pi, pc, n_decl == lines_expected, replay=replay, detail=f"{n_decl} declarations: {t.render(lambda a: a.tag)}")
    else:
        exprs.append((None, None, None, t.parts))
    results = []
    for ctype, is_ptr, ident, expr in exprs:
        if ctype is not None and ctype.startswith("Hex"):
            results.append((ctype, ident, None, None))
            continue   # operand bindings: C-level plugin calls, checked by C07
        try:
            term = rzil.parse_expr(expr)
            ev = rzil.Evaluator(locals_w=locals_w, op_widths=op_widths, cvars=cvars)
            v = ev.ev(term)
            err = None
        except (rzil.ParseError, rzil.SortError) as e:
            term, v, err, ev = None, None, str(e), None
        ws = want_sort
        if ctype == "RzILOpEffect":
            ws = "effect"
        check.ob(f"{name}#well-sorted", pi, pc, err is None and (ws is None or v.sort == ws or (isinstance(ws, tuple) and ws[1] is None and rzil.is_bv(v.sort))), replay=replay,
                 detail=err or f"sort {v.sort}, expected {ws}; text {Tpl(expr).render(lambda a: a.tag)}")
        if ctype is not None and err is None:
            okc = (ctype == "RzILOpEffect") == (v.sort == "effect") and (ctype != "RzILOpBool" or v.sort == "bool")
            check.ob(f"{name}#decl.ctype-matches-sort", pi, pc, okc, replay=replay, detail=f"{ctype} {ident} initialised with a {v.sort}")
        results.append((ctype, ident, term, v))
    # atom linearity: every operand text obtained is embedded exactly once
    if ops is not None:
        produced = sum(o.ghost.get("nreads", 0) + o.ghost.get("nuses", 0) for o in ops)
        keys = [(a.tag, a.ordinal) for a in t.atoms() if a.kind in ("read", "effvar")]
        check.ob(f"{name}#atom-linearity", pi, pc, len(keys) == len(set(keys)) and len(keys) == produced, replay=replay,
                 detail=f"operand texts obtained: {produced}, embedded: {keys}")
    return results


def listed_obligation(check, name, pi, p, node, ops):
    """class invariant of effects / hybrids: every operand whose text the emitter reads is in the node's operand list
    (effect_ops / ops) - the declaration order 'operands before their user' and the pending-effect lookup are computed from that list"""
    if not isinstance(node, Obj):
        return
    listed = list(node.fields.get("effect_ops") or []) + list(node.fields.get("ops") or [])
    missing = [getattr(o, "label", repr(o)) for o in ops if isinstance(o, Obj) and (o.ghost.get("nreads", 0) or o.ghost.get("nuses", 0)) and not any(o is x for x in listed)]
    check.ob(f"{name}#children: every operand the emitter reads is in the node's operand list", pi, p.ctx.pc, not missing, detail=f"read but not listed: {missing}")


def gen_macro_table(loader, check, replay_on=True):
    """Data obligations: the macro table the compiler loads (qemu_rzil_macros.json) declares, for every helper the shortcode calls, the
    parameter and return types of its prototype (spec/hexagon.MACRO_PROTOTYPES, T-PLUGIN) - argument conversion and the sort of the
    emitted macro call are computed from these declarations - and the loader turns them into exactly those value types."""
    import json
    import os
    from spec import hexagon as hx
    path = os.path.join(loader.repo, "Resources/Hexagon/qemu_rzil_macros.json")
    with open(path) as f:
        table = json.load(f)["macros"]
    for name, (ret, params, rz) in sorted(hx.MACRO_PROTOTYPES.items()):
        ent = table.get(name)
        ok = ent is not None and ent.get("return_type") == ret and ent.get("params") == params and ent.get("rzil_macro") == rz
        check.ob("macro-table#declared prototype is the helper's prototype (return type, parameter types, emitted macro)", name, [], ok,
                 detail=f"data file: {ent}; prototype: {ret} {name}({', '.join(params)}) -> {rz}")
        check.instances_declared += 1
        check.instances_generated += 1
    extra = sorted(set(table) - set(hx.MACRO_PROTOTYPES))
    check.ob("macro-table#no entry without a reviewed prototype", "all entries", [], not extra, detail=f"entries without prototype in spec/hexagon.py: {extra}")


def gen_data_pins(loader, check, replay_on=True, what=("noped", "routines")):
    """Data obligations: the no-op list and the bundled sub-routine sources are the reviewed ones (spec/bundled_data.py, T-QEMU).  An
    instruction added to the no-op list is translated to `return NOP();` whatever its behaviour says; a changed routine body changes
    what every caller computes - neither can be seen by contracts on the compiler's code, only on its data."""
    import json
    import os
    from spec import bundled_data as bd
    if "noped" in what:
        with open(os.path.join(loader.repo, "Resources/Hexagon/noped_insns.json")) as f:
            nop = json.load(f)["noped"]
        extra, missing = sorted(set(nop) - set(bd.NOPED)), sorted(set(bd.NOPED) - set(nop))
        check.ob("noped_insns#data: only reviewed instructions are compiled as no-op", "noped_insns.json", [], not extra,
                 detail=f"listed as no-op without review: {extra}", replay=("catalog.noped", lambda mdl, extra=extra: {"names": extra}) if replay_on and extra else None)
        check.ob("noped_insns#data: every reviewed no-op is still listed", "noped_insns.json", [], not missing, detail=f"no longer listed: {missing}")
        check.instances_declared += 1
        check.instances_generated += 1
    if "routines" in what:
        with open(os.path.join(loader.repo, "Resources/Hexagon/sub_routines.json")) as f:
            sr = json.load(f)["sub_routines"]
        for name in sorted(set(sr) | set(bd.SUB_ROUTINES)):
            a, b = sr.get(name), bd.SUB_ROUTINES.get(name)
            diff = [k for k in ("return_type", "params", "code") if (a or {}).get(k) != (b or {}).get(k)]
            check.ob("sub_routines#data: the bundled routine is the reviewed transcription (return type, parameters, body)", name, [], not diff,
                     detail=f"differs from the reviewed copy in {diff}")
            check.instances_declared += 1
            check.instances_generated += 1


def run_inst(check, loader, name, inst, setup, run, post, contracts=None, frame=True):
    check.instances_declared += 1

    def setup_marked(it):
        st = setup(it)
        roots = []

        def walk(v):
            if isinstance(v, Obj):
                roots.append(v)
            elif isinstance(v, dict):
                for x in v.values():
                    walk(x)
            elif isinstance(v, (list, tuple)):
                for x in v:
                    walk(x)
        walk(st)
        if roots and frame:
            it.ctx.mark_pre(*roots)
        return st
    ex = explore(loader, setup_marked, run, contracts=contracts)
    check.absorb(ex, f"{name} {inst}")
    if ex.paths:
        check.instances_generated += 1
    for i, p in enumerate(ex.paths):
        pi = inst if len(ex.paths) == 1 else f"{inst} path={i}"
        post(p, pi)
        if p.outcome == "return" and frame:
            emit.frame_obligation(check, name, pi, p)


# ------------------------------------------------------------------------------------------
def gen_pureexec(loader, check, replay_on=True):
    """PureExec.il_init_var / il_read: declare once, first read raw, later reads DUP, LET wrapping of non-inlined literals."""
    PE = irkit.C(loader, "PureExec")
    check.under_contract(loader, PE.methods["il_init_var"], PE.methods["il_read"],
                         loader.load(irkit.CLS["LetVar"]).globals["resolve_lets"], loader.load(irkit.CLS["LetVar"]).globals["get_local_pures"])
    AT = irkit.enum(loader, "ArithmeticOp", "ArithmeticType")
    for lit in ("none", "non-inlined-literal", "inlined-literal", "nested-inlined-cast-of-non-inlined-literal"):
        for inlined in (False, True):
            inst = f"ArithmeticOp literal-operand={lit} inlined={inlined}"

            def setup(it, lit=lit, inlined=inlined):
                t = (True, 32)
                a = irkit.mk_operand(it, "Variable", t, "a")
                ops = [a]
                if lit == "none":
                    b = irkit.mk_operand(it, "Register", t, "b")
                    ops.append(b)
                else:
                    b = it.call(irkit.C(loader, "Number"), ["const_5", 5, conc_vt(loader, t)], {})
                    b.fields["inlined"] = lit == "inlined-literal"
                    if lit.startswith("nested"):
                        b = it.call(irkit.C(loader, "Cast"), ["cast", conc_vt(loader, t), b], {})
                        b.fields["inlined"] = True
                        b.fields["ops"][0].fields["value_type"] = conc_vt(loader, (False, 32))
                n = it.call(irkit.C(loader, "ArithmeticOp"), ["op_ADD_3", a, b, AT("+")], {})
                n.fields["inlined"] = inlined
                return {"n": n, "ops": ops}

            def run(it, st):
                n = st["n"]
                return [it.call(it.getattr_(n, "il_init_var"), [], {}), it.call(it.getattr_(n, "il_init_var"), [], {}),
                        it.call(it.getattr_(n, "il_read"), [], {}), it.call(it.getattr_(n, "il_read"), [], {}), it.call(it.getattr_(n, "il_read"), [], {})]

            def post(p, pi, inlined=inlined, lit=lit):
                pc = p.ctx.pc
                check.ob("PureExec#total", pi, pc, p.outcome == "return", detail="" if p.outcome == "return" else f"raises {p.value!r}")
                if p.outcome != "return":
                    return
                init1, init2, r1, r2, r3 = p.value
                cv = {"const_5": ("bv", 32)}
                if inlined:
                    check.ob("PureExec.il_init_var#inlined-nodes-declare-nothing", pi, pc, init1 == "" and init2 == "")
                    for k, r in enumerate((r1, r2, r3)):
                        check_text(check, "PureExec.il_read(inlined)", f"{pi} read={k + 1}", pc, r, want_sort=("bv", 32), ops=None, cvars=cv)
                else:
                    check_text(check, "PureExec.il_init_var", pi, pc, init1, decl=True, lines_expected=1, ops=None, cvars=cv)
                    check.ob("PureExec.il_init_var#declared-at-most-once", pi, pc, init2 == "", detail=repr(init2))
                    check.ob("PureExec.il_read#raw.first-use-is-the-variable", pi, pc, r1 == "op_ADD_3", detail=repr(r1))
                    check.ob("PureExec.il_read#raw.later-uses-are-DUP", pi, pc, r2 == "DUP(op_ADD_3)" and r3 == "DUP(op_ADD_3)", detail=f"{r2!r} {r3!r}")
            run_inst(check, loader, "PureExec", inst, setup, run, post)


def gen_leaf_reads(loader, check, replay_on=True):
    """il_read of variable-backed pures with a symbolic read history; il_init_var shapes."""
    GV = irkit.C(loader, "GlobalVar")
    check.under_contract(loader, GV.methods["il_read"], irkit.C(loader, "LocalVar").methods["il_read"], irkit.C(loader, "LocalVar").methods["il_init_var"],
                         irkit.C(loader, "Variable").methods["il_init_var"], irkit.C(loader, "Parameter").methods["il_read"],
                         irkit.C(loader, "Immediate").methods["il_read"], irkit.C(loader, "Immediate").methods["il_init_var"],
                         irkit.C(loader, "Register").methods["il_read"], irkit.C(loader, "Register").methods["il_init_var"])
    RA = irkit.enum(loader, "Register", "RegisterAccessType")
    G = loader.load("rzilcompiler.Transformer.ValueType").globals["VTGroup"]
    R0 = z3.Int("reads0")

    def sym_reads(it, o):
        it.ctx.assume(R0 >= 0)
        o.fields["reads"] = SInt(R0)

    # GlobalVar / Register(R, RW...) / Parameter(PURE): raw iff no earlier read
    for kind in ("Register:R", "Register:RW", "Register:UNKNOWN", "Register:PR", "Parameter:PURE"):
        inst = f"{kind} any-read-history"

        def setup(it, kind=kind):
            if kind.startswith("Register"):
                acc = RA[kind.split(":")[1]]
                o = it.call(irkit.C(loader, "Register"), ["Rss" if acc == RA.PR else "Rs", acc, conc_vt(loader, (True, 64 if acc == RA.PR else 32))], {})
            else:
                o = it.call(irkit.C(loader, "Parameter"), ["x", conc_vt(loader, (True, 32))], {})
            sym_reads(it, o)
            return o

        def post(p, pi, kind=kind):
            pc = p.ctx.pc
            check.ob("variable-backed.il_read#total", pi, pc, p.outcome == "return")
            if p.outcome != "return":
                return
            o = p.state
            var = "x" if kind.startswith("Parameter") else ("Rss" if "PR" in kind else "Rs")
            r = p.value
            first = (R0 == 0)
            isdup = (r == f"DUP({var})")
            israw = (r == var)
            check.ob("variable-backed.il_read#raw.raw-iff-first-use", pi, pc, z3.And(z3.Implies(first, z3.BoolVal(israw)), z3.Implies(z3.Not(first), z3.BoolVal(isdup))),
                     detail=f"text {r!r}")
            after = o.fields["reads"]
            check.ob("variable-backed.il_read#raw.counter-advances", pi, pc, isinstance(after, SInt) and after.t == R0 + 1)
        run_inst(check, loader, "variable-backed.il_read", inst, setup, lambda it, o: it.call(it.getattr_(o, "il_read"), [], {}), post)

    # parameters of external type (pkt, hi, bundle, operand handles) are plain C values, not owned IL nodes: always the bare name
    for ext_t in ("HexPkt", "HexInsnPktBundle", "const HexOp *"):
        inst = f"Parameter:EXTERNAL({ext_t}) any-read-history"

        def setup_e(it, ext_t=ext_t):
            G = loader.load("rzilcompiler.Transformer.ValueType").globals["VTGroup"]
            vt = conc_vt(loader, (False, 64), G.EXTERNAL)
            vt.fields["external_type"] = ext_t
            o = it.call(irkit.C(loader, "Parameter"), ["pkt", vt], {})
            sym_reads(it, o)
            return o

        def post_e(p, pi):
            check.ob("Parameter.il_read#raw.external-parameter-is-always-the-bare-name (never DUP of a C value)", pi, p.ctx.pc,
                     p.outcome == "return" and p.value == "pkt", detail=f"{p.outcome} {p.value!r}")
        run_inst(check, loader, "Parameter.il_read", inst, setup_e, lambda it, o: it.call(it.getattr_(o, "il_read"), [], {}), post_e)

    # locals are read through VARL (a fresh IL node each time): never DUP
    for kind in ("Variable", "HybridTmp", "ReturnValue"):
        def setup(it, kind=kind):
            if kind == "Variable":
                o = irkit.mk_var(it, "v", (True, 32))
            elif kind == "HybridTmp":
                o = irkit.mk_operand(it, "HybridTmp", (True, 32), "h")
                o.stubs.clear()
            else:
                o = it.call(irkit.C(loader, "ReturnValue"), [conc_vt(loader, (True, 32))], {})
            sym_reads(it, o)
            return o

        def post(p, pi, kind=kind):
            nm = {"Variable": "v", "HybridTmp": "h_tmp0", "ReturnValue": "ret_val"}[kind]
            check.ob("LocalVar.il_read#reads-through-VARL", pi, p.ctx.pc, p.outcome == "return" and p.value == f'VARL("{nm}")', detail=repr(p.value))
        run_inst(check, loader, "LocalVar.il_read", f"{kind} any-read-history", setup, lambda it, o: it.call(it.getattr_(o, "il_read"), [], {}), post)

    # il_init_var shapes
    for kind, t in (("Variable", (True, 32)), ("Variable", (False, 8)), ("HybridTmp", (True, 32)), ("ReturnValue", (True, 64))):
        def setup(it, kind=kind, t=t):
            if kind == "Variable":
                return irkit.mk_var(it, "v", t)
            if kind == "HybridTmp":
                o = irkit.mk_operand(it, "HybridTmp", t, "h")
                o.stubs.clear()
                return o
            return it.call(irkit.C(loader, "ReturnValue"), [conc_vt(loader, t)], {})

        def post(p, pi):
            ok = p.outcome == "return" and isinstance(p.value, str) and (p.value == "" or (p.value.startswith("// ") and "\n" not in p.value))
            check.ob("LocalVar.il_init_var#decl.comment-or-nothing", pi, p.ctx.pc, ok, detail=repr(p.value))
        run_inst(check, loader, "LocalVar.il_init_var", f"{kind}:{tname(t)}", setup, lambda it, o: it.call(it.getattr_(o, "il_init_var"), [], {}), post)

    # Immediate: declaration SN|UN(32, (st32|ut32) ISA2IMM(hi, '<letter>')); first read inside its own assignment raw, afterwards VARL
    for letter, signed in (("s", True), ("S", True), ("r", True), ("R", True), ("u", False), ("U", False), ("m", False), ("n", False)):
        def setup(it, letter=letter, signed=signed):
            return it.call(irkit.C(loader, "Immediate"), [letter, conc_vt(loader, (signed, 32))], {})

        def run(it, o):
            init = it.call(it.getattr_(o, "il_init_var"), [], {})
            o.fields["assign_usage"] = True       # what Assignment.il_write does for the imm_assign effect
            r1 = it.call(it.getattr_(o, "il_read"), [], {})
            r2 = it.call(it.getattr_(o, "il_read"), [], {})
            o.fields["assign_usage"] = True
            r3 = it.call(it.getattr_(o, "il_read"), [], {})
            return init, r1, r2, r3

        def post(p, pi, letter=letter, signed=signed):
            pc = p.ctx.pc
            check.ob("Immediate#total", pi, pc, p.outcome == "return")
            if p.outcome != "return":
                return
            init, r1, r2, r3 = p.value
            res = check_text(check, "Immediate.il_init_var", pi, pc, init, decl=True, lines_expected=1, ops=None, want_sort=("bv", 32))
            want = f"RzILOpPure *{letter} = {'SN' if signed else 'UN'}(32, ({'st32' if signed else 'ut32'}) ISA2IMM(hi, '{letter}'));"
            check.ob("Immediate.il_init_var#binding.fetched-by-letter-with-signedness", pi, pc, init == want, detail=f"{init!r}")
            check.ob("Immediate.il_read#raw.variable-consumed-once-by-its-assignment", pi, pc,
                     r1 == letter and r2 == f'VARL("{letter}")' and r3 == f'VARL("{letter}")', detail=f"{r1!r} {r2!r} {r3!r}")
        run_inst(check, loader, "Immediate", f"letter={letter}", setup, run, post)


def gen_misc_nodes(loader, check, replay_on=True):
    gen_macro_table(loader, check, replay_on)
    _gen_misc_nodes(loader, check, replay_on)


def _gen_misc_nodes(loader, check, replay_on=True):
    """MemLoad, MemStore, Jump, PostfixIncDec, Call, SubRoutineCall, MacroInvocation, Hybrid/Effect il_init_var, ArithmeticOp(/ %)."""
    G = loader.load("rzilcompiler.Transformer.ValueType").globals["VTGroup"]
    RA = irkit.enum(loader, "Register", "RegisterAccessType")
    HT = irkit.enum(loader, "Hybrid", "HybridType")
    AT = irkit.enum(loader, "ArithmeticOp", "ArithmeticType")
    for cn, ms in (("MemLoad", ["il_exec", "__init__"]), ("MemStore", ["il_write", "__init__"]), ("Jump", ["il_write", "__init__"]),
                   ("PostfixIncDec", ["il_write", "il_exec", "il_read", "__init__"]), ("Call", ["il_exec", "il_read", "il_write", "__init__"]),
                   ("SubRoutineCall", ["il_write", "il_read", "__init__"]), ("SubRoutine", ["il_read", "il_init", "check_for_bundle_usage", "__init__"]),
                   ("MacroInvocation", ["il_exec", "__init__"]), ("Hybrid", ["il_init_var", "__init__"]), ("Effect", ["il_init_var"]),
                   ("GCCStmtDeclExpr", ["il_write", "il_read", "__init__"])):
        c = irkit.C(loader, cn)
        check.under_contract(loader, *[c.methods[m] for m in ms])
    check.under_contract(loader, loader.load(irkit.CLS["SubRoutine"]).globals["build_arg_list"])

    # ---- division / modulo emission: well-sorted; RzIL DIV/MOD are the *unsigned* operators ---------------
    for t in T8:
        for op in ("/", "%"):
            def build(it, t=t, op=op):
                a, b = irkit.mk_operand(it, "Variable", t, "a"), irkit.mk_operand(it, "Variable", t, "b")
                it.ctx.assume(b.ghost["den"] != 0)
                return it.call(irkit.C(loader, "ArithmeticOp"), ["op", a, b, AT(op)], {}), [a, b]
            emit.run_emission(check, loader, f"ArithmeticOp.il_exec({op})", f"type={tname(t)} signed={'yes' if t[0] else 'no'}", build,
                              replay_builder=(lambda sp, op=op: ["arith", op, sp[0], sp[1]]) if replay_on else None)

    # ---- MemLoad / MemStore / Jump ------------------------------------------------------------------------
    for w in (8, 16, 32, 64):
        for s_ in (True, False):
            def setup(it, w=w, s_=s_):
                ea = irkit.mk_operand(it, "Variable", (False, 32), "ea")
                mat = it.call(irkit.C(loader, "MemAccessType"), [conc_vt(loader, (s_, w)), True], {})
                n = it.call(irkit.C(loader, "MemLoad"), ["ml_EA", ea, mat], {})
                return {"n": n, "ops": [ea]}

            def post(p, pi, w=w):
                check.ob("MemLoad.il_exec#total", pi, p.ctx.pc, p.outcome == "return")
                if p.outcome == "return":
                    res = check_text(check, "MemLoad.il_exec", pi, p.ctx.pc, p.value, want_sort=("bv", w), ops=p.state["ops"])
                    listed_obligation(check, "MemLoad.il_exec", pi, p, p.state["n"], p.state["ops"])
                    t = emit.as_tpl(p.value)
                    check.ob("MemLoad.il_exec#binding.LOADW-width-and-address", pi, p.ctx.pc,
                             len(t.parts) == 3 and t.parts[0] == f"LOADW({w}, " and isinstance(t.parts[1], Atom) and t.parts[1].tag == "ea" and t.parts[2] == ")",
                             detail=t.render(lambda a: a.tag))
            run_inst(check, loader, "MemLoad.il_exec", f"access={'s' if s_ else 'u'}{w}", setup, lambda it, st: it.call(it.getattr_(st["n"], "il_exec"), [], {}), post)

            def setup2(it, w=w, s_=s_):
                ea = irkit.mk_operand(it, "Variable", (False, 32), "ea")
                d = irkit.mk_operand(it, "Cast", (s_, w), "data")
                return {"n": it.call(irkit.C(loader, "MemStore"), ["ms", ea, d], {}), "ops": [ea, d]}

            def post2(p, pi):
                check.ob("MemStore.il_write#total", pi, p.ctx.pc, p.outcome == "return")
                if p.outcome == "return":
                    check_text(check, "MemStore.il_write", pi, p.ctx.pc, p.value, want_sort="effect", ops=p.state["ops"])
                    listed_obligation(check, "MemStore.il_write", pi, p, p.state["n"], p.state["ops"])
                    t = emit.as_tpl(p.value)
                    tags = [a.tag for a in t.atoms()]
                    check.ob("MemStore.il_write#binding.STOREW(address, data)", pi, p.ctx.pc, tags == ["ea", "data"] and t.parts[0] == "STOREW(", detail=t.render(lambda a: a.tag))
            run_inst(check, loader, "MemStore.il_write", f"access={'s' if s_ else 'u'}{w}", setup2, lambda it, st: it.call(it.getattr_(st["n"], "il_write"), [], {}), post2)

    def setup(it):
        tg = irkit.mk_operand(it, "Cast", (False, 32), "target")
        return {"n": it.call(irkit.C(loader, "Jump"), ["jump", tg], {}), "ops": [tg]}

    def post(p, pi):
        check.ob("Jump.il_write#total", pi, p.ctx.pc, p.outcome == "return")
        if p.outcome == "return":
            check_text(check, "Jump.il_write", pi, p.ctx.pc, p.value, want_sort="effect", ops=p.state["ops"], locals_w={"jump_target": 32})
            listed_obligation(check, "Jump.il_write", pi, p, p.state["n"], p.state["ops"])
            t = emit.as_tpl(p.value)
            check.ob("Jump.il_write#binding.sets-taken-flag-and-32-bit-target", pi, p.ctx.pc,
                     t.render(lambda a: "@") == 'SEQ2(SETL("jump_flag", IL_TRUE), SETL("jump_target", @))', detail=t.render(lambda a: a.tag))
    run_inst(check, loader, "Jump.il_write", "target=ut32", setup, lambda it, st: it.call(it.getattr_(st["n"], "il_write"), [], {}), post)

    # ---- postfix ++/-- on locals and registers ------------------------------------------------------------------
    for opk in ("++", "--"):
        for dk, t in (("Variable", (True, 32)), ("Variable", (False, 8)), ("Register", (True, 32)), ("Register", (True, 64))):
            inst = f"{opk} on {dk}:{tname(t)}"

            def setup(it, opk=opk, dk=dk, t=t):
                if dk == "Variable":
                    o = irkit.mk_var(it, "v", t)
                else:
                    o = it.call(irkit.C(loader, "Register"), ["Rxx" if t[1] == 64 else "Rx", RA.PRW if t[1] == 64 else RA.RW, conc_vt(loader, t)], {})
                n = it.call(irkit.C(loader, "PostfixIncDec"), ["op_INC", o, o.fields["value_type"], HT(opk)], {})
                return {"n": n, "o": o}

            def run(it, st):
                n = st["n"]
                return it.call(it.getattr_(n, "il_write"), [], {}), it.call(it.getattr_(n, "il_read"), [], {})

            def post(p, pi, opk=opk, dk=dk, t=t):
                pc = p.ctx.pc
                check.ob("PostfixIncDec#total", pi, pc, p.outcome == "return", detail="" if p.outcome == "return" else f"raises {p.value!r}")
                if p.outcome != "return":
                    return
                w, rd = p.value
                opn = "Rxx_op" if t[1] == 64 else "Rx_op"
                check_text(check, "PostfixIncDec.il_write", pi, pc, w, want_sort="effect", ops=None, locals_w={"v": t[1]}, op_widths={opn: t[1]},
                           cvars={"Rx": ("bv", 32), "Rxx": ("bv", 64)})
                fn = "INC" if opk == "++" else "DEC"
                if dk == "Variable":
                    check.ob("PostfixIncDec.il_write#binding.updates-the-operand-by-one-at-its-width", pi, pc, w == f'SETL("v", {fn}(VARL("v"), {t[1]}))', detail=repr(w))
                    check.ob("PostfixIncDec.il_read#old-value-is-the-operand", pi, pc, rd == 'VARL("v")', detail=repr(rd))
                else:
                    wt = emit.as_tpl(w).render()
                    check.ob("PostfixIncDec.il_write#binding.register-written-through-WRITE_REG(bundle, <its operand>, ...)", pi, pc,
                             wt.startswith(f"WRITE_REG(bundle, {opn}, {fn}(") and wt.endswith(f", {t[1]}))"), detail=wt)
            run_inst(check, loader, "PostfixIncDec", inst, setup, run, post)

    # ---- calls: SubRoutineCall / Call / MacroInvocation / build_arg_list -------------------------------------------------
    for rt in T8:
        for reader in ("SubRoutine", "Call"):
            def setup(it, rt=rt, reader=reader):
                if reader == "SubRoutine":
                    par = it.call(irkit.C(loader, "Parameter"), ["x", conc_vt(loader, (True, 32))], {})
                    return it.call(irkit.C(loader, "SubRoutine"), ["fn", conc_vt(loader, rt), [par], "return x;"], {})
                return it.call(irkit.C(loader, "Call"), ["c_call", conc_vt(loader, rt), ["get_npc", "pkt"]], {})

            def post(p, pi, rt=rt):
                check.ob("call.il_read#total", pi, p.ctx.pc, p.outcome == "return")
                if p.outcome == "return":
                    check_text(check, "call.il_read", pi, p.ctx.pc, p.value, want_sort=("bv", rt[1]), ops=None, locals_w={"ret_val": 64})
            run_inst(check, loader, "call.il_read", f"{reader} returns {tname(rt)}", setup, lambda it, o: it.call(it.getattr_(o, "il_read"), [], {}), post)

    def mk_routine(it, ptypes):
        pars = []
        for i, pt in enumerate(ptypes):
            if pt == "ext":
                vt = conc_vt(loader, (False, 64), G.EXTERNAL)
                vt.fields["external_type"] = "HexInsnPktBundle *" if i == 0 else "const HexOp *"
            else:
                vt = conc_vt(loader, pt)
            pars.append(it.call(irkit.C(loader, "Parameter"), [f"p{i}", vt], {}))
        return it.call(irkit.C(loader, "SubRoutine"), ["fn", conc_vt(loader, (True, 32)), pars, "return NOP();"], {})

    for shape in ("values", "bundle+register+value", "macro-arg"):
        def setup(it, shape=shape):
            if shape == "values":
                sr = mk_routine(it, [(True, 32), (False, 64)])
                args = [irkit.mk_operand(it, "Variable", (True, 32), "a0"), irkit.mk_operand(it, "Cast", (False, 64), "a1")]
                ops = args
            elif shape == "bundle+register+value":
                sr = mk_routine(it, ["ext", "ext", (True, 32)])
                bundle = it.call(irkit.C(loader, "Parameter"), ["bundle", sr.fields["ops"][0].fields["value_type"]], {})
                reg = it.call(irkit.C(loader, "Register"), ["Rd", RA.W, conc_vt(loader, (True, 32))], {})
                v = irkit.mk_operand(it, "Variable", (True, 32), "a2")
                args, ops = [bundle, reg, v], [v]
            else:
                sr = mk_routine(it, [(False, 32)])
                mac = it.call(irkit.C(loader, "Macro"), ["REGFIELD", conc_vt(loader, (False, 32)), [conc_vt(loader, (False, 32))], "HEX_REGFIELD"], {})
                inner = irkit.mk_operand(it, "Variable", (False, 32), "m0")
                mi = it.call(irkit.C(loader, "MacroInvocation"), ["REGFIELD", [inner], mac], {})
                args, ops = [mi], [inner]
            return {"n": it.call(irkit.C(loader, "SubRoutineCall"), [sr, args], {}), "ops": ops}

        def post(p, pi, shape=shape):
            check.ob("SubRoutineCall.il_write#total", pi, p.ctx.pc, p.outcome == "return", detail="" if p.outcome == "return" else f"raises {p.value!r}")
            if p.outcome != "return":
                return
            t = emit.as_tpl(p.value)
            txt = t.render(lambda a: "@" + a.tag)
            want = {"values": "hex_fn(@a0, @a1)", "bundle+register+value": "hex_fn(bundle, Rd_op, @a2)", "macro-arg": "hex_fn(HEX_REGFIELD(@m0))"}[shape]
            check.ob("SubRoutineCall.il_write#binding.arguments-in-parameter-order(values read, operands by name)", pi, p.ctx.pc, txt == want, detail=txt)
            produced = sum(o.ghost.get("nreads", 0) for o in p.state["ops"])
            check.ob("SubRoutineCall.il_write#atom-linearity", pi, p.ctx.pc, produced == len(t.atoms()) == len(p.state["ops"]))
        run_inst(check, loader, "SubRoutineCall.il_write", shape, setup, lambda it, st: it.call(it.getattr_(st["n"], "il_write"), [], {}), post)

    for fname, want in (("get_npc", "HEX_GET_NPC(pkt)"), ("STORE_SLOT_CANCELLED", "HEX_STORE_SLOT_CANCELLED(pkt, hi->slot)")):
        def setup(it, fname=fname):
            vt = conc_vt(loader, (False, 32), G.VOID if fname != "get_npc" else G.PURE)
            return it.call(irkit.C(loader, "Call"), ["c_call", vt, [fname, "pkt"] if fname == "get_npc" else [fname, "pkt", irkit.mk_var(it, "slot", (False, 8))]], {})

        def post(p, pi, want=want):
            check.ob("Call.il_exec#binding.plugin-call-text", pi, p.ctx.pc, p.outcome == "return" and p.value == want, detail=repr(p.value))
        run_inst(check, loader, "Call.il_exec", fname, setup, lambda it, o: it.call(it.getattr_(o, "il_exec"), [], {}), post)

    # arguments of a plugin call are READ (ownership): an abstract value operand once, a borrowed pure parameter through its il_read
    def setup_c(it):
        vt = conc_vt(loader, (False, 32), G.VOID)
        par = it.call(irkit.C(loader, "Parameter"), ["p", conc_vt(loader, (True, 32))], {})
        R0 = z3.Int("reads0")
        it.ctx.assume(R0 >= 0)
        par.fields["reads"] = SInt(R0)
        a = irkit.mk_operand(it, "Variable", (True, 32), "a")
        return {"n": it.call(irkit.C(loader, "Call"), ["c_call", vt, ["WRITE_REG", "bundle", par, a]], {}), "par": par, "a": a, "R0": R0}

    def post_c(p, pi):
        if p.outcome != "return":
            check.ob("Call.il_exec#total", pi, p.ctx.pc, False, detail=repr(p.value))
            return
        st = p.state
        t = emit.as_tpl(p.value)
        txt = t.render(lambda a: f"@{a.tag}")
        r1 = st["par"].fields["reads"]
        check.ob("Call.il_exec#raw.a-borrowed-pure-parameter-is-passed-through-il_read (counter advances)", pi, p.ctx.pc,
                 isinstance(r1, SInt) and r1.t == st["R0"] + 1, detail=f"reads {r1!r}")
        check.ob("Call.il_exec#raw.first-read-raw-later-reads-DUP", pi, p.ctx.pc,
                 z3.And(z3.Implies(st["R0"] == 0, z3.BoolVal(txt == "WRITE_REG(bundle, p, @a)")), z3.Implies(st["R0"] >= 1, z3.BoolVal(txt == "WRITE_REG(bundle, DUP(p), @a)"))), detail=txt)
        check.ob("Call.il_exec#raw.value-argument-read-exactly-once", pi, p.ctx.pc, st["a"].ghost.get("nreads", 0) == 1)
    run_inst(check, loader, "Call.il_exec", "WRITE_REG(bundle, <pure parameter>, <value>)", setup_c, lambda it, st: it.call(it.getattr_(st["n"], "il_exec"), [], {}), post_c)

    # ---- Hybrid.il_init_var / Effect.il_init_var: one declaration per effect variable ------------------------------
    for cls in ("PostfixIncDec", "Assignment", "NOP", "Empty"):
        def setup(it, cls=cls):
            if cls == "PostfixIncDec":
                v = irkit.mk_var(it, "v", (True, 32))
                n = it.call(irkit.C(loader, "PostfixIncDec"), ["op_INC_4", v, v.fields["value_type"], HT("++")], {})
            elif cls == "Assignment":
                ATy = irkit.enum(loader, "Assignment", "AssignmentType")
                n = it.call(irkit.C(loader, "Assignment"), ["op_ASSIGN_4", ATy("="), irkit.mk_var(it, "v", (True, 32)), irkit.mk_operand(it, "Variable", (True, 32), "s")], {})
            else:
                n = it.call(irkit.C(loader, cls), ["nop_4"], {})
            return n

        def run(it, n):
            return it.call(it.getattr_(n, "il_init_var"), [], {}), it.call(it.getattr_(n, "il_init_var"), [], {}), it.call(it.getattr_(n, "effect_var"), [], {})

        def post(p, pi, cls=cls):
            pc = p.ctx.pc
            check.ob("Effect.il_init_var#total", pi, pc, p.outcome == "return", detail="" if p.outcome == "return" else f"raises {p.value!r}")
            if p.outcome != "return":
                return
            i1, i2, var = p.value
            if cls == "Empty":
                check.ob("Empty#no-declaration-and-EMPTY()-as-its-reference", pi, pc, i1 == "" and var == "EMPTY()")
                return
            check_text(check, "Effect.il_init_var", pi, pc, i1, decl=True, lines_expected=1, ops=None, locals_w={"v": 32})
            d = parse_decl(split_lines(emit.as_tpl(i1))[0])
            check.ob("Effect.il_init_var#decl.declares-its-own-effect-variable", pi, pc, d[0] == "decl" and d[1] == "RzILOpEffect" and d[2] and d[3] == var, detail=str(d[:4]))
            if cls == "PostfixIncDec":
                check.ob("Hybrid.il_init_var#declared-at-most-once", pi, pc, i2 == "")
        run_inst(check, loader, "Effect.il_init_var", cls, setup, run, post)


try:
    from pyvc import replay as _replay

    @_replay.register("catalog.noped")
    def replay_noped(a):
        c = irkit.real_compiler()
        import io
        import contextlib
        out = []
        with contextlib.redirect_stdout(io.StringIO()), contextlib.redirect_stderr(io.StringIO()):
            c.preprocessor.load_insn_behavior()
        from rzilcompiler.Parser import Parser
        for n in a["names"][:3]:
            beh = c.preprocessor.behaviors.get(n)
            if not beh:
                out.append(f"{n}: not in the shortcode")
                continue
            with contextlib.redirect_stdout(io.StringIO()), contextlib.redirect_stderr(io.StringIO()):
                parsed = Parser().parse({n: beh})
                try:
                    r = c.transform_insn(n, parsed[n])
                    out.append(f"{n}: behaviour {beh[0][:80]!r} is compiled to {r.rzil}")
                except Exception as e:
                    out.append(f"{n}: {type(e).__name__}")
        return any("return NOP();" in o for o in out), "; ".join(out)
except Exception:      # pragma: no cover
    pass
