"""C03 - casts and implicit conversions preserve the C value.

Emission contract on the real Cast.il_exec (and the bool->integer ITE lowering of Ternary.il_exec),
callback contracts on every conversion context of the property: init_a_cast, cast_expr,
cast_operands (both modes), promotion_cast, init_declarator + declaration + set_dest_type
(initialisation), assignment_expr (variable and register sinks), cast_arg_list (arguments),
jump_stmt + SubRoutine.il_read / Call.il_read (return), mem_store (store), jump (32-bit target).
Types exhaustive over T8 x T8 (Tx x Tx in the thorough tier), operand kinds exhaustive over the IR
classes, values for all bit patterns (z3 bit-vectors).
"""
from __future__ import annotations
import os
import z3
from lark import Token

from pyvc.interp import explore
from pyvc.loader import Loader
from pyvc.values import Obj, Tpl
from pyvc.vc import Check
from pyvc import replay
from spec import c11, rzil, ir
from . import irkit, tkit, emit
from .common import WORKERS, T8, TX, tname, conc_vt, run_mutants

PROP = "C03"
M_T = tkit.M_T

MUTANTS = [
    {"name": "Cast.il_exec: fill bit chosen by target signedness only", "file": "rzilcompiler/Transformer/Pures/Cast.py",
     "old": "if self.value_type.signed and self.ops[0].value_type.signed:", "new": "if self.value_type.signed:"},
    {"name": "Cast.il_exec: never sign-extends", "file": "rzilcompiler/Transformer/Pures/Cast.py",
     "old": 'fill_bit = f"MSB({self.ops[0].il_read()})"', "new": 'fill_bit = "IL_FALSE"'},
    {"name": "Cast.il_exec: casts to the source width", "file": "rzilcompiler/Transformer/Pures/Cast.py",
     "old": 'return f"CAST({self.value_type.bit_width}, {fill_bit}', "new": 'return f"CAST({self.ops[0].value_type.bit_width}, {fill_bit}'},
    {"name": "init_a_cast: bool test removed (CAST of a boolean)", "file": "rzilcompiler/Transformer/RZILTransformer.py",
     "old": "            pure.value_type.group & VTGroup.BOOL\n            and not target_type.group & VTGroup.BOOL",
     "new": "            False\n            and not target_type.group & VTGroup.BOOL"},
    {"name": "init_a_cast: ITE arms swapped", "file": "rzilcompiler/Transformer/RZILTransformer.py",
     "old": 'Ternary(f"ite_cast_{target_type}", pure, true, false)', "new": 'Ternary(f"ite_cast_{target_type}", pure, false, true)'},
    {"name": "cast_operands: a is cast with b's common type", "file": "rzilcompiler/Transformer/RZILTransformer.py",
     "old": "a = self.init_a_cast(casted_a, a)", "new": "a = self.init_a_cast(casted_b, b)"},
    {"name": "cast_operands(immutable_a): casts a instead of b", "file": "rzilcompiler/Transformer/RZILTransformer.py",
     "old": "return a, self.init_a_cast(a.value_type, b)", "new": "return self.init_a_cast(b.value_type, a), b"},
    {"name": "cast_arg_list: skips arguments that need a cast", "file": "rzilcompiler/Transformer/RZILTransformer.py",
     "old": "            if arg.value_type == p_type:\n                continue",
     "new": "            if arg.value_type.bit_width == p_type.bit_width:\n                continue"},
    {"name": "SubRoutine.il_read: reads the return value at the wrong width", "file": "rzilcompiler/Transformer/Hybrids/SubRoutine.py",
     "old": '            f"{self.value_type.bit_width}" if self.value_type.bit_width != 0 else "32"\n        )\n        return f\'{tmp}, VARL("ret_val"))\'\n\n\nclass SubRoutineCall',
     "new": '            "32" if self.value_type.bit_width != 0 else "32"\n        )\n        return f\'{tmp}, VARL("ret_val"))\'\n\n\nclass SubRoutineCall'},
    {"name": "mem_store: stores without converting to the access type", "file": "rzilcompiler/Transformer/RZILTransformer.py",
     "old": "            data = self.init_a_cast(operation_value_type, data)\n", "new": "            pass\n"},
    {"name": "jump: target not converted to 32 bit", "file": "rzilcompiler/Transformer/RZILTransformer.py",
     "old": "if ta.value_type.bit_width != 32:", "new": "if ta.value_type.bit_width < 32:"},
    {"name": "jump_stmt: return value widened only when narrower than 32", "file": "rzilcompiler/Transformer/RZILTransformer.py",
     "old": "if src.value_type.bit_width != 64:", "new": "if src.value_type.bit_width < 32:"},
    {"name": "set_dest_type: source not converted to the declared type", "file": "rzilcompiler/Transformer/RZILTransformer.py",
     "old": "        assig.set_src(src_casted)\n", "new": ""},
]


def conv_class(src, dst):
    if dst[1] < src[1]:
        return "narrow"
    if dst[1] == src[1]:
        return "same"
    return f"widen-{'s' if src[0] else 'u'}2{'s' if dst[0] else 'u'}"


def c_conv_den(op, dst):
    """C meaning of converting operand `op` (abstract, with ghost den) to type dst."""
    d = op.ghost["den"]
    if op.ghost["sort"] == "bool":
        return z3.If(d, z3.BitVecVal(1, dst[1]), z3.BitVecVal(0, dst[1]))
    return c11.conv(d, op.ghost["ctype"], dst[1])


def operand_spec(o, mdl):
    return emit.operand_replay_spec(o, mdl)


# ------------------------------------------------------------------------------------------
def gen_emission(loader, check, types, kinds, replay_on=True):
    Cast = irkit.C(loader, "Cast")
    check.under_contract(loader, Cast.methods["il_exec"], Cast.methods["__init__"],
                         irkit.C(loader, "PureExec").methods["__init__"], irkit.C(loader, "PureExec").methods["il_read"],
                         irkit.C(loader, "Pure").methods["__init__"])
    for kind in kinds:
        for src in types:
            for dst in types:
                def build(it, kind=kind, src=src, dst=dst):
                    op = irkit.mk_operand(it, kind, src, "x")
                    node = it.call(Cast, ["cast", conc_vt(loader, dst), op], {})
                    return node, [op]
                emit.run_emission(check, loader, "Cast.il_exec",
                                  f"src={tname(src)} dst={tname(dst)} kind={kind} conv={conv_class(src, dst)}", build,
                                  replay_builder=(lambda specs, dst=dst: ["cast", list(dst), specs[0]]) if replay_on else None)


def gen_ite_lowering(loader, check, types, replay_on=True):
    """bool -> integer: Ternary(cond, Number 1, Number 0).il_exec() must be ITE(c, 1, 0) at the target width."""
    Tern = irkit.C(loader, "Ternary")
    Num = irkit.C(loader, "Number")
    check.under_contract(loader, Tern.methods["il_exec"], irkit.C(loader, "LetVar").methods["il_read"],
                         irkit.C(loader, "LetVar").methods["get_rzil_val"])
    for kind in irkit.BOOL_KINDS:
        for dst in types:
            def build(it, kind=kind, dst=dst):
                c = irkit.mk_operand(it, kind, (True, 32), "c")
                one = it.call(Num, ["true", 1, conc_vt(loader, dst)], {})
                one.fields["inlined"] = True
                zero = it.call(Num, ["false", 0, conc_vt(loader, dst)], {})
                zero.fields["inlined"] = True
                node = it.call(Tern, ["ite_cast", c, one, zero], {})
                return node, [c]
            emit.run_emission(check, loader, "Ternary.il_exec(bool->int)", f"cond={kind} dst={tname(dst)}", build,
                              replay_builder=(lambda specs, dst=dst: ["ternary", specs[0], ["num", 1, list(dst)],
                                                                      ["num", 0, list(dst)]]) if replay_on else None)


def gen_chains(loader, check, types, depth, replay_on=True):
    """Chains of conversions, rendered through the real inlining path PureExec.il_read -> resolve_lets -> il_exec."""
    Cast = irkit.C(loader, "Cast")
    import itertools
    for chain in itertools.product(types, repeat=depth + 1):
        src, rest = chain[0], chain[1:]
        classes = []
        cur = src
        for t in rest:
            classes.append(conv_class(cur, t))
            cur = t

        def build(it, src=src, rest=rest):
            op = irkit.mk_operand(it, "Variable", src, "x")
            node = op
            for i, t in enumerate(rest):
                node = it.call(Cast, ["cast", conc_vt(loader, t), node], {})
                node.fields["inlined"] = True   # what add_op does for every Cast
            return node, [op]

        def rb(specs, rest=rest):
            s = specs[0]
            for t in rest:
                s = ["cast", list(t), s]
            return s
        emit.run_emission(check, loader, f"Cast.il_exec(chain{depth})",
                          f"types={'>'.join(tname(t) for t in chain)} convs={','.join(classes)}", build,
                          replay_builder=rb if replay_on else None)


# ------------------------------------------------------------------------------------------
def callback_paths(check, loader, name, inst, setup, run):
    check.instances_declared += 1
    ex = explore(loader, setup, run)
    check.absorb(ex, f"{name} {inst}")
    if ex.paths:
        check.instances_generated += 1
    out = []
    for i, p in enumerate(ex.paths):
        out.append((p, inst if len(ex.paths) == 1 else f"{inst} path={i}"))
    return out


def conv_obligations(check, name, pi, p, result, src_op, dst, rp=None, same_returns_self=False):
    """result must be a WF node of C type dst whose meaning is conv_C11(den src -> dst)."""
    pc = p.ctx.pc
    ok = isinstance(result, Obj) and "value_type" in result.fields and result.fields["value_type"] is not None
    check.ob(f"{name}#result-is-typed-node", pi, pc, ok, replay=rp)
    if not ok:
        return
    try:
        rt = ir.vt(result)
    except ir.NotWF as e:
        check.ob(f"{name}#type", pi, pc, False, detail=str(e), replay=rp)
        return
    check.ob(f"{name}#type", pi, pc, rt == tuple(dst), detail=f"result type {tname(rt)}, expected {tname(dst)}", replay=rp)
    if result is src_op and rt == tuple(dst):
        # nothing to convert: the operand itself is passed on (its own WF is the precondition)
        check.ob(f"{name}#identity", pi, pc, True)
        return
    probs = ir.wf_problems(result)
    check.ob(f"{name}#WF", pi, pc, not probs, detail="; ".join(probs), replay=rp)
    if probs or rt[1] != dst[1]:
        return
    rs = ir.sort(result)
    if rs == "bool":
        check.ob(f"{name}#sort", pi, pc, False, detail="bool-sorted result where an integer is required", replay=rp)
        return
    check.ob(f"{name}#value", pi, pc, ir.den(result) == c_conv_den(src_op, dst), replay=rp)


def mk_rp(rkind, **fixed):
    def builder(mdl):
        d = dict(fixed)
        d["model"] = {k: v for k, v in mdl.items() if isinstance(v, (int, bool))}
        return d
    return (rkind, builder)


ALL_SECTIONS = ["cast_calls", "cast_operands", "promotion", "init", "assign", "args", "store", "jump", "return"]


def gen_callbacks(loader, check, types, kinds, replay_on=True, sections=None):
    sections = set(sections or ALL_SECTIONS)
    T = loader.load(M_T).globals["RZILTransformer"]
    for fn in ("init_a_cast", "cast_expr", "cast_operands", "promotion_cast", "set_dest_type", "declaration",
               "init_declarator", "assignment_expr", "update_assign_src", "cast_arg_list", "cast_sub_routine_args",
               "jump_stmt", "mem_store", "jump"):
        check.under_contract(loader, T.methods[fn])
    Asg = irkit.C(loader, "Assignment")
    check.under_contract(loader, Asg.methods["__init__"], Asg.methods["set_src"], Asg.methods["set_dest"])

    def R(rkind, **kw):
        return mk_rp(rkind, **kw) if replay_on else None

    # a Cast operand whose own operand is a narrower signed value: (T2)(T1)x with everything signed and widening (sign-extension chains)
    # (the Cast-based instances also bring a load operand along: a cast must not be folded into the node it converts)
    cast_kinds = list(kinds) + (["Cast:signed-chain"] + (["MemLoad"] if "MemLoad" not in kinds else []) if "Cast" in kinds else [])
    for kind in (cast_kinds if "cast_calls" in sections else []):
        for src in types:
            if kind == "Cast:signed-chain" and not (src[0] and src[1] >= 16):
                continue
            # operands that are not WF (today: BooleanOp, typed like its first operand without the BOOL
            # flag) are outside every callback precondition; the defect belongs to their constructor (C02/C10)
            for dst in types:
                tag = f"src={tname(src)} dst={tname(dst)} kind={kind}"
                rargs = dict(kind=kind, src=list(src), dst=list(dst))

                # ---- init_a_cast / cast_expr ---------------------------------------
                for meth in ("init_a_cast", "cast_expr"):
                    def setup(it, kind=kind, src=src, dst=dst):
                        op = irkit.mk_operand(it, kind.split(":")[0], src, "x")
                        if kind == "Cast:signed-chain":
                            op.fields["ops"][0].fields["value_type"] = conc_vt(loader, (True, src[1] // 2))
                        t = tkit.mk_transformer(it, registered=[])
                        it.ctx.mark_pre(t, op)
                        return {"t": t, "op": op, "skip": bool(ir.wf_problems(op))}

                    def run(it, st, meth=meth, dst=dst):
                        if st["skip"]:
                            return None
                        if meth == "init_a_cast":
                            return it.call(tkit.method(it, st["t"], meth), [conc_vt(loader, dst), st["op"]], {})
                        return it.call(tkit.method(it, st["t"], meth), [[conc_vt(loader, dst), st["op"]]], {})
                    for p, pi in callback_paths(check, loader, meth, tag, setup, run):
                        if p.state["skip"]:
                            (check.extra.setdefault("operands_outside_WF", []).append(kind) if kind not in check.extra.get("operands_outside_WF", []) else None)
                            continue
                        rp = R("c03.callback", ctx=meth, **rargs)
                        check.ob(f"{meth}#total", pi, p.ctx.pc, p.outcome == "return", replay=rp,
                                 detail="" if p.outcome == "return" else f"raises {p.value!r}")
                        if p.outcome != "return":
                            continue
                        conv_obligations(check, meth, pi, p, p.value, p.state["op"], dst, rp)
                        if tuple(src) == tuple(dst) and p.state["op"].ghost["sort"] != "bool":
                            check.ob(f"{meth}#identity-when-types-equal", pi, p.ctx.pc, p.value is p.state["op"], replay=rp)
                        # frame: only the holder's counter/tables and the new node are written
                        bad = [(o, f) for (o, f, _, _) in p.ctx.pre_writes()
                               if not (o is p.state["t"].fields["il_ops_holder"] or o is p.state["t"].fields["ext"])]
                        check.ob(f"{meth}#modifies", pi, p.ctx.pc, not bad, detail=str(bad[:3]),
                                 replay=R("c03.cast_frame", meth=meth, kind=kind, src=list(src), dst=list(dst), chain=(kind == "Cast:signed-chain")))

    if "cast_operands" in sections:
        # ---- cast_operands ------------------------------------------------------------------
        for ka in ("Variable", "CompareOp"):
            for kb in ("Variable", "Number", "CompareOp"):
                for ta in types:
                    for tb in types:
                        for imm in (True, False):
                            tag = f"a={tname(ta)}:{ka} b={tname(tb)}:{kb} immutable_a={imm}"

                            def setup(it, ka=ka, kb=kb, ta=ta, tb=tb):
                                a = irkit.mk_operand(it, ka, ta, "a")
                                b = irkit.mk_operand(it, kb, tb, "b")
                                t = tkit.mk_transformer(it)
                                it.ctx.mark_pre(t, a, b)
                                return {"t": t, "a": a, "b": b}

                            def run(it, st, imm=imm):
                                return it.call(tkit.method(it, st["t"], "cast_operands"), [], {"a": st["a"], "b": st["b"],
                                                                                                "immutable_a": imm})
                            for p, pi in callback_paths(check, loader, "cast_operands", tag, setup, run):
                                rp = R("c03.cast_operands", ka=ka, kb=kb, ta=list(ta), tb=list(tb), imm=imm)
                                check.ob("cast_operands#total", pi, p.ctx.pc, p.outcome == "return", replay=rp)
                                if p.outcome != "return":
                                    continue
                                ra, rb = p.value
                                a, b = p.state["a"], p.state["b"]
                                ea = ir.vt(a)   # the type the operand node carries (ut1 for comparisons)
                                eb = ir.vt(b)
                                if imm:
                                    da, db = ea, ea
                                else:
                                    da = db = c11.uac(ea[0], ea[1], eb[0], eb[1])
                                # the conversion oracle works on the operands' *node* types
                                a.ghost["ctype"], b.ghost["ctype"] = ea, eb
                                if imm:
                                    check.ob("cast_operands#a-untouched", pi, p.ctx.pc, ra is a, replay=rp)
                                else:
                                    conv_obligations(check, "cast_operands.a", pi, p, ra, a, da, rp)
                                conv_obligations(check, "cast_operands.b", pi, p, rb, b, db, rp)

    if "promotion" in sections:
        # ---- promotion_cast ---------------------------------------------------------------------
        for kind in ("Variable", "Number", "Register"):
            for src in types:
                tag = f"src={tname(src)} kind={kind}"

                def setup(it, kind=kind, src=src):
                    op = irkit.mk_operand(it, kind, src, "x")
                    t = tkit.mk_transformer(it)
                    it.ctx.mark_pre(t, op)
                    return {"t": t, "op": op}

                def run(it, st):
                    return it.call(tkit.method(it, st["t"], "promotion_cast"), [st["op"]], {})
                for p, pi in callback_paths(check, loader, "promotion_cast", tag, setup, run):
                    rp = R("c03.callback", ctx="promotion_cast", kind=kind, src=list(src), dst=list(c11.promote(*src)))
                    check.ob("promotion_cast#total", pi, p.ctx.pc, p.outcome == "return", replay=rp)
                    if p.outcome == "return":
                        conv_obligations(check, "promotion_cast", pi, p, p.value, p.state["op"], c11.promote(*src), rp)

    if "init" in sections:
        # ---- initialisation: init_declarator -> declaration -> set_dest_type ------------------------
        for kind in ("Variable", "Number", "CompareOp", "Register"):
            for src in types:
                for dst in types:
                    tag = f"src={tname(src)} dst={tname(dst)} kind={kind}"

                    def setup(it, kind=kind, src=src):
                        op = irkit.mk_operand(it, kind, src, "x")
                        t = tkit.mk_transformer(it, registered=[])
                        it.ctx.mark_pre(t, op)
                        return {"t": t, "op": op}

                    def run(it, st, dst=dst):
                        asg = it.call(tkit.method(it, st["t"], "init_declarator"), [[Token("IDENTIFIER", "v"), st["op"]]], {})
                        return it.call(tkit.method(it, st["t"], "declaration"), [[conc_vt(loader, dst), asg]], {})
                    for p, pi in callback_paths(check, loader, "declaration(init)", tag, setup, run):
                        rp = R("c03.callback", ctx="declaration", kind=kind, src=list(src), dst=list(dst))
                        check.ob("declaration(init)#total", pi, p.ctx.pc, p.outcome == "return", replay=rp,
                                 detail="" if p.outcome == "return" else f"raises {p.value!r}")
                        if p.outcome != "return":
                            continue
                        asg = p.value
                        ok = isinstance(asg, Obj) and asg.cls is Asg
                        check.ob("declaration(init)#returns-assignment", pi, p.ctx.pc, ok, replay=rp)
                        if not ok:
                            continue
                        dest = asg.fields["dest"]
                        check.ob("declaration(init)#dest-type", pi, p.ctx.pc, ir.vt(dest) == tuple(dst), replay=rp,
                                 detail=f"declared variable typed {tname(ir.vt(dest))}")
                        check.ob("declaration(init)#effect-ops-consistent", pi, p.ctx.pc,
                                 asg.fields["src"] in asg.fields["effect_ops"] and asg.fields["dest"] in asg.fields["effect_ops"]
                                 and len(asg.fields["effect_ops"]) == 2)
                        op = p.state["op"]
                        op.ghost["ctype"] = ir.vt(op)
                        conv_obligations(check, "declaration(init).src", pi, p, asg.fields["src"], op, dst, rp)

    if "assign" in sections:
        # ---- assignment to a variable / register --------------------------------------------------
        for sink in ("Variable", "Register"):
            for kind in ("Variable", "Number", "CompareOp"):
                for src in types:
                    for dst in (types if sink == "Variable" else [(True, 32), (True, 64), (True, 8)]):
                        tag = f"sink={sink} src={tname(src)} dst={tname(dst)} kind={kind}"

                        def setup(it, kind=kind, src=src, dst=dst, sink=sink):
                            op = irkit.mk_operand(it, kind, src, "x")
                            if sink == "Variable":
                                d = irkit.mk_var(it, "v", dst)
                            else:
                                RA = irkit.enum(loader, "Register", "RegisterAccessType")
                                nm = {32: "Rd", 64: "Rdd", 8: "Pd"}[dst[1]]
                                d = it.call(irkit.C(loader, "Register"), [nm, RA.PW if dst[1] == 64 else RA.W, conc_vt(loader, dst)], {})
                            t = tkit.mk_transformer(it, registered=[d])
                            it.ctx.mark_pre(t, op, d)
                            return {"t": t, "op": op, "d": d}

                        def run(it, st):
                            return it.call(tkit.method(it, st["t"], "assignment_expr"),
                                           [[st["d"], Token("ASSIGN_OP", "="), st["op"]]], {})
                        for p, pi in callback_paths(check, loader, "assignment_expr(=)", tag, setup, run):
                            rp = R("c03.callback", ctx="assignment_expr", kind=kind, src=list(src), dst=list(dst), sink=sink)
                            check.ob("assignment_expr(=)#total", pi, p.ctx.pc, p.outcome == "return", replay=rp,
                                     detail="" if p.outcome == "return" else f"raises {p.value!r}")
                            if p.outcome != "return":
                                continue
                            asg = p.value
                            ok = isinstance(asg, Obj) and asg.cls is Asg
                            check.ob("assignment_expr(=)#returns-assignment", pi, p.ctx.pc, ok, replay=rp)
                            if not ok:
                                continue
                            check.ob("assignment_expr(=)#dest-is-target", pi, p.ctx.pc, asg.fields["dest"] is p.state["d"], replay=rp)
                            op = p.state["op"]
                            op.ghost["ctype"] = ir.vt(op)
                            conv_obligations(check, "assignment_expr(=).src", pi, p, asg.fields["src"], op, dst, rp)

    if "args" in sections:
        # ---- argument passing -------------------------------------------------------------------
        for kind in ("Variable", "Number", "CompareOp"):
            for src in types:
                for dst in types:
                    tag = f"src={tname(src)} param={tname(dst)} kind={kind}"

                    def setup(it, kind=kind, src=src):
                        op = irkit.mk_operand(it, kind, src, "x")
                        other = irkit.mk_operand(it, "Variable", (True, 32), "y")
                        t = tkit.mk_transformer(it)
                        it.ctx.mark_pre(t, op, other)
                        return {"t": t, "op": op, "other": other}

                    def run(it, st, dst=dst):
                        args = [st["other"], st["op"]]
                        it.call(tkit.method(it, st["t"], "cast_arg_list"), [args, [conc_vt(loader, (True, 32)), conc_vt(loader, dst)]], {})
                        return args
                    for p, pi in callback_paths(check, loader, "cast_arg_list", tag, setup, run):
                        rp = R("c03.callback", ctx="cast_arg_list", kind=kind, src=list(src), dst=list(dst))
                        check.ob("cast_arg_list#total", pi, p.ctx.pc, p.outcome == "return", replay=rp)
                        if p.outcome != "return":
                            continue
                        args = p.value
                        check.ob("cast_arg_list#positions-kept", pi, p.ctx.pc, len(args) == 2 and args[0] is p.state["other"], replay=rp)
                        op = p.state["op"]
                        op.ghost["ctype"] = ir.vt(op)
                        conv_obligations(check, "cast_arg_list.arg", pi, p, args[1], op, dst, rp)

    if "store" in sections:
        # ---- store ------------------------------------------------------------------------------
        for kind in ("Variable", "Number", "CompareOp"):
            for src in types:
                for dst in [(s, w) for s in (True, False) for w in (8, 16, 32, 64)]:
                    tag = f"src={tname(src)} access={'s' if dst[0] else 'u'}{dst[1]} kind={kind}"

                    def setup(it, kind=kind, src=src):
                        op = irkit.mk_operand(it, kind, src, "x")
                        ea = irkit.mk_var(it, "EA", (False, 32))
                        t = tkit.mk_transformer(it, registered=[ea])
                        it.ctx.mark_pre(t, op, ea)
                        return {"t": t, "op": op, "ea": ea}

                    def run(it, st, dst=dst):
                        items = [Token("MEM_STORE", "mem_store_"), Token("SIGN_TYPE", "s" if dst[0] else "u"),
                                 Token("BIT_WIDTH", str(dst[1])), st["ea"], st["op"]]
                        return it.call(tkit.method(it, st["t"], "mem_store"), [items], {})
                    for p, pi in callback_paths(check, loader, "mem_store", tag, setup, run):
                        rp = R("c03.callback", ctx="mem_store", kind=kind, src=list(src), dst=list(dst))
                        check.ob("mem_store#total", pi, p.ctx.pc, p.outcome == "return", replay=rp,
                                 detail="" if p.outcome == "return" else f"raises {p.value!r}")
                        if p.outcome != "return":
                            continue
                        ms = p.value
                        ok = isinstance(ms, Obj) and ms.cls is irkit.C(loader, "MemStore")
                        check.ob("mem_store#returns-memstore", pi, p.ctx.pc, ok, replay=rp)
                        if not ok:
                            continue
                        check.ob("mem_store#address", pi, p.ctx.pc, ms.fields["va"] is p.state["ea"], replay=rp)
                        op = p.state["op"]
                        op.ghost["ctype"] = ir.vt(op)
                        conv_obligations(check, "mem_store.data", pi, p, ms.fields["data_var"], op, dst, rp)

    if "jump" in sections:
        # ---- jump target ---------------------------------------------------------------------------
        for kind in ("Variable", "Register", "Number"):
            for src in types:
                tag = f"src={tname(src)} kind={kind}"

                def setup(it, kind=kind, src=src):
                    op = irkit.mk_operand(it, kind, src, "x")
                    t = tkit.mk_transformer(it)
                    it.ctx.mark_pre(t, op)
                    return {"t": t, "op": op}

                def run(it, st):
                    return it.call(tkit.method(it, st["t"], "jump"), [[Token("JUMP", "JUMP"), st["op"]]], {})
                for p, pi in callback_paths(check, loader, "jump", tag, setup, run):
                    rp = R("c03.callback", ctx="jump", kind=kind, src=list(src), dst=[False, 32])
                    check.ob("jump#total", pi, p.ctx.pc, p.outcome == "return", replay=rp,
                             detail="" if p.outcome == "return" else f"raises {p.value!r}")
                    if p.outcome != "return":
                        continue
                    j = p.value
                    ok = isinstance(j, Obj) and j.cls is irkit.C(loader, "Jump")
                    check.ob("jump#returns-jump", pi, p.ctx.pc, ok, replay=rp)
                    if not ok:
                        continue
                    tgt = j.fields["target"]
                    pc = p.ctx.pc
                    # the recorded target is 32 bit wide and carries the low 32 bits / extension of the C value
                    try:
                        w = ir.vt(tgt)[1]
                    except ir.NotWF:
                        w = None
                    check.ob("jump#target-width-32", pi, pc, w == 32, replay=rp)
                    if w == 32:
                        check.ob("jump#target-value", pi, pc, ir.den(tgt) == c_conv_den(p.state["op"], (False, 32)), replay=rp)

    if "return" in sections:
        # ---- return: jump_stmt + SubRoutine.il_read ----------------------------------------------------
        SubR = irkit.C(loader, "SubRoutine")
        Call = irkit.C(loader, "Call")
        check.under_contract(loader, SubR.methods["il_read"], Call.methods["il_read"])
        for kind in ("Variable", "Number", "CompareOp"):
            for src in types:
                for ret in types:
                    tag = f"src={tname(src)} ret={tname(ret)} kind={kind}"

                    def setup(it, kind=kind, src=src, ret=ret):
                        op = irkit.mk_operand(it, kind, src, "x")
                        par = it.call(irkit.C(loader, "Parameter"), ["p0", conc_vt(loader, (True, 32))], {})
                        t = tkit.mk_transformer(it, params=[par], return_type=conc_vt(loader, ret))
                        it.ctx.mark_pre(t, op)
                        return {"t": t, "op": op}

                    def run(it, st):
                        return it.call(tkit.method(it, st["t"], "jump_stmt"), [[Token("RETURN", "return"), st["op"]]], {})
                    for p, pi in callback_paths(check, loader, "jump_stmt(return)", tag, setup, run):
                        rp = R("c03.callback", ctx="return", kind=kind, src=list(src), dst=list(ret))
                        check.ob("jump_stmt(return)#total", pi, p.ctx.pc, p.outcome == "return", replay=rp,
                                 detail="" if p.outcome == "return" else f"raises {p.value!r}")
                        if p.outcome != "return":
                            continue
                        asg = p.value
                        ok = isinstance(asg, Obj) and asg.cls is Asg and asg.fields["dest"].cls is irkit.C(loader, "ReturnValue")
                        check.ob("jump_stmt(return)#sets-ret_val", pi, p.ctx.pc, ok, replay=rp)
                        if not ok:
                            continue
                        v64 = asg.fields["src"]
                        op = p.state["op"]
                        op.ghost["ctype"] = ir.vt(op)
                        probs = ir.wf_problems(v64)
                        check.ob("jump_stmt(return)#WF", pi, p.ctx.pc, not probs, detail="; ".join(probs), replay=rp)
                        if probs:
                            continue
                        w64 = ir.vt(v64)[1]
                        check.ob("jump_stmt(return)#ret_val-is-64-bit", pi, p.ctx.pc, w64 == 64, replay=rp)
                        if w64 != 64:
                            continue
                        # two-contract lemma: the caller reads SIGNED|UNSIGNED(rw, VARL("ret_val")) (SubRoutine.il_read)
                        d64 = ir.den(v64)
                        for reader, rcls in (("SubRoutine.il_read", SubR), ("Call.il_read", Call)):
                            txt = read_ret_text(loader, rcls, ret)
                            if txt is None:
                                check.ob(f"{reader}#total", pi, p.ctx.pc, False)
                                continue
                            evl = rzil.Evaluator(locals_w={"ret_val": 64})
                            try:
                                val = evl.ev(rzil.parse_expr(txt.parts if isinstance(txt, Tpl) else txt))
                            except (rzil.ParseError, rzil.SortError) as e:
                                check.ob(f"return-lemma({reader})#sort", pi, p.ctx.pc, False, detail=str(e))
                                continue
                            got = z3.substitute(val.v, (z3.BitVec("local_ret_val", 64), d64))
                            check.ob(f"return-lemma({reader})#value", pi, p.ctx.pc,
                                     z3.And(val.sort == ("bv", ret[1]), got == c_conv_den(op, ret)) if val.sort == ("bv", ret[1]) else False,
                                     replay=rp, detail=f"caller reads {txt}")


_ret_cache = {}


def read_ret_text(loader, rcls, ret):
    """Text the caller uses to read the return value: interprets the real il_read() on a record whose
    value_type is the declared return type."""
    key = (id(loader), rcls.name, ret)
    if key in _ret_cache:
        return _ret_cache[key]

    def setup(it):
        o = Obj(rcls)
        o.fields["value_type"] = conc_vt(loader, ret)
        return o

    def run(it, o):
        return it.call(it.getattr_(o, "il_read"), [], {})
    ex = explore(loader, setup, run)
    r = ex.paths[0].value if len(ex.paths) == 1 and ex.paths[0].outcome == "return" else None
    _ret_cache[key] = r
    return r


# ------------------------------------------------------------------------------------------ replay
FAITHFUL_KINDS = {"Variable", "Number"} | set(irkit.BOOL_KINDS)     # operand kinds the replay builds as what they are


def faithful(*kinds):
    return all(k is None or k in FAITHFUL_KINDS for k in kinds)


def _real_operand(kind, src, name="x", value=0):
    from rzilcompiler.Transformer.ValueType import ValueType
    from rzilcompiler.Transformer.Pures.Variable import Variable
    from rzilcompiler.Transformer.Pures.CompareOp import CompareOp, CompareOpType
    if kind == "Number":
        from rzilcompiler.Transformer.Pures.Number import Number
        n = Number("const_1", int(value), ValueType(src[0], src[1]))
        n.inlined = True
        return n
    if kind in irkit.BOOL_KINDS:
        a = Variable(name + "_nz", ValueType(False, 8))
        z = Variable(name + "_z", ValueType(False, 8))
        return CompareOp("op_NE", a, z, CompareOpType.NE)
    return Variable(name, ValueType(src[0], src[1]))


def _concrete_den(node, values):
    d = ir.den(node)
    subs = []
    for (n, w), v in values.items():
        subs.append((z3.BitVec(n, w), z3.BitVecVal(v, w)))
    r = z3.simplify(z3.substitute(d, *subs))
    return r.as_long() if z3.is_bv_value(r) else (z3.is_true(r) if z3.is_true(r) or z3.is_false(r) else None)


def _c_value(kind, src, dst, x):
    """C11 value of converting x (bit pattern of type src, or truth value) to dst."""
    if kind in irkit.BOOL_KINDS:
        return 1 if x else 0
    s, w = src
    v = x - (1 << w) if (s and x >> (w - 1)) else x
    return v % (1 << dst[1])


@replay.register("c03.cast_frame")
def replay_cast_frame(a):
    """real init_a_cast / cast_expr on a real Cast operand (over a narrower signed variable when chain): the operand node keeps its type"""
    from rzilcompiler.Transformer.RZILTransformer import RZILTransformer
    from rzilcompiler.Transformer.Pures.Cast import Cast
    from rzilcompiler.Transformer.Pures.Variable import Variable
    from rzilcompiler.Transformer.ValueType import ValueType
    from rzilcompiler.ArchEnum import ArchEnum
    t = RZILTransformer(ArchEnum.HEXAGON)
    src, dst = tuple(a["src"]), tuple(a["dst"])
    inner_t = (True, src[1] // 2) if a.get("chain") else (False, 64 if src[1] != 64 else 32)
    x = Variable("x", ValueType(*inner_t))
    kind = a.get("kind", "Cast").split(":")[0]
    if kind == "MemLoad":
        from rzilcompiler.Transformer.Pures.MemLoad import MemLoad, MemAccessType
        x = Variable("EA", ValueType(False, 32))
        op = t.add_op(MemLoad("ml_EA", x, MemAccessType(ValueType(*src), True)))
        inner_t = (False, 32)
    elif kind == "Cast":
        op = t.add_op(Cast("cast", ValueType(*src), x))
    else:
        op = x = _real_operand(kind, src, "x")
        inner_t = src
    before = (op.value_type.signed, op.value_type.bit_width, x.value_type.signed, x.value_type.bit_width)
    if a["meth"] == "init_a_cast":
        t.init_a_cast(ValueType(*dst), op)
    else:
        t.cast_expr([ValueType(*dst), op])
    after = (op.value_type.signed, op.value_type.bit_width, x.value_type.signed, x.value_type.bit_width)
    return before != after, f"{a['meth']}(({tname(dst)}) <{kind}:{tname(src)}> over x:{tname(inner_t)}): operand types before {before}, after {after}"


@replay.register("c03.callback")
def replay_callback(a):
    from rzilcompiler.Transformer.RZILTransformer import RZILTransformer
    from rzilcompiler.Transformer.ValueType import ValueType
    from rzilcompiler.Transformer.Pures.Variable import Variable
    from rzilcompiler.Transformer.Pures.Parameter import Parameter
    from rzilcompiler.Transformer.Pures.Register import Register, RegisterAccessType
    from rzilcompiler.ArchEnum import ArchEnum
    kind, src, dst, ctx = a["kind"], tuple(a["src"]), tuple(a["dst"]), a["ctx"]
    mdl = a.get("model", {})
    x = mdl.get("x", 0) or 0
    if kind == "Number":
        xl = mdl.get("x_lit")
        x = ((xl if xl is not None else x) or 0) % (1 << src[1])
    op = _real_operand(kind, src, value=x)
    values = {("x_nz", 8): 1 if x else 0, ("x_z", 8): 0} if kind in irkit.BOOL_KINDS else {("x", src[1]): int(x)}
    try:
        if ctx == "return":
            t = RZILTransformer(ArchEnum.HEXAGON, parameters=[Parameter("p0", ValueType(True, 32))], return_type=ValueType(*dst))
            asg = t.jump_stmt([Token("RETURN", "return"), op])
            v64 = _concrete_den(asg.src, values)
            # the caller reads the value through the real SubRoutine.il_read() / Call.il_read()
            from rzilcompiler.Transformer.Hybrids.SubRoutine import SubRoutine
            from rzilcompiler.Transformer.Hybrids.Call import Call
            got = None
            for rd in (SubRoutine("fn", ValueType(*dst), [Parameter("x", ValueType(True, 32))], "return x;"), Call("c_call", ValueType(*dst), ["get_npc", "pkt"])):
                txt = rd.il_read()
                srt, val, err = irkit.eval_text_concrete(txt, {"ret_val": 64}, {"ret_val": v64})
                if err or srt != ("bv", dst[1]) or val != _c_value(kind, src, dst, x):
                    return True, f"return of {kind} {tname(src)} value {x:#x} as {tname(dst)}: ret_val = {v64:#x}, caller reads {txt} = {val if val is None else hex(val)} ({err or srt}); C11 value {_c_value(kind, src, dst, x):#x}"
                got = val
        else:
            t = RZILTransformer(ArchEnum.HEXAGON)
            if ctx == "init_a_cast":
                r = t.init_a_cast(ValueType(*dst), op)
            elif ctx == "cast_expr":
                r = t.cast_expr([ValueType(*dst), op])
            elif ctx == "promotion_cast":
                r = t.promotion_cast(op)
            elif ctx == "declaration":
                asg = t.init_declarator([Token("IDENTIFIER", "v"), op])
                r = t.declaration([ValueType(*dst), asg]).src
            elif ctx == "assignment_expr":
                if a.get("sink") == "Register":
                    nm = {32: "Rd", 64: "Rdd", 8: "Pd"}[dst[1]]
                    d = t.add_op(Register(nm, RegisterAccessType.PW if dst[1] == 64 else RegisterAccessType.W, ValueType(*dst)))
                else:
                    d = t.add_op(Variable("v", ValueType(*dst)))
                r = t.assignment_expr([d, Token("ASSIGN_OP", "="), op]).src
            elif ctx == "cast_arg_list":
                args = [Variable("y", ValueType(True, 32)), op]
                t.cast_arg_list(args, [ValueType(True, 32), ValueType(*dst)])
                r = args[1]
            elif ctx == "mem_store":
                ea = t.add_op(Variable("EA", ValueType(False, 32)))
                r = t.mem_store([Token("MEM_STORE", "mem_store_"), Token("SIGN_TYPE", "s" if dst[0] else "u"),
                                 Token("BIT_WIDTH", str(dst[1])), ea, op]).data_var
            elif ctx == "jump":
                r = t.jump([Token("JUMP", "JUMP"), op]).target
            else:
                return None, f"unknown context {ctx}"
            rt = ir.vt(r)
            if rt[1] != dst[1]:
                return True, f"{ctx}: result typed {tname(rt)}, sink type {tname(dst)}; node {r}"
            probs = ir.wf_problems(r)
            if probs:
                return True, f"{ctx}: result not well-formed: {probs}"
            got = _concrete_den(r, values)
    except Exception as e:
        return True, f"{ctx}({kind} {tname(src)} -> {tname(dst)}) raised {type(e).__name__}: {e}"
    want = _c_value(kind, src, dst, x)
    if got == want and not faithful(kind):
        return "inconclusive", f"{ctx}: stand-in variable for a {kind} operand of type {tname(src)} -> {tname(dst)} agrees with C11"
    return got != want, f"{ctx}: {kind} of type {tname(src)} value {x:#x} -> {tname(dst)}: IR value {got:#x}, C11 value {want:#x}"


@replay.register("c03.cast_operands")
def replay_cast_operands(a):
    from rzilcompiler.Transformer.RZILTransformer import RZILTransformer
    from rzilcompiler.ArchEnum import ArchEnum
    ta, tb = tuple(a["ta"]), tuple(a["tb"])
    mdl = a.get("model", {})
    oa, ob = _real_operand(a["ka"], ta, "a"), _real_operand(a["kb"], tb, "b")
    t = RZILTransformer(ArchEnum.HEXAGON)
    try:
        ra, rb = t.cast_operands(a=oa, b=ob, immutable_a=a["imm"])
    except Exception as e:
        return True, f"cast_operands raised {type(e).__name__}: {e}"
    ea, eb = ir.vt(oa), ir.vt(ob)
    want = ea if a["imm"] else c11.uac(ea[0], ea[1], eb[0], eb[1])
    txt = f"cast_operands({oa}:{tname(ea)}, {ob}:{tname(eb)}, immutable_a={a['imm']}) -> ({ra}:{tname(ir.vt(ra))}, {rb}:{tname(ir.vt(rb))}); expected common type {tname(want)}"
    bad = ir.vt(rb) != tuple(want) or (not a["imm"] and ir.vt(ra) != tuple(want)) or bool(ir.wf_problems(ra)) or bool(ir.wf_problems(rb))
    if not bad:
        vals = {}
        for nm, k, t_ in (("a", a["ka"], ea), ("b", a["kb"], eb)):
            v = mdl.get(nm, 0)
            if k in irkit.BOOL_KINDS:
                vals[(nm + "_nz", 8)] = 1 if v else 0
                vals[(nm + "_z", 8)] = 0
            else:
                vals[(nm, t_[1])] = int(v)
        for nm, k, t_, r in (("a", a["ka"], ta, ra), ("b", a["kb"], tb, rb)):
            got = _concrete_den(r, vals)
            if isinstance(got, bool):
                got = int(got)
            v = mdl.get(nm, 0)
            src_t = ir.vt(oa if nm == "a" else ob)
            if k in irkit.BOOL_KINDS and ir.vt(r) == src_t:
                continue
            wv = _c_value(k, src_t, ir.vt(r), v)
            if got != wv:
                bad = True
                txt += f"; operand {nm}: IR value {got:#x}, C11 value {wv:#x}"
    return bad, txt


# ------------------------------------------------------------------------------------------
QUICK_KINDS = ["Variable", "Register", "Number", "Cast", "HybridTmp", "CompareOp", "Bool", "BooleanOp"]


def gen_task(loader, check, what, types="T8", kinds=None, replay_on=True, sections=None, depth=2):
    tps = {"T8": T8, "TX": TX}[types]
    if what == "chained-assignment":
        # conversion chain through a chained assignment a = b = x: a receives conv(conv(x -> type b) -> type a)  (generator of C05)
        from . import c05
        saved = getattr(check, "ob_filter", None)
        check.ob_filter = r"a-gets-the-converted-value-of-b|chained\)#total|both-assignments"
        try:
            c05.gen_chained(loader, check, replay_on)
        finally:
            check.ob_filter = saved
        return
    if what == "cast-types":
        # the type a cast converts to is the C type its type name spells: the type callbacks on the real parse trees (generator of C01)
        from . import c01
        saved = getattr(check, "ob_filter", None)
        check.ob_filter = r"^cast-type#"
        try:
            c01.gen_types(loader, check, replay_on)
        finally:
            check.ob_filter = saved
        return
    if what == "emission":
        gen_emission(loader, check, tps, kinds, replay_on)
    elif what == "ite":
        gen_ite_lowering(loader, check, tps, replay_on)
    elif what == "chains":
        gen_chains(loader, check, T8, depth, replay_on)
    elif what == "callbacks":
        gen_callbacks(loader, check, T8, kinds, replay_on, sections)


def tasks_for(tier):
    types = "TX" if tier == "thorough" else "T8"
    kinds = irkit.ALL_KINDS if tier == "thorough" else QUICK_KINDS
    ts = [{"what": "emission", "types": types, "kinds": [k]} for k in irkit.BV_KINDS]
    ts.append({"what": "ite", "types": types})
    ts.append({"what": "chained-assignment"})
    ts.append({"what": "cast-types"})
    ts.append({"what": "chains", "depth": 2})
    if tier == "thorough":
        ts.append({"what": "chains", "depth": 3})
    for k in kinds:
        ts.append({"what": "callbacks", "kinds": [k], "sections": ["cast_calls"]})
    for sec in ALL_SECTIONS[1:]:
        ts.append({"what": "callbacks", "kinds": kinds, "sections": [sec]})
    return ts


def generate_reduced(loader, check):
    """mutant self-test: one kind per sort, six types, no replay (the native code is not mutated)"""
    gen_emission(loader, check, T8, ["Variable"], False)
    gen_ite_lowering(loader, check, [(True, 32), (False, 8)], False)
    gen_callbacks(loader, check, [(True, 8), (False, 8), (True, 32), (False, 64)], ["Variable", "CompareOp"], False)
    gen_task(loader, check, "chained-assignment", replay_on=False)
    gen_task(loader, check, "cast-types", replay_on=False)


def run(check: Check):
    loader = Loader()
    check.trust("T-VCGEN: pyvc interpretation of the Python subset (mitigated by mutant self-test and native replay of every counter-model)")
    check.trust("T-C11: spec/c11.py conversion rules (ISO C11 6.3.1.3 on two's-complement patterns)")
    check.trust("T-RZIL: spec/rzil.py semantics of CAST/MSB/ITE/SN/UN/SIGNED/UNSIGNED and the sort rules")
    check.trust("T-IND: composition over expression depth (contracts only look at a child's class, type, sort and opaque den)")
    check.assume("A-NAMES: RZILTransformer.add_op is used through its contract (contracts/tkit.py); user identifiers do not "
                 "collide with internal node base names")
    check.assume("abstract operands: il_read() of a child returns text denoting den(child) with sort(child) (the child's own "
                 "emission contract, discharged per class in this file / C02 / C10)")
    check.assume("operand kinds enumerate every IR class; BooleanOp children are not WF on this tree (no BOOL flag) and are "
                 "excluded from callback preconditions - the defect is reported at BooleanOp's constructor (C02/C10)")
    check.run_parallel("contracts.c03", "gen_task", tasks_for(check.tier), workers=WORKERS)
    run_mutants(check, MUTANTS, "contracts.c03", "generate_reduced")
    return check.finish(
        level="proof",
        rule="one obligation per (function, operand kind, source type, target type, clause); values universally "
             "quantified as z3 bit-vectors; distinct = distinct (obligation, instance) keys")
