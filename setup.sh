#!/bin/sh
# Builds /verif/.venv offline: python 3.12 (from /venv) + z3-solver + cvc5 + jsonschema,
# with a .pth overlay that exposes the repository's own dependencies (lark, pcpp, tqdm).
set -e
cd "$(dirname "$0")"
if [ -x .venv/bin/python ] && .venv/bin/python -c "import z3, cvc5, lark" 2>/dev/null; then
  echo "venv ok"; exit 0
fi
rm -rf .venv
/venv/bin/python -m venv .venv
PIP_NO_INDEX=1 .venv/bin/pip install -q --no-index --find-links /opt/veriftools/wheels z3-solver cvc5 jsonschema
echo "import site; site.addsitedir('/venv/lib/python3.12/site-packages')" > .venv/lib/python3.12/site-packages/_overlay.pth
.venv/bin/python -c "import z3, cvc5, lark, jsonschema; print('venv built', z3.get_version_string())"
