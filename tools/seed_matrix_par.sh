#!/bin/sh
# usage: seed_matrix_par.sh [names...]   every stored seeded change against its OWN property's quick check, three at a time, each in its own
# scratch worktree (the checks read RZIL_REPO); writes seeded/MATRIX_own.txt.  /repo itself is not touched.
cd /verif
names="$@"
[ -z "$names" ] && names=$(ls seeded | grep -v MATRIX | grep -v "^NA_")
echo $names | tr ' ' '\n' | xargs -P 3 -I{} sh tools/seed_own.sh {} | tee /tmp/w/matrix_own.part
python3 - <<'PY'
rows = {}
import os
for f in ("/verif/seeded/MATRIX_own.txt", "/tmp/w/matrix_own.part"):
    if os.path.exists(f):
        for ln in open(f):
            if "|" in ln:
                rows[ln.split("|")[0].strip()] = ln.rstrip("\n")
open("/verif/seeded/MATRIX_own.txt", "w").write("\n".join(rows[k] for k in sorted(rows)) + "\n")
PY
git checkout -q -- evidence 2>/dev/null; rm -f /verif/replay/*.json
