#!/bin/sh
# usage: seed_own.sh <name>   one stored seeded change against its own property's quick check, in a scratch worktree of /repo (RZIL_REPO),
# so that several can run side by side; prints one line.  Used by tools/seed_matrix_par.sh.
n=$1
p=$(echo $n | cut -d_ -f1)
mkdir -p /tmp/w; wt=/tmp/w/mwt_$n
git -C /repo worktree add -q --detach $wt HEAD 2>/dev/null || { echo "$n | WORKTREE-FAILED"; exit 0; }
if ! git -C $wt apply /verif/seeded/$n/patch.diff 2>/dev/null; then echo "$n | APPLY-FAILED"; git -C /repo worktree remove --force $wt; exit 0; fi
out=$(cd /verif && RZIL_REPO=$wt bin/check $p --tier quick 2>&1); rc=$?
first=$(echo "$out" | grep -E "^VIOLATION" | head -1 | sed -E 's/.*obligation=//' | cut -c1-110)
nv=$(echo "$out" | grep -c "^VIOLATION")
echo "$n | $p exit=$rc violations=$nv first=[$first]"
git -C /repo worktree remove --force $wt
