#!/bin/sh
# usage: seed_run.sh <patchfile> <prop> [<prop>...]  applies the change to /repo, runs the quick checks, undoes it
patch=$1; shift
git -C /repo diff --quiet || { echo "/repo not clean"; exit 9; }
git -C /repo apply $patch || { echo "APPLY-FAILED"; exit 8; }
for p in "$@"; do
  out=$(cd /verif && bin/check $p --tier quick 2>&1); rc=$?
  echo "== $p exit=$rc"
  echo "$out" | grep -E "VIOLATION|UNDECIDED|CHECKER-FAULT" | sed -E 's/replay=[^ ]*//' | cut -c1-230 | head -4
  echo "$out" | tail -1 | cut -c1-200
done
git -C /repo checkout -- . ; git -C /repo status --short | head -3
cd /verif && git checkout -q -- evidence 2>/dev/null; rm -f /verif/replay/*.json
