#!/bin/sh
# usage: seed_matrix.sh [names...]   runs every stored seeded change against its own property's quick check and C01; writes seeded/MATRIX.txt
cd /verif
names="$@"
[ -z "$names" ] && names=$(ls seeded | grep -v MATRIX | grep -v "^NA_")
for n in $names; do
  p=$(echo $n | cut -d_ -f1)
  extra=$(python3 -c "import json;print(' '.join(json.load(open('/verif/seeded/$n/meta.json')).get('also_run',[])))" 2>/dev/null)
  git -C /repo diff --quiet || { echo "/repo not clean"; exit 9; }
  git -C /repo apply /verif/seeded/$n/patch.diff || { echo "$n APPLY-FAILED"; continue; }
  line="$n"
  list="$p $extra"
  [ "$p" != "C01" ] && list="$list C01"
  for c in $list; do
    out=$(bin/check $c --tier quick 2>&1); rc=$?
    first=$(echo "$out" | grep -E "^VIOLATION" | head -1 | sed -E 's/.*obligation=//' | cut -c1-110)
    nv=$(echo "$out" | grep -c "^VIOLATION")
    line="$line | $c exit=$rc violations=$nv first=[$first]"
  done
  git -C /repo checkout -- .
  echo "$line"
done | tee seeded/MATRIX.part
python3 - <<'PY'
import os
rows = {}
for f in ("/verif/seeded/MATRIX.txt", "/verif/seeded/MATRIX.part"):
    if os.path.exists(f):
        for ln in open(f):
            if "|" in ln:
                rows[ln.split("|")[0].strip()] = ln.rstrip("\n")
open("/verif/seeded/MATRIX.txt", "w").write("\n".join(rows[k] for k in sorted(rows)) + "\n")
os.remove("/verif/seeded/MATRIX.part")
PY
git checkout -q -- evidence 2>/dev/null; rm -f /verif/replay/*.json
